#!/usr/bin/env python3
"""Confirm a seeded change in a scratch worktree (never in /repo):
  1. worktree of /repo HEAD under /tmp/wt/, own target dir
  2. + patch.diff            -> builds; the repo's own suite fails exactly where it fails without
  3. + demonstration         -> the demonstration FAILS
  4. - patch.diff            -> the demonstration PASSES
  5. worktree and build output removed
usage: verify_seeded.py <seeded-dir-name>...      (results: seeded/<name>/verified.json)
"""
import json, os, re, shutil, subprocess, sys, time

VERIF = "/verif"
WT = "/tmp/wt/seedverify"
TGT = "/tmp/wt/seedverify-target"
ENV = dict(os.environ, CARGO_NET_OFFLINE="true", CARGO_TARGET_DIR=TGT)
BASELINE_FAILS = {"ty::tests::infer_annotated_lambda", "ty::tests::infer_annotated_let"}


def sh(cmd, cwd=WT, timeout=3600):
    p = subprocess.run(cmd, cwd=cwd, env=ENV, shell=isinstance(cmd, str), stdout=subprocess.PIPE, stderr=subprocess.STDOUT, text=True, timeout=timeout)
    return p.returncode, p.stdout


def apply(path, reverse=False):
    rc, out = sh(["git", "apply"] + (["-R"] if reverse else []) + [path])
    if rc != 0 and not reverse:
        rc, out = sh(f"patch -p1 --fuzz=3 --no-backup-if-mismatch < {path}")
    return rc == 0, out


def suite():
    rc, out = sh("cargo test --workspace --no-fail-fast --offline 2>&1")
    fails = set(re.findall(r"^test (\S+) \.\.\. FAILED", out, re.M))
    passed = sum(int(x) for x in re.findall(r"test result: \w+\. (\d+) passed", out))
    built = "could not compile" not in out
    return built, fails, passed


def main():
    names = sys.argv[1:]
    os.makedirs("/tmp/wt", exist_ok=True)
    for name in names:
        d = os.path.join(VERIF, "seeded", name)
        meta = json.load(open(os.path.join(d, "meta.json")))
        res = {"name": name, "repo_head": subprocess.check_output(["git", "-C", "/repo", "rev-parse", "--short", "HEAD"], text=True).strip(), "when": time.strftime("%Y-%m-%dT%H:%M:%SZ", time.gmtime())}
        subprocess.run(["git", "-C", "/repo", "worktree", "remove", "--force", WT], stdout=subprocess.DEVNULL, stderr=subprocess.DEVNULL)
        shutil.rmtree(WT, ignore_errors=True)
        subprocess.check_call(["git", "-C", "/repo", "worktree", "add", "--detach", WT, "HEAD"], stdout=subprocess.DEVNULL, stderr=subprocess.DEVNULL)
        try:
            ok, out = apply(os.path.join(d, "patch.diff"))
            res["patch_applies"] = ok
            if not ok:
                res["error"] = out[-500:]
                continue
            built, fails, passed = suite()
            res["with_patch_builds"] = built
            res["with_patch_suite"] = {"passed": passed, "failed": sorted(fails)}
            res["with_patch_suite_equals_baseline"] = built and fails == BASELINE_FAILS
            demo = meta["demo"]
            if demo["kind"] == "test":
                ok, out = apply(os.path.join(d, demo["file"]))
                res["demo_applies"] = ok
                if not ok:
                    res["error"] = out[-500:]
                    continue
                cmd = f"cargo test -p {demo['package']} {demo['filter']} --offline 2>&1"
                rc1, out1 = sh(cmd)
                res["demo_with_patch"] = {"rc": rc1, "tail": out1[-600:]}
                ok, out = apply(os.path.join(d, "patch.diff"), reverse=True)
                if not ok:
                    # patch was applied with fuzz: reverse the same way
                    sh(f"patch -R -p1 --fuzz=3 --no-backup-if-mismatch < {os.path.join(d, 'patch.diff')}")
                rc2, out2 = sh(cmd)
                res["demo_without_patch"] = {"rc": rc2, "tail": out2[-300:]}
                ran = re.search(r"test result: \w+\. ([1-9]\d*) passed", out2) is not None
                res["confirmed"] = bool(res["with_patch_suite_equals_baseline"] and rc1 != 0 and rc2 == 0 and ran)
            else:  # script driving the built binary
                sh("cargo build -p glas --offline 2>&1")
                cmd = f"python3 {os.path.join(d, demo['file'])} {TGT}/debug/glas {demo.get('args', '')}"
                rc1, out1 = sh(cmd, timeout=1800)
                res["demo_with_patch"] = {"rc": rc1, "tail": out1[-600:]}
                apply(os.path.join(d, "patch.diff"), reverse=True)
                sh("cargo build -p glas --offline 2>&1")
                rc2, out2 = sh(cmd, timeout=1800)
                res["demo_without_patch"] = {"rc": rc2, "tail": out2[-300:]}
                res["confirmed"] = bool(res["with_patch_suite_equals_baseline"] and rc1 != 0 and rc2 == 0)
        finally:
            subprocess.run(["git", "-C", "/repo", "worktree", "remove", "--force", WT], stdout=subprocess.DEVNULL, stderr=subprocess.DEVNULL)
            shutil.rmtree(WT, ignore_errors=True)
            json.dump(res, open(os.path.join(d, "verified.json"), "w"), indent=1)
            print(name, "confirmed" if res.get("confirmed") else "NOT CONFIRMED", json.dumps({k: v for k, v in res.items() if k in ("patch_applies", "with_patch_suite_equals_baseline", "demo_applies", "error")}))
    shutil.rmtree(TGT, ignore_errors=True)
    subprocess.run(["git", "-C", "/repo", "worktree", "prune"])


if __name__ == "__main__":
    main()
