#!/usr/bin/env python3
import json,sys,glob,collections
pid=sys.argv[1]
ev=json.load(open(f'/verif/evidence/{pid}.json'))
vc=ev['coverage']['violation_counts']
print("== counts")
for k,v in sorted(vc.items(), key=lambda x:-x[1])[:80]: print(v,k)
agg=collections.Counter()
for k,v in vc.items():
    parts=k.split(':'); agg[parts[0]+':*:'+parts[-1]]+=v
print("== by (what,kind)")
for k,v in agg.most_common(40): print(v,k)
