#!/usr/bin/env python3
"""Import sub-agent deliverables (/tmp/<round>/<ID>/out/{patch.diff,demo.diff|demo.py,meta.json}) into seeded/<ID>-<round>-<title>/.
usage: import_round.py r8 C01 C02 ...   (prints the seeded directory names)"""
import json, os, re, shutil, sys
rnd = sys.argv[1]
ORD = {"r8": "eighth", "r9": "ninth", "r10": "tenth"}.get(rnd, rnd)
for pid in sys.argv[2:]:
    out = f"/tmp/{rnd}/{pid}/out"
    if not os.path.exists(os.path.join(out, "patch.diff")):
        print(f"# {pid}: no patch.diff", file=sys.stderr); continue
    m = json.load(open(os.path.join(out, "meta.json")))
    title = re.sub(r"[^a-z0-9]+", "-", m.get("title", "change").lower()).strip("-")[:70]
    name = f"{pid}-{rnd}-{title}"
    d = os.path.join("/verif/seeded", name)
    os.makedirs(d, exist_ok=True)
    shutil.copy(os.path.join(out, "patch.diff"), d)
    demo = m.get("demo", {})
    f = demo.get("file", "demo.diff")
    shutil.copy(os.path.join(out, f), d)
    if os.path.exists(os.path.join(out, "byproduct.md")):
        shutil.copy(os.path.join(out, "byproduct.md"), d)
    meta = {"property": pid, "name": name, "what_changes": m.get("what_changes", ""), "needs_to_manifest": m.get("needs_to_manifest", ""),
            "origin": f"{ORD} round: written by a fresh sub-agent that saw only the property text, one line per earlier idea to avoid, and its own scratch worktree of the repaired tree",
            "demo": demo, "agent_ran": m.get("ran", ""), "caught_by": [],
            "how_confirmed": "tools/verify_seeded.py (scratch worktree under /tmp/wt: patch builds, repo suite fails only where it fails without the patch, demonstration fails with the patch and passes without) -> verified.json; tools/try_patch.sh patch.diff <caught_by...> (apply to /repo, run quick checks, restore)"}
    json.dump(meta, open(os.path.join(d, "meta.json"), "w"), indent=1, ensure_ascii=False)
    print(name)
