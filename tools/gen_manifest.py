#!/usr/bin/env python3
"""Generate /verif/MANIFEST.json from checkcfg.PROPS + manifest_meta (keeps the file valid and in sync)."""
import json, sys, os
sys.path.insert(0, '/verif')
from checkcfg import PROPS
from manifest_meta import META, NOT_APPLICABLE, HOOK_COMMITS, ENGINES, NOTES
checks = []
for pid in sorted(PROPS):
    m = META[pid]
    c = {
        "property_id": pid,
        "quick_cmd": f"./check {pid} --tier quick",
        "thorough_cmd": f"./check {pid} --tier thorough",
        "evidence_file": f"/verif/evidence/{pid}.json",
        "replay_cmd_template": f"./check {pid} --replay {{path}}",
        "engine": PROPS[pid]["bin"],
        "level_claimed": {"category": PROPS[pid]["level"], "text": m["level_text"], "design_ref": m["design_ref"]},
        "level_note": m["level_note"],
        "technique": m["technique"],
    }
    checks.append(c)
man = {
    "version": 1,
    "setup_cmd": "cd /verif && ./setup.sh",
    "hooks": {
        "guard": "cargo feature `verif` on crate glas (crates/glas/Cargo.toml [features] verif = []), off by default",
        "enable": "harness crate vtext depends on glas with features=[\"verif\"]; the hooked server binary is built with `cargo build --release -p glas --features verif` into /verif/target/glas-verif",
        "baseline_off_cmd": "cd /repo && (cargo nextest run --workspace --no-fail-fast --offline || cargo test --workspace --no-fail-fast --offline)",
        "source_commits": HOOK_COMMITS,
        "add_only": True,
    },
    "engines": ENGINES,
    "checks": checks,
    "notes": NOTES,
    "not_applicable": [{"property_id": k, "reason": v} for k, v in sorted(NOT_APPLICABLE.items()) if k not in PROPS],
}
json.dump(man, open('/verif/MANIFEST.json', 'w'), indent=1)
print("MANIFEST.json:", len(checks), "checks,", len(man["not_applicable"]), "not_applicable")
