#!/usr/bin/env python3
import json,sys,glob
pid=sys.argv[1]; pat=sys.argv[2] if len(sys.argv)>2 else ''
n=int(sys.argv[3]) if len(sys.argv)>3 else 1
fs=[f for f in sorted(glob.glob(f'/verif/replays/{pid}/*.json'))]
cands=[]
for f in fs:
    d=json.load(open(f))
    if pat in d['signature']:
        size=sum(len(t) for p,t in d['replay'].get('files',[])) if 'files' in d['replay'] else 0
        cands.append((size,f,d))
cands.sort(key=lambda x:x[0])
for size,f,d in cands[:n]:
    print('#####',f,d['signature'],'count',d.get('count_in_run'))
    print(d['detail'][:1500])
    r=d['replay']
    occ=r.get('occurrence') or r.get('declaration') or r.get('binder')
    print('occ',occ)
    for p,t in r.get('files',[]):
        if p.endswith('.toml'): continue
        print('-----',p)
        lines=t.split('\n'); off=0
        for i,l in enumerate(lines):
            print(f'{off:5d}| {l}'); off+=len(l.encode())+1
