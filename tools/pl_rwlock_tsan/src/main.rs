use std::sync::Arc;
fn main() {
    let secs: u64 = std::env::args().nth(1).unwrap().parse().unwrap();
    let nthreads: usize = std::env::args().nth(2).unwrap().parse().unwrap();
    let mode: u64 = std::env::args().nth(3).unwrap().parse().unwrap();
    let t0 = std::time::Instant::now();
    if mode == 0 {
        let slot: Arc<std::sync::RwLock<Box<[u64; 2]>>> = Arc::new(std::sync::RwLock::new(Box::new([0, 0])));
        let hs: Vec<_> = (0..nthreads).map(|t| { let slot = slot.clone(); std::thread::spawn(move || {
            let mut n = 0u64; let mut x = t as u64 * 7919 + 1;
            while t0.elapsed().as_secs() < secs {
                x ^= x << 13; x ^= x >> 7; x ^= x << 17;
                if x % 4 != 0 { let g = slot.read().unwrap(); n += g[0]; n += g[1]; }
                else { let mut w = slot.write().unwrap(); *w = Box::new([x, x]); }
            }
            n
        })}).collect();
        for h in hs { h.join().unwrap(); }
    } else if mode == 1 {
        let slot: Arc<parking_lot::RwLock<Box<[u64; 2]>>> = Arc::new(parking_lot::RwLock::new(Box::new([0, 0])));
        let hs: Vec<_> = (0..nthreads).map(|t| { let slot = slot.clone(); std::thread::spawn(move || {
            let mut n = 0u64; let mut x = t as u64 * 7919 + 1;
            while t0.elapsed().as_secs() < secs {
                x ^= x << 13; x ^= x >> 7; x ^= x << 17;
                if x % 4 != 0 { let g = slot.read(); n += g[0]; n += g[1]; }
                else { let mut w = slot.write(); *w = Box::new([x, x]); }
            }
            n
        })}).collect();
        for h in hs { h.join().unwrap(); }
    } else {
        let slot: Arc<parking_lot::Mutex<Box<[u64; 2]>>> = Arc::new(parking_lot::Mutex::new(Box::new([0, 0])));
        let hs: Vec<_> = (0..nthreads).map(|t| { let slot = slot.clone(); std::thread::spawn(move || {
            let mut n = 0u64; let mut x = t as u64 * 7919 + 1;
            while t0.elapsed().as_secs() < secs {
                x ^= x << 13; x ^= x >> 7; x ^= x << 17;
                if x % 4 != 0 { let g = slot.lock(); n += g[0]; n += g[1]; }
                else { let mut w = slot.lock(); *w = Box::new([x, x]); }
            }
            n
        })}).collect();
        for h in hs { h.join().unwrap(); }
    }
    println!("done");
}
