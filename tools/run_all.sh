#!/bin/bash
# usage: run_all.sh [quick|thorough] [ids...]   — run checks on the current tree, one after another; summary lines only
TIER=${1:-quick}; shift
IDS=${@:-C01 C02 C03 C04 C05 C06 C07 C08 C09 C10 C11 C12 C13 C14 C15 C16 C17 C18 C19 C20}
cd /verif
for id in $IDS; do
  out=$(./check "$id" --tier "$TIER" 2>&1); rc=$?
  echo "$out" | grep -E "^(VIOLATION|KNOWN-FINDING|  signature|check:)" | head -8
  [ $rc -ne 0 ] && echo "!! $id rc=$rc"
done
