#!/bin/bash
# usage: rebase_patch.sh <old.diff> <new.diff>  — re-create a seeded patch against /repo HEAD (fuzzy apply), restoring /repo.
set -u
cd /repo || exit 2
git diff --quiet || { echo "/repo dirty"; exit 2; }
trap 'git -C /repo checkout -- . ; git -C /repo clean -fdq -- crates' EXIT
patch -p1 --fuzz=3 --no-backup-if-mismatch < "$1" || { echo "fuzzy apply failed"; exit 1; }
git diff > "$2"
echo "wrote $2 ($(wc -l < "$2") lines)"
