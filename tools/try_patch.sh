#!/bin/bash
# usage: try_patch.sh <patch.diff> <ID> [<ID>...]   (env: TIER=quick|thorough)
# Applies a seeded change to /repo, runs the given checks, then restores /repo.
set -u
PATCH=$1; shift
cd /repo || exit 2
if ! git diff --quiet; then echo "/repo has uncommitted changes; refusing"; exit 2; fi
git apply "$PATCH" || { echo "patch does not apply"; exit 2; }
trap 'git -C /repo checkout -- . ' EXIT
cd /verif
for id in "$@"; do
  out=$(VERIF_EVIDENCE_DIR=/verif/work/evidence-seeded VERIF_SEED=${VERIF_SEED:-0} ./check "$id" --tier "${TIER:-quick}" 2>&1)
  rc=$?
  echo "== $id rc=$rc"
  echo "$out" | grep -E "^(VIOLATION|KNOWN|  signature|check:)" | head -${LINES_MAX:-12}
done
