//! A workspace model with stable FileIds: the source of truth for histories (C11) and
//! versioned concurrent scenarios (C12). Builds full `Change`s for fresh hosts.

use ide::{AnalysisHost, Change, Dependency, FileId, FileSet, PackageGraph, SourceRoot, VfsPath};
use serde_json::json;
use std::sync::Arc;

#[derive(Clone, Debug)]
pub struct Pkg {
    pub root: String,
    pub name: String,
    pub is_local: bool,
    pub deps: Vec<usize>,
}

#[derive(Clone, Debug)]
pub struct FileEntry {
    pub id: u32,
    pub pkg: usize,
    pub path: String,
    pub text: String,
}

#[derive(Clone, Debug)]
pub struct ModelWs {
    pub pkgs: Vec<Pkg>,
    pub files: Vec<FileEntry>,
}

impl ModelWs {
    pub fn roots(&self) -> Vec<SourceRoot> {
        self.pkgs
            .iter()
            .enumerate()
            .map(|(pi, p)| {
                let mut set = FileSet::default();
                for f in self.files.iter().filter(|f| f.pkg == pi) {
                    set.insert(FileId(f.id), VfsPath::new(&f.path));
                }
                SourceRoot::new(set, p.root.clone().into())
            })
            .collect()
    }
    pub fn graph(&self) -> PackageGraph {
        let mut g = PackageGraph::default();
        let mut ids = Vec::new();
        for (pi, p) in self.pkgs.iter().enumerate() {
            let toml = self.files.iter().find(|f| f.pkg == pi && f.path == format!("{}/gleam.toml", p.root)).expect("toml");
            ids.push(g.add_package(p.name.as_str().into(), FileId(toml.id), p.is_local));
        }
        for (pi, p) in self.pkgs.iter().enumerate() {
            for d in &p.deps {
                g.add_dep(ids[pi], Dependency { package: ids[*d] });
            }
        }
        g
    }
    pub fn full_change(&self) -> Change {
        let mut c = Change::default();
        for f in &self.files {
            c.change_file(FileId(f.id), Arc::from(f.text.as_str()));
        }
        c.set_roots(self.roots());
        c.set_package_graph(self.graph());
        c
    }
    pub fn fresh(&self) -> AnalysisHost {
        let mut h = AnalysisHost::new();
        h.apply_change(self.full_change());
        h
    }
    pub fn to_json(&self) -> serde_json::Value {
        json!({
            "pkgs": self.pkgs.iter().map(|p| json!({"root":p.root,"name":p.name,"is_local":p.is_local,"deps":p.deps})).collect::<Vec<_>>(),
            "files": self.files.iter().map(|f| json!({"id":f.id,"pkg":f.pkg,"path":f.path,"text":f.text})).collect::<Vec<_>>(),
        })
    }
    pub fn from_json(v: &serde_json::Value) -> ModelWs {
        ModelWs {
            pkgs: v["pkgs"].as_array().unwrap().iter().map(|p| Pkg { root: p["root"].as_str().unwrap().into(), name: p["name"].as_str().unwrap().into(), is_local: p["is_local"].as_bool().unwrap(), deps: p["deps"].as_array().unwrap().iter().map(|d| d.as_u64().unwrap() as usize).collect() }).collect(),
            files: v["files"].as_array().unwrap().iter().map(|f| FileEntry { id: f["id"].as_u64().unwrap() as u32, pkg: f["pkg"].as_u64().unwrap() as usize, path: f["path"].as_str().unwrap().into(), text: f["text"].as_str().unwrap().into() }).collect(),
        }
    }
}

