//! Workspace-level damage for the robustness monitors (C10, C20, and the broken
//! variants of C06): text mutation, truncation, item duplication, import rewiring
//! (self-import, cycles, unresolved, duplicates), degenerate files.

use crate::gen::{self, GenCfg, Workspace};
use crate::prog::Trivia;
use crate::rng::Rng;
use crate::textgen;

#[derive(Clone, Debug)]
pub struct DamagedWs {
    /// (path, text)
    pub files: Vec<(String, String)>,
    pub ops: Vec<String>,
}

fn module_name_of(path: &str) -> String {
    path.trim_start_matches("/ws/pkg/src/").trim_end_matches(".gleam").to_string()
}

/// Hostile shapes taken from reading lowering and inference: each is spliced as an extra
/// function into a random module.
pub const HOSTILE_SNIPPETS: &[&str] = &[
    // more distinct unconstrained type variables than the alphabet has letters (the 27th is named `a1` or the like)
    "fn wide(p0, p1, p2, p3, p4, p5, p6, p7, p8, p9, p10, p11, p12, p13, p14, p15, p16, p17, p18, p19, p20, p21, p22, p23, p24, p25, p26, p27, p28, p29, p30, p31, p32, p33, p34, p35, p36, p37, p38, p39) { #(p0, p1, p2, p3, p4, p5, p6, p7, p8, p9, p10, p11, p12, p13, p14, p15, p16, p17, p18, p19, p20, p21, p22, p23, p24, p25, p26, p27, p28, p29, p30, p31, p32, p33, p34, p35, p36, p37, p38, p39) }",
    "fn wide_list(q) { let #(v0, v1, v2, v3, v4, v5, v6, v7, v8, v9, v10, v11, v12, v13, v14, v15, v16, v17, v18, v19, v20, v21, v22, v23, v24, v25, v26, v27, v28, v29) = q #(v0, v1, v2, v3, v4, v5, v6, v7, v8, v9, v10, v11, v12, v13, v14, v15, v16, v17, v18, v19, v20, v21, v22, v23, v24, v25, v26, v27, v28, v29) }",
    "fn h1(a) { case a { 1, 2 -> 3 x, y, z -> 4 } }",
    "fn h2(a, b) { case a, b { 1 -> 2 _ -> 3 } }",
    "fn h3(f) { use a, b, c <- f(1) a }",
    "fn h4(f) { use <- f use x <- f(..x) x }",
    "fn h5(g) { g(..g, 1, _, _, name: 1, name: 2) }",
    "fn h6() { 1.name.other.0 }",
    "fn h7() { #(1, 2).7 }",
    "fn h8() { fn { 1 } }",
    "fn h9() { 1 |> 2 |> \"s\" |> h9(_, _) }",
    "fn h10(x) { case x { Ok(a, b, c, d) -> a Error() -> 1 Nil(1) -> 2 } }",
    "fn h11(x) { let #(a, b, c) = #(1) let [a, ..b, c] = x let Ok(..) = x a }",
    "fn h12() { h12.h12.h12() }",
    "fn h13(x: h13) -> h13 { x }",
    "type H14 { H14(a: H14, a: Int, a) } fn h14(x: H14) { x.a.a.a }",
    "type H15(a, a) = H15(a) fn h15(x: H15(Int)) { x }",
    "const h16 = h16 fn h16b() { h16 }",
    "fn h17() { let x = x let y = fn(y) { y(y) } y(y) }",
    "fn h18(a a: Int, a b: Int) { h18(a: 1, a: 2, 3) }",
    "fn h19() { case { } case 1 { } case 1 { -> } }",
    "fn h20() { <<1:size(8), x:utf8, >> }",
    "fn h21() { todo as panic as todo }",
    "fn h22(x) { x.0.0.0 x.a(1).b(2) }",
    "fn h23() { [..] [1, ..] [..[..[]]] }",
    "fn h24() -> fn(fn(fn() -> a) -> a) -> a { h24 }",
    "pub type H25 { H25 } pub type H25 { H25 } fn h25() { H25 }",
    "fn h26(x) { case x { \"a\" <> b <> c -> b [a, [b, [c, ..d]]] as e -> e -1 -> 2 } }",
    "import h27.{type H27, H27, h27 as h27b} fn h27c(x: H27) { h27b(H27) }",
    "fn h28(x) { let f = fn(a, b) { a } f(1) f(1, 2, 3) x |> f x |> f(1, 2) }",
    "type H29 { A29(x: Int) B29(x: String) C29 } fn h29(v: H29) { v.x }",
    "fn h30() { Ok(1)(2) Error Nil() True.x }",
];

pub fn damaged_workspace(r: &mut Rng) -> DamagedWs {
    let cfg = GenCfg {
        modules: r.range(1, 4),
        max_items: r.range(2, 7),
        max_depth: r.range(1, 3),
        holes: r.chance(1, 5),
        non_core: true,
        trivia: if r.chance(1, 2) { Trivia::Wild } else { Trivia::Plain },
        non_ascii: r.chance(1, 2),
    };
    let ws: Workspace = gen::generate(r, &cfg);
    let mut files: Vec<(String, String)> = (0..ws.modules.len()).map(|i| (ws.path_of(i), ws.printed[i].text.clone())).collect();
    let mut ops = Vec::new();
    let nops = r.below(4);
    for _ in 0..nops {
        let fi = r.below(files.len());
        match r.below(14) {
            0 | 1 | 2 => {
                let k = r.range(1, 5);
                for _ in 0..k {
                    files[fi].1 = textgen::mutate(r, &files[fi].1);
                }
                ops.push(format!("mutate x{k}"));
            }
            3 => {
                // truncate at a char boundary
                let t = &files[fi].1;
                if !t.is_empty() {
                    let mut p = r.below(t.len());
                    while !t.is_char_boundary(p) {
                        p -= 1;
                    }
                    files[fi].1.truncate(p);
                    ops.push("truncate".into());
                }
            }
            4 => {
                // duplicate an item
                let items = &ws.printed[fi.min(ws.printed.len() - 1)].items;
                if fi < ws.printed.len() && !items.is_empty() && files[fi].1 == ws.printed[fi].text {
                    let it = &items[r.below(items.len())];
                    let piece = files[fi].1[it.span.0..it.span.1].to_string();
                    files[fi].1.push('\n');
                    files[fi].1.push_str(&piece);
                    files[fi].1.push('\n');
                    ops.push(format!("duplicate-item {}", it.kind));
                }
            }
            5 => {
                // self import
                let me = module_name_of(&files[fi].0);
                let line = match r.below(3) {
                    0 => format!("import {me}\n"),
                    1 => format!("import {me}.{{a, type T, A}}\n"),
                    _ => format!("import {me} as {}\n", me.rsplit('/').next().unwrap()),
                };
                files[fi].1 = format!("{line}{}", files[fi].1);
                ops.push("self-import".into());
            }
            6 | 7 => {
                // import cycle of length 2 or 3 (when enough modules)
                if files.len() >= 2 {
                    let n = if files.len() >= 3 && r.chance(1, 2) { 3 } else { 2 };
                    let mut idx: Vec<usize> = (0..files.len()).collect();
                    r.shuffle(&mut idx);
                    let idx = &idx[..n];
                    let style = r.below(3);
                    for k in 0..n {
                        let from = idx[k];
                        let to = module_name_of(&files[idx[(k + 1) % n]].0);
                        let line = match style {
                            0 => format!("import {to}\n"),
                            1 => format!("import {to}.{{a, b, f, g, x, y, c}}\n"),
                            _ => format!("import {to}.{{type T, type U, type V, type Box}}\n"),
                        };
                        files[from].1 = format!("{line}{}", files[from].1);
                    }
                    ops.push(format!("import-cycle-{n}-style{style}"));
                }
            }
            8 => {
                files[fi].1 = format!("import does/not/exist\nimport nope.{{a, type B}}\n{}", files[fi].1);
                ops.push("unresolved-import".into());
            }
            9 => {
                // duplicate the first import line / alias two modules to one name
                let first_import = files[fi].1.lines().find(|l| l.trim_start().starts_with("import")).map(|s| s.to_string());
                if let Some(l) = first_import {
                    files[fi].1 = format!("{l}\n{l}\n{}", files[fi].1);
                    ops.push("duplicate-import".into());
                } else if files.len() >= 2 {
                    let a = module_name_of(&files[0].0);
                    let b = module_name_of(&files[1].0);
                    files[fi].1 = format!("import {a} as same\nimport {b} as same\n{}", files[fi].1);
                    ops.push("same-alias".into());
                }
            }
            10 => {
                files[fi].1 = match r.below(4) {
                    0 => String::new(),
                    1 => "  \n\t\n ".into(),
                    2 => "ßßß 💣 ℝ ünïcode 中文".into(),
                    _ => "//// only docs\n/// doc\n// c".into(),
                };
                ops.push("degenerate-file".into());
            }
            _ => {
                let s = *r.pick(HOSTILE_SNIPPETS);
                files[fi].1.push('\n');
                files[fi].1.push_str(s);
                files[fi].1.push('\n');
                ops.push(format!("hostile:{}", &s[..s.len().min(12)]));
            }
        }
    }
    // two modules with byte-identical text (copy-pasted boilerplate): everything keyed by
    // content instead of by file must still keep them apart
    if files.len() >= 2 && r.chance(1, 8) {
        let from = r.below(files.len());
        let to = (from + 1 + r.below(files.len() - 1)) % files.len();
        files[to].1 = files[from].1.clone();
        ops.push("identical-twin-file".into());
    }
    // a UTF-8 byte order mark in front of a file (editors on Windows write it): every
    // offset the analysis reports must still refer to the text it was given
    if r.chance(1, 5) {
        let fi = r.below(files.len());
        files[fi].1 = format!("\u{feff}{}", files[fi].1);
        ops.push("byte-order-mark".into());
    }
    files.push(("/ws/pkg/gleam.toml".into(), "name = \"pkg\"\n".into()));
    DamagedWs { files, ops }
}
