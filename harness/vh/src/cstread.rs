//! CST → canonical S-expression, through the public typed accessors of `syntax::ast`
//! (so "typed accessors interpret child positions" is exercised). The output format
//! mirrors `prog::sexp_*`; anything unreadable prints as `(?)` so it cannot compare
//! equal by accident.

use std::fmt::Write as _;
use syntax::ast::{self, AstNode};
use syntax::{NodeOrToken, SyntaxKind, SyntaxNode};

fn txt<T: ToString>(t: Option<T>) -> String {
    t.map(|s| s.to_string()).unwrap_or_else(|| "?".into())
}

fn child_nodes(n: &SyntaxNode) -> Vec<SyntaxNode> {
    n.children().collect()
}

fn has_token(n: &SyntaxNode, k: SyntaxKind) -> bool {
    n.children_with_tokens().any(|c| c.kind() == k)
}

/// Child nodes that come after the first direct token of kind `k`.
fn nodes_after_token(n: &SyntaxNode, k: SyntaxKind) -> Vec<SyntaxNode> {
    let mut seen = false;
    let mut out = Vec::new();
    for c in n.children_with_tokens() {
        match c {
            NodeOrToken::Token(t) => {
                if t.kind() == k {
                    seen = true;
                }
            }
            NodeOrToken::Node(x) => {
                if seen {
                    out.push(x);
                }
            }
        }
    }
    out
}

pub fn read_type(t: &ast::TypeExpr, o: &mut String) {
    match t {
        ast::TypeExpr::FnType(f) => {
            o.push_str("(tyfn (");
            if let Some(pl) = f.param_list() {
                for (i, p) in pl.params().enumerate() {
                    if i > 0 {
                        o.push(' ');
                    }
                    read_type(&p, o);
                }
            } else {
                o.push('?');
            }
            o.push_str(") ");
            match f.return_() {
                Some(r) => read_type(&r, o),
                None => o.push_str("(?)"),
            }
            o.push(')');
        }
        ast::TypeExpr::TupleType(t) => {
            o.push_str("(tytuple");
            for a in t.field_types() {
                o.push(' ');
                read_type(&a, o);
            }
            o.push(')');
        }
        ast::TypeExpr::TypeNameRef(r) => read_type_name_ref(r, "ty", o, true),
        ast::TypeExpr::TypeApplication(app) => {
            match app.type_constructor() {
                Some(c) => read_type_name_ref(&c, "tyapp", o, false),
                None => o.push_str("(tyapp ?"),
            }
            if let Some(al) = app.arg_list() {
                for a in al.args() {
                    o.push(' ');
                    match a.arg() {
                        Some(x) => read_type(&x, o),
                        None => o.push_str("(?)"),
                    }
                }
            }
            o.push(')');
        }
        ast::TypeExpr::Hole(h) => {
            let _ = write!(o, "(tyhole {})", txt(h.token().map(|t| t.text().to_string())));
        }
    }
}

fn read_type_name_ref(r: &ast::TypeNameRef, head: &str, o: &mut String, close: bool) {
    let module = r.module().and_then(|m| m.text());
    let name_tok = r.constructor_name().and_then(|n| n.token());
    let name = txt(name_tok.as_ref().map(|t| t.text().to_string()));
    let is_var = name_tok.as_ref().map(|t| t.kind() == SyntaxKind::IDENT).unwrap_or(false);
    if is_var && module.is_none() && head == "ty" {
        let _ = write!(o, "(tyvar {name}");
    } else {
        let _ = write!(o, "({head} {}{}", module.map(|m| format!("{m}.")).unwrap_or_default(), name);
    }
    if close {
        o.push(')');
    }
}

pub fn read_pattern(p: &ast::Pattern, o: &mut String) {
    match p {
        ast::Pattern::PatternVariable(v) => {
            let _ = write!(o, "(pvar {})", txt(v.name().and_then(|n| n.text())));
        }
        ast::Pattern::Hole(h) => {
            let _ = write!(o, "(phole {})", txt(h.token().map(|t| t.text().to_string())));
        }
        ast::Pattern::Literal(l) => {
            let _ = write!(o, "(plit {})", txt(l.text()));
        }
        ast::Pattern::VariantRef(v) => {
            let module = v.module().and_then(|m| m.name()).and_then(|n| n.text());
            let _ = write!(
                o,
                "(pctor {}{}",
                module.map(|m| format!("{m}.")).unwrap_or_default(),
                txt(v.variant().and_then(|n| n.text()))
            );
            if let Some(fl) = v.field_list() {
                o.push_str(" (");
                for (i, f) in fl.fields().enumerate() {
                    if i > 0 {
                        o.push(' ');
                    }
                    o.push_str("(f ");
                    if let Some(l) = f.label() {
                        let _ = write!(o, "{}: ", txt(l.text()));
                    }
                    match f.field() {
                        Some(x) => read_pattern(&x, o),
                        None => o.push_str("(?)"),
                    }
                    o.push(')');
                }
                o.push(')');
            }
            o.push(')');
        }
        ast::Pattern::PatternTuple(t) => {
            o.push_str("(ptuple");
            for a in t.field_patterns() {
                o.push(' ');
                read_pattern(&a, o);
            }
            o.push(')');
        }
        ast::Pattern::PatternList(l) => {
            o.push_str("(plist");
            for a in l.elements() {
                o.push(' ');
                read_pattern(&a, o);
            }
            o.push(')');
        }
        ast::Pattern::PatternSpread(s) => match s.name().and_then(|n| n.text()) {
            Some(n) => {
                let _ = write!(o, "(pspread {n})");
            }
            // a discarded tail (`.._rest`) has no NAME node: its token sits in the spread itself
            None => match s.syntax().children_with_tokens().filter_map(|c| c.into_token()).find(|t| t.kind() == SyntaxKind::DISCARD_IDENT) {
                Some(t) => {
                    let _ = write!(o, "(pspread {})", t.text());
                }
                None => o.push_str("(pspread)"),
            },
        },
        ast::Pattern::AsPattern(a) => {
            o.push_str("(pas ");
            match a.pattern() {
                Some(x) => read_pattern(&x, o),
                None => o.push_str("(?)"),
            }
            let name = match a.as_name() {
                Some(ast::Pattern::PatternVariable(v)) => txt(v.name().and_then(|n| n.text())),
                _ => "?".into(),
            };
            let _ = write!(o, " {name})");
        }
        ast::Pattern::PatternConcat(c) => {
            let _ = write!(o, "(pconcat {} ", txt(c.string().and_then(|s| s.text())));
            match c.name() {
                Some(x) => read_pattern(&x, o),
                None => o.push_str("(?)"),
            }
            o.push(')');
        }
    }
}

fn read_params(pl: Option<ast::ParamList>, o: &mut String) {
    o.push('(');
    if let Some(pl) = pl {
        for (i, p) in pl.params().enumerate() {
            if i > 0 {
                o.push(' ');
            }
            o.push_str("(param ");
            if let Some(l) = p.label() {
                let _ = write!(o, "{}: ", txt(l.text()));
            }
            match p.pattern() {
                Some(ast::Pattern::PatternVariable(v)) => o.push_str(&txt(v.name().and_then(|n| n.text()))),
                Some(ast::Pattern::Hole(h)) => o.push_str(&txt(h.token().map(|t| t.text().to_string()))),
                _ => o.push('?'),
            }
            // Position-based: the annotation is the type expression after ':' (the
            // typed accessor `ty()` is checked separately, see `accessor_checks`).
            if let Some(t) = nodes_after_token(p.syntax(), SyntaxKind::COLON).into_iter().find_map(ast::TypeExpr::cast) {
                o.push(' ');
                read_type(&t, o);
            }
            o.push(')');
        }
    } else {
        o.push('?');
    }
    o.push(')');
}

pub fn read_block(b: &ast::Block, o: &mut String) {
    o.push_str("(block");
    for s in b.expressions() {
        o.push(' ');
        match s {
            ast::StatementExpr::StmtLet(l) => {
                o.push_str("(let ");
                // Position-based reading: pattern = first node, annotation = type after
                // ':', value = expression after '='.
                let nodes = child_nodes(l.syntax());
                match nodes.first().cloned().and_then(ast::Pattern::cast) {
                    Some(p) => read_pattern(&p, o),
                    None => o.push_str("(?)"),
                }
                if has_token(l.syntax(), SyntaxKind::COLON) {
                    if let Some(t) = nodes_after_token(l.syntax(), SyntaxKind::COLON).into_iter().find_map(ast::TypeExpr::cast) {
                        o.push(' ');
                        read_type(&t, o);
                    }
                }
                o.push(' ');
                match nodes_after_token(l.syntax(), SyntaxKind::EQ).into_iter().next() {
                    Some(n) => read_expr_node(&n, o),
                    None => o.push_str("(?)"),
                }
                o.push(')');
            }
            ast::StatementExpr::StmtUse(u) => {
                o.push_str("(use (");
                for (i, a) in u.assignments().enumerate() {
                    if i > 0 {
                        o.push(' ');
                    }
                    o.push_str("(a ");
                    match a.pattern() {
                        Some(p) => read_pattern(&p, o),
                        None => o.push_str("(?)"),
                    }
                    if let Some(t) = nodes_after_token(a.syntax(), SyntaxKind::COLON).into_iter().find_map(ast::TypeExpr::cast) {
                        o.push(' ');
                        read_type(&t, o);
                    }
                    o.push(')');
                }
                o.push_str(") ");
                match nodes_after_token(u.syntax(), SyntaxKind::L_ARROW).into_iter().next() {
                    Some(n) => read_expr_node(&n, o),
                    None => o.push_str("(?)"),
                }
                o.push(')');
            }
            ast::StatementExpr::StmtExpr(e) => {
                o.push_str("(e ");
                match child_nodes(e.syntax()).first() {
                    Some(n) => read_expr_node(n, o),
                    None => o.push_str("(?)"),
                }
                o.push(')');
            }
        }
    }
    o.push(')');
}

/// Reads an expression node, including kinds that `ast::Expr` does not model (MISSING
/// for todo/panic).
pub fn read_expr_node(n: &SyntaxNode, o: &mut String) {
    if n.kind() == SyntaxKind::MISSING {
        let kw = n
            .children_with_tokens()
            .filter_map(|c| c.into_token())
            .find(|t| !t.kind().is_trivia())
            .map(|t| t.text().to_string())
            .unwrap_or_else(|| "?".into());
        let _ = write!(o, "({kw}");
        if let Some(c) = n.children().next() {
            o.push(' ');
            read_expr_node(&c, o);
        }
        o.push(')');
        return;
    }
    match ast::Expr::cast(n.clone()) {
        Some(e) => read_expr(&e, o),
        None => {
            let _ = write!(o, "(?{:?})", n.kind());
        }
    }
}

fn op_token(n: &SyntaxNode) -> String {
    n.children_with_tokens()
        .filter_map(|c| c.into_token())
        .find(|t| !t.kind().is_trivia())
        .map(|t| t.text().to_string())
        .unwrap_or_else(|| "?".into())
}

pub fn read_expr(e: &ast::Expr, o: &mut String) {
    match e {
        ast::Expr::Literal(l) => {
            let _ = write!(o, "(lit {})", txt(l.text()));
        }
        ast::Expr::Variable(v) => {
            let _ = write!(o, "(var {})", txt(v.text()));
        }
        ast::Expr::VariantConstructor(c) => {
            let _ = write!(o, "(ctor {})", txt(c.name().and_then(|n| n.text())));
        }
        ast::Expr::Hole(h) => {
            let _ = write!(o, "(hole {})", txt(h.token().map(|t| t.text().to_string())));
        }
        ast::Expr::ExprCall(c) => {
            o.push_str("(call ");
            match c.func() {
                Some(f) => read_expr(&f, o),
                None => o.push_str("(?)"),
            }
            if let Some(al) = c.arguments() {
                for a in al.args() {
                    o.push_str(" (arg ");
                    if let Some(l) = a.label() {
                        let _ = write!(o, "{}: ", txt(l.text()));
                    }
                    // value = last node of the ARG
                    match child_nodes(a.syntax()).last() {
                        Some(n) if n.kind() != SyntaxKind::LABEL => read_expr_node(n, o),
                        _ => o.push_str("(?)"),
                    }
                    o.push(')');
                }
            } else {
                o.push_str(" ?");
            }
            o.push(')');
        }
        ast::Expr::FieldAccessExpr(f) => {
            o.push_str("(field ");
            match f.base() {
                Some(b) => read_expr(&b, o),
                None => o.push_str("(?)"),
            }
            let _ = write!(o, " {})", txt(f.label().and_then(|l| l.text())));
        }
        ast::Expr::TupleIndex(t) => {
            o.push_str("(tidx ");
            match child_nodes(t.syntax()).first() {
                Some(n) => read_expr_node(n, o),
                None => o.push_str("(?)"),
            }
            let idx = child_nodes(t.syntax()).last().cloned().and_then(ast::Literal::cast).and_then(|l| l.text());
            let _ = write!(o, " {})", txt(idx));
        }
        ast::Expr::Tuple(t) => {
            o.push_str("(tuple");
            for n in child_nodes(t.syntax()) {
                o.push(' ');
                read_expr_node(&n, o);
            }
            o.push(')');
        }
        ast::Expr::List(l) => {
            o.push_str("(list");
            for n in child_nodes(l.syntax()) {
                o.push(' ');
                read_expr_node(&n, o);
            }
            o.push(')');
        }
        ast::Expr::ExprSpread(s) => {
            o.push_str("(spread ");
            match child_nodes(s.syntax()).first() {
                Some(n) => read_expr_node(n, o),
                None => o.push_str("(?)"),
            }
            o.push(')');
        }
        ast::Expr::Block(b) => read_block(b, o),
        ast::Expr::Case(c) => {
            o.push_str("(case (");
            let mut first = true;
            for n in child_nodes(c.syntax()) {
                if n.kind() == SyntaxKind::CLAUSE {
                    continue;
                }
                if !first {
                    o.push(' ');
                }
                first = false;
                read_expr_node(&n, o);
            }
            o.push(')');
            for cl in c.clauses() {
                o.push_str(" (clause (");
                let slots: Vec<Vec<ast::Pattern>> = cl.patterns().map(|a| a.patterns().collect()).collect();
                let all_single = slots.iter().all(|s| s.len() == 1);
                if all_single {
                    // one alternative, one pattern per subject
                    o.push_str("(alt");
                    for s in &slots {
                        o.push(' ');
                        read_pattern(&s[0], o);
                    }
                    o.push(')');
                } else if slots.len() == 1 {
                    // one subject, several alternatives
                    for (i, p) in slots[0].iter().enumerate() {
                        if i > 0 {
                            o.push(' ');
                        }
                        o.push_str("(alt ");
                        read_pattern(p, o);
                        o.push(')');
                    }
                } else {
                    // The tree groups `a, b | c, d` as [a] [b|c] [d]: not expressible as
                    // alternatives of tuples; print what is there.
                    o.push_str("(slots");
                    for s in &slots {
                        o.push_str(" (slot");
                        for p in s {
                            o.push(' ');
                            read_pattern(p, o);
                        }
                        o.push(')');
                    }
                    o.push(')');
                }
                o.push(')');
                if let Some(g) = cl.syntax().children().find_map(ast::PatternGuard::cast) {
                    o.push_str(" (guard ");
                    match child_nodes(g.syntax()).first() {
                        Some(n) => read_expr_node(n, o),
                        None => o.push_str("(?)"),
                    }
                    o.push(')');
                }
                o.push(' ');
                match nodes_after_token(cl.syntax(), SyntaxKind::R_ARROW).into_iter().next() {
                    Some(n) => read_expr_node(&n, o),
                    None => o.push_str("(?)"),
                }
                o.push(')');
            }
            o.push(')');
        }
        ast::Expr::Lambda(l) => {
            o.push_str("(lambda ");
            read_params(l.param_list(), o);
            if let Some(r) = nodes_after_token(l.syntax(), SyntaxKind::R_ARROW).into_iter().find_map(ast::TypeExpr::cast) {
                o.push_str(" (ret ");
                read_type(&r, o);
                o.push(')');
            }
            o.push(' ');
            match l.body() {
                Some(b) => read_block(&b, o),
                None => o.push_str("(?)"),
            }
            o.push(')');
        }
        ast::Expr::Pipe(p) => {
            o.push_str("(pipe ");
            let ns = child_nodes(p.syntax());
            for (i, n) in ns.iter().enumerate() {
                if i > 0 {
                    o.push(' ');
                }
                read_expr_node(n, o);
            }
            o.push(')');
        }
        ast::Expr::BinaryOp(b) => {
            let _ = write!(o, "(bin {} ", op_token(b.syntax()));
            let ns = child_nodes(b.syntax());
            for (i, n) in ns.iter().enumerate() {
                if i > 0 {
                    o.push(' ');
                }
                read_expr_node(n, o);
            }
            o.push(')');
        }
        ast::Expr::UnaryOp(u) => {
            let _ = write!(o, "(un {} ", op_token(u.syntax()));
            match child_nodes(u.syntax()).first() {
                Some(n) => read_expr_node(n, o),
                None => o.push_str("(?)"),
            }
            o.push(')');
        }
        ast::Expr::BitArray(_) => o.push_str("(bits)"),
            // `todo` / `panic` (a MISSING node): an `ast::Expr` of its own since the repair that lowers
        // their messages, read at node level either way
        #[allow(unreachable_patterns)]
        _ => read_expr_node(e.syntax(), o),
    }
}

pub fn read_item(st: &ast::ModuleStatement, o: &mut String) {
    o.push_str("(item");
    // attributes
    for c in st.syntax().children() {
        match c.kind() {
            SyntaxKind::EXTERNAL_ATTR => {
                let toks: Vec<String> = c
                    .children_with_tokens()
                    .filter_map(|t| t.into_token())
                    .filter(|t| matches!(t.kind(), SyntaxKind::IDENT | SyntaxKind::STRING))
                    .map(|t| t.text().to_string())
                    .collect();
                let _ = write!(o, " (external {})", toks.join(" "));
            }
            SyntaxKind::TARGET_ATTR => {
                let toks: Vec<String> = c
                    .children_with_tokens()
                    .filter_map(|t| t.into_token())
                    .filter(|t| t.kind() == SyntaxKind::IDENT)
                    .map(|t| t.text().to_string())
                    .collect();
                // first IDENT is the attribute name `target`
                let _ = write!(o, " (target {})", toks.get(1).cloned().unwrap_or_else(|| "?".into()));
            }
            _ => {}
        }
    }
    o.push(' ');
    match st {
        ast::ModuleStatement::Import(im) => {
            let path: Vec<String> = im
                .module_path()
                .into_iter()
                .flat_map(|m| m.path())
                .map(|p| txt(p.token().map(|t| t.text().to_string())))
                .collect();
            let _ = write!(o, "(import {}", path.join("/"));
            for m in im.unqualified() {
                let _ = write!(o, " (m{} {}", if m.is_type() { " type" } else { "" }, txt(m.name().and_then(|n| n.text())));
                if let Some(a) = m.as_name() {
                    let _ = write!(o, " as {}", txt(a.text()));
                }
                o.push(')');
            }
            if let Some(a) = im.as_name() {
                let _ = write!(o, " as {}", txt(a.text()));
            }
            o.push(')');
        }
        ast::ModuleStatement::Adt(adt) => {
            let opaque = has_token(adt.syntax(), SyntaxKind::OPAQUE_KW);
            let _ = write!(
                o,
                "(adt{}{} {} (",
                if adt.is_public() { " pub" } else { "" },
                if opaque { " opaque" } else { "" },
                txt(adt.name().and_then(|n| n.text()))
            );
            if let Some(gp) = adt.generic_params() {
                let ps: Vec<String> = gp
                    .params()
                    .map(|p| match p {
                        ast::TypeExpr::TypeNameRef(r) => txt(r.constructor_name().and_then(|n| n.text())),
                        _ => "?".into(),
                    })
                    .collect();
                o.push_str(&ps.join(" "));
            }
            o.push(')');
            for v in adt.constructors() {
                let _ = write!(o, " (variant {}", txt(v.name().and_then(|n| n.text())));
                if let Some(fl) = v.field_list() {
                    for f in fl.fields() {
                        o.push_str(" (f ");
                        if let Some(l) = f.label() {
                            let _ = write!(o, "{}: ", txt(l.text()));
                        }
                        match f.type_() {
                            Some(t) => read_type(&t, o),
                            None => o.push_str("(?)"),
                        }
                        o.push(')');
                    }
                }
                o.push(')');
            }
            o.push(')');
        }
        ast::ModuleStatement::TypeAlias(al) => {
            let _ = write!(o, "(alias{} {} (", if al.is_public() { " pub" } else { "" }, txt(al.name().and_then(|n| n.text())));
            if let Some(gp) = al.generic_params() {
                let ps: Vec<String> = gp
                    .params()
                    .map(|p| match p {
                        ast::TypeExpr::TypeNameRef(r) => txt(r.constructor_name().and_then(|n| n.text())),
                        _ => "?".into(),
                    })
                    .collect();
                o.push_str(&ps.join(" "));
            }
            o.push_str(") ");
            match al.type_() {
                Some(t) => read_type(&t, o),
                None => o.push_str("(?)"),
            }
            o.push(')');
        }
        ast::ModuleStatement::ModuleConstant(c) => {
            let _ = write!(o, "(const{} {}", if c.is_public() { " pub" } else { "" }, txt(c.name().and_then(|n| n.text())));
            if has_token(c.syntax(), SyntaxKind::COLON) {
                if let Some(t) = nodes_after_token(c.syntax(), SyntaxKind::COLON).into_iter().find_map(ast::TypeExpr::cast) {
                    o.push(' ');
                    read_type(&t, o);
                }
            }
            o.push(' ');
            match nodes_after_token(c.syntax(), SyntaxKind::EQ).into_iter().next() {
                Some(n) => read_expr_node(&n, o),
                None => o.push_str("(?)"),
            }
            o.push(')');
        }
        ast::ModuleStatement::Function(f) => {
            let _ = write!(o, "(fn{} {} ", if f.is_public() { " pub" } else { "" }, txt(f.name().and_then(|n| n.text())));
            read_params(f.param_list(), o);
            if let Some(r) = f.return_type() {
                o.push_str(" (ret ");
                read_type(&r, o);
                o.push(')');
            }
            if let Some(b) = f.body() {
                o.push(' ');
                read_block(&b, o);
            }
            o.push(')');
        }
    }
    o.push(')');
}

pub fn read_module(root: &ast::SourceFile) -> String {
    let mut o = String::new();
    for st in root.statements() {
        read_item(&st, &mut o);
        o.push('\n');
    }
    o
}

/// Reference table for `BinaryOp::op_kind()`.
pub fn expected_op_kind(op: &str) -> Option<&'static str> {
    Some(match op {
        "+" => "IntAdd",
        "-" => "IntSub",
        "*" => "IntMul",
        "/" => "IntDiv",
        "%" => "IntMod",
        ">" => "IntGT",
        "<" => "IntLT",
        ">=" => "IntGTE",
        "<=" => "IntLTE",
        "+." => "FloatAdd",
        "-." => "FloatSub",
        "*." => "FloatMul",
        "/." => "FloatDiv",
        ">." => "FloatGT",
        "<." => "FloatLT",
        ">=." => "FloatGTE",
        "<=." => "FloatLTE",
        "==" => "Eq",
        "<>" => "Concat",
        _ => return None,
    })
}

/// Typed-accessor checks that the S-expression alone does not cover: operator kinds,
/// and accessors whose "first child of type X" lookup can pick a neighbour.
/// Returns (signature, detail) list.
pub fn accessor_checks(root: &SyntaxNode) -> Vec<(String, String)> {
    let mut out = Vec::new();
    for n in root.descendants() {
        if let Some(b) = ast::BinaryOp::cast(n.clone()) {
            let op = op_token(b.syntax());
            if let Some(want) = expected_op_kind(&op) {
                let got = b.op_kind().map(|k| format!("{k:?}")).unwrap_or_else(|| "None".into());
                if got != want {
                    out.push((format!("op-kind:{op}"), format!("op_kind() of `{op}` is {got}, expected {want}")));
                }
            }
            let ns = child_nodes(b.syntax());
            if ns.len() == 2 {
                if b.lhs().map(|x| x.syntax().clone()) != Some(ns[0].clone()) && ast::Expr::can_cast(ns[0].kind()) {
                    out.push(("accessor:BinaryOp.lhs".into(), format!("{}", b.syntax())));
                }
                if b.rhs().map(|x| x.syntax().clone()) != Some(ns[1].clone()) && ast::Expr::can_cast(ns[1].kind()) {
                    out.push(("accessor:BinaryOp.rhs".into(), format!("{}", b.syntax())));
                }
            }
        }
        if let Some(l) = ast::StmtLet::cast(n.clone()) {
            let want = nodes_after_token(l.syntax(), SyntaxKind::EQ).into_iter().next();
            if let Some(w) = want {
                if ast::Expr::can_cast(w.kind()) && l.body().map(|b| b.syntax().clone()) != Some(w.clone()) {
                    let pk = child_nodes(l.syntax()).first().map(|n| n.kind());
                    out.push((format!("accessor:StmtLet.body:pattern={pk:?}"), format!("`{}`: body() returns {:?}", l.syntax(), l.body().map(|b| b.syntax().to_string()))));
                }
            }
        }
        if let Some(p) = ast::Param::cast(n.clone()) {
            let want = nodes_after_token(p.syntax(), SyntaxKind::COLON).into_iter().find_map(ast::TypeExpr::cast);
            let got = p.ty();
            if want.as_ref().map(|t| t.syntax().clone()) != got.as_ref().map(|t| t.syntax().clone()) {
                let pk = p.pattern().map(|x| x.syntax().kind());
                out.push((format!("accessor:Param.ty:pattern={pk:?}"), format!("`{}`: ty() returns {:?}", p.syntax(), got.map(|t| t.syntax().to_string()))));
            }
        }
    }
    out
}
