//! Shared helpers for the semantic monitors: identifier census (goto at every identifier
//! token), navigation-target normal form, applying rename edits.

use crate::ws::{Loaded, TokenTable};
use ide::{Analysis, FileId, FilePos, GotoDefinitionResult};
use std::collections::BTreeMap;
use syntax::{SyntaxKind, TextSize};

#[derive(Clone, Debug, PartialEq, Eq, PartialOrd, Ord, Hash)]
pub struct Target {
    pub file: u32,
    pub focus: (usize, usize),
    pub full: (usize, usize),
}

#[derive(Clone, Debug, PartialEq, Eq)]
pub enum Goto {
    None,
    One(Target),
    Many(Vec<Target>),
    Path(String),
    Panicked(String),
}

pub fn goto_at(an: &Analysis, file: FileId, pos: usize) -> Goto {
    let out = crate::panicmon::guard(|| an.goto_definition(FilePos::new(file, TextSize::from(pos as u32))));
    match out {
        crate::panicmon::Outcome::Panicked(i) => Goto::Panicked(i.signature()),
        crate::panicmon::Outcome::Ok(Err(_)) => Goto::Panicked("cancelled".into()),
        crate::panicmon::Outcome::Ok(Ok(None)) => Goto::None,
        crate::panicmon::Outcome::Ok(Ok(Some(GotoDefinitionResult::Path(p)))) => Goto::Path(p.display().to_string()),
        crate::panicmon::Outcome::Ok(Ok(Some(GotoDefinitionResult::Targets(ts)))) => {
            let mut v: Vec<Target> = ts
                .iter()
                .map(|t| Target {
                    file: t.file_id.0,
                    focus: (t.focus_range.start().into(), t.focus_range.end().into()),
                    full: (t.full_range.start().into(), t.full_range.end().into()),
                })
                .collect();
            if v.len() == 1 {
                Goto::One(v.pop().unwrap())
            } else {
                Goto::Many(v)
            }
        }
    }
}

#[derive(Clone, Debug)]
pub struct IdTok {
    pub file: FileId,
    pub a: usize,
    pub b: usize,
    pub text: String,
    pub goto: Goto,
}

/// goto_definition at every identifier token (IDENT, U_IDENT, DISCARD_IDENT excluded)
/// of every .gleam file.
pub fn census(loaded: &Loaded, an: &Analysis, tables: &BTreeMap<u32, TokenTable>) -> Vec<IdTok> {
    let mut out = Vec::new();
    for f in loaded.gleam_files() {
        let text = loaded.text(f);
        let tt = &tables[&f.0];
        for &(a, b, k) in &tt.tokens {
            if k == SyntaxKind::IDENT || k == SyntaxKind::U_IDENT {
                let g = goto_at(an, f, a);
                out.push(IdTok { file: f, a, b, text: text[a..b].to_string(), goto: g });
            }
        }
    }
    out
}

pub fn tables_of(loaded: &Loaded) -> BTreeMap<u32, TokenTable> {
    loaded.files.iter().map(|f| (f.0 .0, crate::ws::token_table(&f.2))).collect()
}

/// Apply a set of (a, b, insert) edits to a text. Returns None if edits overlap or are
/// out of bounds. Also returns the position map as sorted (old_start, old_end, new_len).
pub fn apply_edits(text: &str, edits: &[(usize, usize, String)]) -> Option<String> {
    let mut es: Vec<&(usize, usize, String)> = edits.iter().collect();
    es.sort_by_key(|e| (e.0, e.1));
    let mut out = String::with_capacity(text.len() + 32);
    let mut pos = 0usize;
    for e in es {
        if e.0 < pos || e.1 < e.0 || e.1 > text.len() || !text.is_char_boundary(e.0) || !text.is_char_boundary(e.1) {
            return None;
        }
        out.push_str(&text[pos..e.0]);
        out.push_str(&e.2);
        pos = e.1;
    }
    out.push_str(&text[pos..]);
    Some(out)
}

/// Map an offset of the old text to the new text under whole-token replacement edits.
/// Offsets inside a replaced token map proportionally to its start (start->start, end->end).
pub fn map_offset(edits_sorted: &[(usize, usize, String)], off: usize) -> usize {
    let mut delta: isize = 0;
    for (a, b, ins) in edits_sorted {
        if off <= *a {
            break;
        }
        if off >= *b {
            delta += ins.len() as isize - (*b as isize - *a as isize);
        } else {
            // strictly inside the replaced token: clamp to its start
            return (*a as isize + delta) as usize;
        }
    }
    (off as isize + delta) as usize
}
