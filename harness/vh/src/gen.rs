//! Scope-aware program generator. It threads a binding environment exactly as Gleam
//! scopes do and records, for every identifier it emits, the declaration it is bound to
//! *by construction* — so the oracles never need glas (or a second parser) to know the
//! ground truth. Names come from tiny pools, so shadowing is the norm.

use crate::prog::*;
use crate::rng::Rng;
use std::collections::{BTreeMap, HashMap};

#[derive(Clone, Debug)]
pub struct GenCfg {
    pub modules: usize,
    pub max_items: usize,
    pub max_depth: usize,
    /// Emit completion holes (placeholder identifiers with a recorded scope set).
    pub holes: bool,
    /// Constructs outside glas's supported core (guards, unary operands, `todo as`,
    /// non-first alternatives, bit arrays, multi-subject alternatives).
    pub non_core: bool,
    pub trivia: Trivia,
    pub non_ascii: bool,
}

impl Default for GenCfg {
    fn default() -> Self {
        GenCfg { modules: 2, max_items: 7, max_depth: 3, holes: false, non_core: true, trivia: Trivia::Wild, non_ascii: true }
    }
}

#[derive(Clone, Debug)]
pub struct HoleInfo {
    pub module: usize,
    pub name: String,
    /// value names visible at the hole → declaration (None for built-ins is not listed)
    pub visible: BTreeMap<String, DeclId>,
    /// module accessors visible at the hole → module index
    pub accessors: BTreeMap<String, usize>,
    /// filled after printing
    pub range: (usize, usize),
}

#[derive(Clone, Debug)]
pub struct FieldFacts {
    pub adt: DeclId,
    pub variant: DeclId,
    /// canonical declaration glas reports for this label (first variant's field if the
    /// label is common to all variants with one type, else itself)
    pub canonical: DeclId,
}

#[derive(Clone, Debug, Default)]
pub struct Workspace {
    pub modules: Vec<Module>,
    pub decls: Vec<DeclInfo>,
    pub printed: Vec<Printed>,
    pub holes: Vec<HoleInfo>,
    pub field_facts: HashMap<DeclId, FieldFacts>,
    /// (module, import index) pairs: module i imports module j
    pub import_edges: Vec<(usize, usize)>,
    /// Some(k): modules 0..k live in local package `lib` (/ws/lib), the others in local
    /// package `app` (/ws/app) which depends on `lib`. Imports only point to lower-numbered
    /// modules, so every import stays legal.
    pub split: Option<usize>,
}

impl Workspace {
    pub fn path_of(&self, m: usize) -> String {
        match self.split {
            Some(k) if m < k => format!("/ws/lib/src/{}.gleam", self.modules[m].name),
            Some(_) => format!("/ws/app/src/{}.gleam", self.modules[m].name),
            None => format!("/ws/pkg/src/{}.gleam", self.modules[m].name),
        }
    }
    pub fn files(&self) -> Vec<(String, String)> {
        let mut v: Vec<(String, String)> =
            (0..self.modules.len()).map(|i| (self.path_of(i), self.printed[i].text.clone())).collect();
        if self.split.is_some() {
            v.push(("/ws/lib/gleam.toml".into(), "name = \"lib\"\n".into()));
            v.push(("/ws/app/gleam.toml".into(), "name = \"app\"\n\n[dependencies]\nlib = { path = \"../lib\" }\n".into()));
        } else {
            v.push(("/ws/pkg/gleam.toml".into(), "name = \"pkg\"\n".into()));
        }
        v
    }
    /// Put the first k modules into a second local package (1 <= k < modules).
    pub fn split_packages(&mut self, r: &mut Rng) {
        if self.modules.len() >= 2 {
            self.split = Some(r.range(1, self.modules.len() - 1));
        }
    }
    /// Canonical declaration for goto purposes.
    pub fn canonical(&self, d: DeclId) -> DeclId {
        self.field_facts.get(&d).map(|f| f.canonical).unwrap_or(d)
    }
}

const VALUE_NAMES: &[&str] = &["a", "b", "c", "f", "g", "x", "y"];
const TYPE_NAMES: &[&str] = &["T", "U", "V", "Box"];
const CTOR_NAMES: &[&str] = &["A", "B", "C", "Mk", "T", "U"];
const LABELS: &[&str] = &["name", "size", "to", "with"];
// the most imported module (index 0) has the deepest path: its accessor is the LAST segment
const MODULE_NAMES: &[&str] = &["dir/sub/m0", "m1", "dir/m2", "m3"];
const ALIASES: &[&str] = &["q0", "q1", "q2"];
const TYVARS: &[&str] = &["a", "b", "t"];
pub const HOLE_NAME: &str = "zzhole";

#[derive(Clone, Debug)]
struct FnSig {
    decl: DeclId,
    name: String,
    public: bool,
    params: Vec<(Option<String>, String)>,
}

#[derive(Clone, Debug)]
struct FieldSig {
    label: Option<String>,
    decl: DeclId,
    ty: TySig,
}

#[derive(Clone, Debug)]
struct VariantSig {
    decl: DeclId,
    name: String,
    fields: Vec<FieldSig>,
}

#[derive(Clone, Debug)]
struct AdtSig {
    decl: DeclId,
    name: String,
    public: bool,
    opaque: bool,
    params: Vec<String>,
    variants: Vec<VariantSig>,
}

/// Tiny type signature language for fields (so common fields can be decided).
#[derive(Clone, Debug, PartialEq, Eq)]
enum TySig {
    Int,
    Str,
    Float,
    Var(String),
    ListInt,
}

#[derive(Clone, Debug)]
struct AliasSig {
    decl: DeclId,
    name: String,
    public: bool,
}

#[derive(Clone, Debug)]
struct ConstSig {
    decl: DeclId,
    name: String,
    public: bool,
}

#[derive(Clone, Debug, Default)]
struct ModSig {
    name: String,
    accessor: String,
    fns: Vec<FnSig>,
    consts: Vec<ConstSig>,
    adts: Vec<AdtSig>,
    aliases: Vec<AliasSig>,
    /// value namespace visible in this module: local name -> decl (own + unqualified imports)
    values: BTreeMap<String, DeclId>,
    types: BTreeMap<String, DeclId>,
    /// accessor (alias or last path segment) -> module index
    accessors: BTreeMap<String, usize>,
    imports: Vec<Import>,
}

#[derive(Clone, Debug)]
struct Local {
    name: String,
    decl: DeclId,
    /// ADT (decl id) this local is known to have as its type, if evident
    adt: Option<DeclId>,
}

struct Ctx<'a> {
    r: &'a mut Rng,
    cfg: &'a GenCfg,
    sigs: &'a [ModSig],
    decls: &'a mut Vec<DeclInfo>,
    holes: &'a mut Vec<HoleInfo>,
    module: usize,
    scopes: Vec<Vec<Local>>,
    hole_budget: usize,
    /// long function bodies still allowed in this workspace
    long_budget: usize,
}

fn new_decl(decls: &mut Vec<DeclInfo>, kind: SymKind, name: &str, module: usize, public: bool, owner: Option<DeclId>) -> DeclId {
    decls.push(DeclInfo { kind, name: name.to_string(), module, public, focus: (0, 0), name_range: (0, 0), owner });
    decls.len() - 1
}

impl<'a> Ctx<'a> {
    fn sig(&self) -> &ModSig {
        &self.sigs[self.module]
    }

    fn lookup_local(&self, name: &str) -> Option<&Local> {
        for sc in self.scopes.iter().rev() {
            for l in sc.iter().rev() {
                if l.name == name {
                    return Some(l);
                }
            }
        }
        None
    }

    fn lookup_value(&self, name: &str) -> Option<DeclId> {
        if let Some(l) = self.lookup_local(name) {
            return Some(l.decl);
        }
        self.sig().values.get(name).copied()
    }

    fn visible_lower(&self) -> Vec<String> {
        let mut v: Vec<String> = Vec::new();
        for sc in &self.scopes {
            for l in sc {
                if !v.contains(&l.name) {
                    v.push(l.name.clone());
                }
            }
        }
        for k in self.sig().values.keys() {
            if k.chars().next().map(|c| c.is_ascii_lowercase()).unwrap_or(false) && !v.contains(k) {
                v.push(k.clone());
            }
        }
        v
    }

    fn visible_scope_set(&self) -> BTreeMap<String, DeclId> {
        let mut m = BTreeMap::new();
        for (k, d) in &self.sig().values {
            m.insert(k.clone(), *d);
        }
        for sc in &self.scopes {
            for l in sc {
                m.insert(l.name.clone(), l.decl);
            }
        }
        m
    }

    fn bind_local(&mut self, kind: SymKind, name: &str, adt: Option<DeclId>) -> Ident {
        let d = new_decl(self.decls, kind, name, self.module, false, None);
        self.scopes.last_mut().unwrap().push(Local { name: name.to_string(), decl: d, adt });
        Ident::decl(name, d)
    }

    /// A local spelled like this module accessor is in scope: `acc.x` in expression position
    /// would be a field access on the local, so qualified value references must not use it.
    fn accessor_shadowed(&self, acc: &str) -> bool {
        self.scopes.iter().any(|sc| sc.iter().any(|l| l.name == acc))
    }

    fn fresh_name(&mut self, taken: &[String]) -> Option<String> {
        // one local in ten is spelled like a module accessor of this module (`import user`,
        // then `fn f(user) { user.name }`): the local shadows the module from there on
        if self.r.chance(1, 10) {
            let accs: Vec<String> = self.sig().accessors.keys().filter(|a| !taken.iter().any(|t| t == *a)).cloned().collect();
            if !accs.is_empty() {
                return Some(accs[self.r.below(accs.len())].clone());
            }
        }
        let mut pool: Vec<&str> = VALUE_NAMES.iter().copied().filter(|n| !taken.iter().any(|t| t == n)).collect();
        if pool.is_empty() {
            return None;
        }
        let i = self.r.below(pool.len());
        Some(pool.swap_remove(i).to_string())
    }

    // ---------------- types ----------------
    fn find_adt(&self, d: DeclId) -> Option<&AdtSig> {
        self.sigs.iter().flat_map(|m| m.adts.iter()).find(|a| a.decl == d)
    }

    fn gen_type(&mut self, depth: usize, tyvars: bool) -> TypeExpr {
        let k = self.r.below(if depth == 0 { 6 } else { 10 });
        match k {
            0 | 1 => TypeExpr::Named { module: None, name: Ident::use_(*self.r.pick(&["Int", "String", "Float", "Bool", "Nil"]), None, true, "type-builtin"), args: vec![] },
            2 | 3 => {
                // a visible type name (own, alias, or unqualified type import)
                let names: Vec<(String, DeclId)> = self.sig().types.iter().map(|(k, v)| (k.clone(), *v)).collect();
                if names.is_empty() {
                    return TypeExpr::Named { module: None, name: Ident::use_("Int", None, true, "type-builtin"), args: vec![] };
                }
                let (n, d) = names[self.r.below(names.len())].clone();
                let nparams = self.find_adt(d).map(|a| a.params.len()).unwrap_or(0);
                let args = (0..nparams).map(|_| self.gen_type(0, tyvars)).collect();
                TypeExpr::Named { module: None, name: Ident::use_(n, Some(d), true, "type-name"), args }
            }
            4 => {
                // qualified type m.T
                let accs: Vec<(String, usize)> = self.sig().accessors.iter().map(|(k, v)| (k.clone(), *v)).collect();
                for (acc, mi) in accs {
                    let cands: Vec<(String, DeclId, usize)> = self.sigs[mi]
                        .adts
                        .iter()
                        .filter(|a| a.public)
                        .map(|a| (a.name.clone(), a.decl, a.params.len()))
                        .chain(self.sigs[mi].aliases.iter().filter(|a| a.public).map(|a| (a.name.clone(), a.decl, 0)))
                        .collect();
                    if !cands.is_empty() {
                        let (n, d, np) = cands[self.r.below(cands.len())].clone();
                        let args = (0..np).map(|_| self.gen_type(0, tyvars)).collect();
                        return TypeExpr::Named {
                            module: Some(Ident { text: acc, bind: Bind::Module { module: mi, core: false }, site: "type-qualifier" }),
                            name: Ident::use_(n, Some(d), true, "type-qualified"),
                            args,
                        };
                    }
                }
                TypeExpr::Named { module: None, name: Ident::use_("Int", None, true, "type-builtin"), args: vec![] }
            }
            5 => {
                if tyvars {
                    TypeExpr::Var(self.r.pick(TYVARS).to_string())
                } else {
                    TypeExpr::Named { module: None, name: Ident::use_("String", None, true, "type-builtin"), args: vec![] }
                }
            }
            6 => TypeExpr::Named { module: None, name: Ident::use_("List", None, true, "type-builtin"), args: vec![self.gen_type(depth - 1, tyvars)] },
            7 => TypeExpr::Tuple((0..self.r.range(1, 3)).map(|_| self.gen_type(depth - 1, tyvars)).collect()),
            8 => {
                let n = self.r.below(3);
                TypeExpr::Fn((0..n).map(|_| self.gen_type(depth - 1, tyvars)).collect(), Box::new(self.gen_type(depth - 1, tyvars)))
            }
            _ => TypeExpr::Named {
                module: None,
                name: Ident::use_("Result", None, true, "type-builtin"),
                args: vec![self.gen_type(depth - 1, tyvars), self.gen_type(depth - 1, tyvars)],
            },
        }
    }

    /// A type annotation naming a visible ADT (so the annotated binder's type is evident).
    fn adt_annotation(&mut self) -> Option<(TypeExpr, DeclId)> {
        let own: Vec<(String, DeclId)> = self
            .sig()
            .types
            .iter()
            .filter(|(_, d)| self.decls[**d].kind == SymKind::Adt)
            .map(|(k, v)| (k.clone(), *v))
            .collect();
        if own.is_empty() {
            return None;
        }
        let (n, d) = own[self.r.below(own.len())].clone();
        let np = self.find_adt(d).map(|a| a.params.len()).unwrap_or(0);
        let args = (0..np).map(|_| TypeExpr::Named { module: None, name: Ident::use_("Int", None, true, "type-builtin"), args: vec![] }).collect();
        Some((TypeExpr::Named { module: None, name: Ident::use_(n, Some(d), true, "type-name"), args }, d))
    }

    // ---------------- patterns ----------------
    /// Visible constructors: (spelling here, qualifier, variant sig, adt decl)
    fn visible_ctors(&self) -> Vec<(String, Option<(String, usize)>, VariantSig, DeclId)> {
        self.visible_ctors_in(false)
    }

    /// In a PATTERN the qualifier of `acc.Ctor(..)` names a module whatever locals of that
    /// spelling are in scope (patterns have no field accesses), so shadowed accessors stay
    /// usable there.
    fn visible_ctors_in(&self, pattern: bool) -> Vec<(String, Option<(String, usize)>, VariantSig, DeclId)> {
        let mut out = Vec::new();
        for (name, d) in &self.sig().values {
            if self.decls[*d].kind == SymKind::Variant {
                if let Some((adt, v)) = self.sigs.iter().flat_map(|m| m.adts.iter()).find_map(|a| a.variants.iter().find(|v| v.decl == *d).map(|v| (a.decl, v.clone()))) {
                    out.push((name.clone(), None, v, adt));
                }
            }
        }
        for (acc, mi) in &self.sig().accessors {
            if !pattern && self.accessor_shadowed(acc) {
                continue;
            }
            for a in self.sigs[*mi].adts.iter().filter(|a| a.public && !a.opaque) {
                for v in &a.variants {
                    out.push((v.name.clone(), Some((acc.clone(), *mi)), v.clone(), a.decl));
                }
            }
        }
        out
    }

    fn canonical_field(&self, adt: DeclId, variant: &VariantSig, label: &str) -> Option<DeclId> {
        let a = self.find_adt(adt)?;
        let own = variant.fields.iter().find(|f| f.label.as_deref() == Some(label))?;
        // common to all variants with the same type?
        let common = a.variants.iter().all(|v| v.fields.iter().any(|f| f.label.as_deref() == Some(label) && f.ty == own.ty));
        if common {
            a.variants[0].fields.iter().find(|f| f.label.as_deref() == Some(label)).map(|f| f.decl)
        } else {
            Some(own.decl)
        }
    }

    fn gen_pattern(&mut self, depth: usize, kind: SymKind, taken: &mut Vec<String>, binds: &mut Vec<Local>) -> Pattern {
        let k = self.r.below(if depth == 0 { 5 } else { 11 });
        match k {
            0 | 1 | 2 => match self.fresh_name(taken) {
                Some(n) => {
                    taken.push(n.clone());
                    let d = new_decl(self.decls, kind, &n, self.module, false, None);
                    binds.push(Local { name: n.clone(), decl: d, adt: None });
                    Pattern::Var(Ident::decl(n, d))
                }
                None => Pattern::Discard("_".into()),
            },
            3 => Pattern::Discard(if self.r.chance(1, 2) { "_".into() } else { "_ignored".into() }),
            4 => match self.r.below(3) {
                0 => Pattern::Int("1".into()),
                1 => Pattern::Str("s".into()),
                _ => Pattern::Float("1.5".into()),
            },
            5 | 6 => {
                // constructor pattern
                let ctors = self.visible_ctors_in(true);
                if ctors.is_empty() {
                    return Pattern::Discard("_".into());
                }
                let (name, qual, v, adt) = ctors[self.r.below(ctors.len())].clone();
                let mut args = Vec::new();
                let use_spread = !v.fields.is_empty() && self.r.chance(1, 4);
                let nfields = if use_spread { self.r.below(v.fields.len() + 1) } else { v.fields.len() };
                for f in v.fields.iter().take(nfields) {
                    let label = match (&f.label, self.r.chance(2, 3)) {
                        (Some(l), true) => {
                            let tgt = self.canonical_field(adt, &v, l);
                            Some(Ident::use_(l.clone(), tgt, true, "pattern-label"))
                        }
                        _ => None,
                    };
                    args.push((label, self.gen_pattern(depth.saturating_sub(1), kind, taken, binds)));
                }
                let has_parens = !v.fields.is_empty();
                let shadowed = qual.as_ref().map(|(acc, _)| self.accessor_shadowed(acc)).unwrap_or(false);
                let module = qual.map(|(acc, mi)| Ident { text: acc, bind: Bind::Module { module: mi, core: false }, site: if shadowed { "pattern-qualifier-spelled-like-a-local" } else { "pattern-qualifier" } });
                let site = if module.is_some() { "pattern-ctor-qualified" } else { "pattern-ctor" };
                Pattern::Ctor { module, name: Ident::use_(name, Some(v.decl), true, site), args, spread: use_spread, has_parens }
            }
            7 => Pattern::Tuple((0..self.r.range(1, 3)).map(|_| self.gen_pattern(depth - 1, kind, taken, binds)).collect()),
            8 => {
                let n = self.r.below(3);
                let elems: Vec<Pattern> = (0..n).map(|_| self.gen_pattern(depth - 1, kind, taken, binds)).collect();
                let tail = match self.r.below(4) {
                    0 => None,
                    1 => Some(None),
                    // a tail that is named and thrown away: `.._` / `.._rest`
                    2 => Some(Some(Ident { text: (*self.r.pick(&["_", "_rest"])).to_string(), bind: Bind::Plain, site: "discarded-tail" })),
                    _ => match self.fresh_name(taken) {
                        Some(nm) => {
                            taken.push(nm.clone());
                            let d = new_decl(self.decls, SymKind::SpreadVar, &nm, self.module, false, None);
                            binds.push(Local { name: nm.clone(), decl: d, adt: None });
                            Some(Some(Ident::decl(nm, d)))
                        }
                        None => Some(None),
                    },
                };
                Pattern::List(elems, tail)
            }
            9 => {
                let inner = self.gen_pattern(depth - 1, kind, taken, binds);
                // `x as y` with x a plain variable is legal but pointless; allow everything
                if matches!(inner, Pattern::Var(_) | Pattern::As(..)) {
                    // `x as y` on a bare variable is pointless and glas does not parse it;
                    // `p as a as b` is not Gleam
                    return inner;
                }
                match self.fresh_name(taken) {
                    Some(nm) => {
                        taken.push(nm.clone());
                        let d = new_decl(self.decls, SymKind::AsVar, &nm, self.module, false, None);
                        binds.push(Local { name: nm.clone(), decl: d, adt: None });
                        Pattern::As(Box::new(inner), Ident::decl(nm, d))
                    }
                    None => inner,
                }
            }
            _ => {
                let rest = match self.fresh_name(taken) {
                    Some(nm) if self.r.chance(3, 4) => {
                        taken.push(nm.clone());
                        let d = new_decl(self.decls, SymKind::PrefixVar, &nm, self.module, false, None);
                        binds.push(Local { name: nm.clone(), decl: d, adt: None });
                        Pattern::Var(Ident::decl(nm, d))
                    }
                    _ => Pattern::Discard("_".into()),
                };
                Pattern::StrPrefix("pre".into(), Box::new(rest))
            }
        }
    }

    // ---------------- expressions ----------------
    fn var_use(&mut self, site: &'static str) -> Expr {
        let vis = self.visible_lower();
        if vis.is_empty() {
            return Expr::Int("0".into());
        }
        let n = vis[self.r.below(vis.len())].clone();
        let t = self.lookup_value(&n);
        Expr::Var(Ident::use_(n, t, true, site))
    }

    fn ctor_args(&mut self, depth: usize, adt: DeclId, v: &VariantSig) -> Vec<Arg> {
        let mut args: Vec<Arg> = Vec::new();
        let all_labelled = v.fields.iter().all(|f| f.label.is_some());
        for f in &v.fields {
            let label = match (&f.label, all_labelled && self.r.chance(2, 3)) {
                (Some(l), true) => {
                    let tgt = self.canonical_field(adt, v, l);
                    Some(Ident::use_(l.clone(), tgt, true, "ctor-label"))
                }
                _ => None,
            };
            args.push(Arg { label, value: self.gen_expr(depth.saturating_sub(1), "arg") });
        }
        // Gleam: positional arguments first, then labelled ones in any order.
        if all_labelled && args.iter().all(|a| a.label.is_some()) && self.r.chance(1, 2) {
            self.r.shuffle(&mut args);
        } else {
            // keep positional prefix, labelled suffix
            let mut seen_label = false;
            for a in args.iter_mut() {
                if a.label.is_some() {
                    seen_label = true;
                } else if seen_label {
                    // a positional after a labelled one is illegal: label it too if possible
                    seen_label = true;
                }
            }
            if args.windows(2).any(|w| w[0].label.is_some() && w[1].label.is_none()) {
                for a in args.iter_mut() {
                    a.label = None;
                }
            }
        }
        args
    }

    fn maybe_hole(&mut self) -> Option<Expr> {
        if self.cfg.holes && self.hole_budget > 0 && self.r.chance(1, 6) {
            self.hole_budget -= 1;
            let name = format!("{HOLE_NAME}{}", self.holes.len());
            self.holes.push(HoleInfo {
                module: self.module,
                name: name.clone(),
                visible: self.visible_scope_set(),
                accessors: self.sig().accessors.clone(),
                range: (0, 0),
            });
            return Some(Expr::Var(Ident { text: name, bind: Bind::Use { target: None, core: false }, site: "hole" }));
        }
        None
    }

    fn gen_expr(&mut self, depth: usize, site: &'static str) -> Expr {
        if let Some(h) = self.maybe_hole() {
            return h;
        }
        let k = self.r.below(if depth == 0 { 8 } else { 30 });
        match k {
            0 => Expr::Int(self.r.pick(&["0", "1", "42", "1_000", "0xFF", "0XaB_c", "0b101", "0o17"]).to_string()),
            1 => Expr::Str(if self.cfg.non_ascii && self.r.chance(1, 2) { "héllo 💣 wörld".into() } else { "s".into() }),
            2 => Expr::Float("1.5".into()),
            3 | 4 | 5 => self.var_use(site),
            6 => {
                // built-in constructors: not navigable
                let n = *self.r.pick(&["True", "False", "Nil"]);
                if self.sig().values.contains_key(n) {
                    return self.var_use(site);
                }
                Expr::Ctor(Ident::use_(n, None, true, "builtin-ctor"))
            }
            7 => {
                // constructor, saturated
                let ctors = self.visible_ctors();
                if ctors.is_empty() {
                    return self.var_use(site);
                }
                let (name, qual, v, adt) = ctors[self.r.below(ctors.len())].clone();
                let head = match qual {
                    None => Expr::Ctor(Ident::use_(name, Some(v.decl), true, "ctor")),
                    Some((acc, mi)) => Expr::Field(
                        Box::new(Expr::Var(Ident { text: acc, bind: Bind::Module { module: mi, core: true }, site: "qualifier" })),
                        Ident::use_(name, Some(v.decl), true, "qualified-ctor"),
                    ),
                };
                if v.fields.is_empty() {
                    head
                } else {
                    let args = self.ctor_args(depth, adt, &v);
                    Expr::Call(Box::new(head), args)
                }
            }
            8 | 9 | 10 => {
                // call of a visible function (or any visible lowercase name)
                let fns: Vec<FnSig> = self.sig().fns.clone();
                let use_sig = !fns.is_empty() && self.r.chance(2, 3);
                if use_sig {
                    let f = fns[self.r.below(fns.len())].clone();
                    // the spelling may be shadowed by a local: binding decided by lookup
                    let tgt = self.lookup_value(&f.name);
                    let head = Expr::Var(Ident::use_(f.name.clone(), tgt, true, "call-head"));
                    let mut args = Vec::new();
                    for (label, _) in &f.params {
                        let l = match (label, self.r.chance(1, 2)) {
                            (Some(l), true) if tgt == Some(f.decl) => Some(Ident { text: l.clone(), bind: Bind::Plain, site: "fn-label" }),
                            _ => None,
                        };
                        let value = if self.r.chance(1, 10) { Expr::Hole("_".into()) } else { self.gen_expr(depth.saturating_sub(1), "arg") };
                        args.push(Arg { label: l, value });
                    }
                    if args.windows(2).any(|w| w[0].label.is_some() && w[1].label.is_none()) {
                        for a in args.iter_mut() {
                            a.label = None;
                        }
                    }
                    // at most one capture hole
                    let mut seen = false;
                    for a in args.iter_mut() {
                        if matches!(a.value, Expr::Hole(_)) {
                            if seen {
                                a.value = Expr::Int("1".into());
                            }
                            seen = true;
                        }
                    }
                    Expr::Call(Box::new(head), args)
                } else {
                    let head = self.var_use("call-head");
                    let n = self.r.below(3);
                    let args = (0..n).map(|_| Arg { label: None, value: self.gen_expr(depth.saturating_sub(1), "arg") }).collect();
                    Expr::Call(Box::new(head), args)
                }
            }
            11 | 12 => {
                // qualified value m.f / m.c, maybe called
                let accs: Vec<(String, usize)> = self.sig().accessors.iter().filter(|(k, _)| !self.accessor_shadowed(k)).map(|(k, v)| (k.clone(), *v)).collect();
                if accs.is_empty() {
                    return self.var_use(site);
                }
                let (acc, mi) = accs[self.r.below(accs.len())].clone();
                let mut cands: Vec<(String, DeclId, usize, &'static str)> = Vec::new();
                for f in self.sigs[mi].fns.iter().filter(|f| f.public) {
                    cands.push((f.name.clone(), f.decl, f.params.len(), "qualified-fn"));
                }
                for c in self.sigs[mi].consts.iter().filter(|c| c.public) {
                    cands.push((c.name.clone(), c.decl, usize::MAX, "qualified-const"));
                }
                if cands.is_empty() {
                    return self.var_use(site);
                }
                let (n, d, arity, st) = cands[self.r.below(cands.len())].clone();
                // glas resolves qualified constants nowhere in inference (no FieldResolution for
                // constants): soundness only for those.
                // (qualified constants resolve since the repair recorded in DESIGN.md section 12.1)
                let core = st == "qualified-fn" || st == "qualified-const";
                let head = Expr::Field(
                    Box::new(Expr::Var(Ident { text: acc, bind: Bind::Module { module: mi, core }, site: "qualifier" })),
                    Ident::use_(n, Some(d), core, st),
                );
                if arity != usize::MAX && self.r.chance(3, 4) {
                    // labelled arguments at qualified call sites too (`m.f(size: 1, to: x)`): the label names a
                    // parameter declared in ANOTHER file
                    let params: Vec<Option<String>> = self.sigs[mi].fns.iter().find(|f| f.decl == d).map(|f| f.params.iter().map(|p| p.0.clone()).collect()).unwrap_or_default();
                    let mut args: Vec<Arg> = Vec::new();
                    for k in 0..arity {
                        let l = match (params.get(k).cloned().flatten(), self.r.chance(1, 2)) {
                            (Some(l), true) => Some(Ident { text: l, bind: Bind::Plain, site: "fn-label" }),
                            _ => None,
                        };
                        args.push(Arg { label: l, value: self.gen_expr(depth.saturating_sub(1), "arg") });
                    }
                    if args.windows(2).any(|w| w[0].label.is_some() && w[1].label.is_none()) {
                        for a in args.iter_mut() {
                            a.label = None;
                        }
                    }
                    Expr::Call(Box::new(head), args)
                } else {
                    head
                }
            }
            13 => {
                // field access on a local of evident ADT type
                let mut cands: Vec<(String, DeclId, DeclId)> = Vec::new();
                for sc in &self.scopes {
                    for l in sc {
                        if let Some(a) = l.adt {
                            cands.push((l.name.clone(), l.decl, a));
                        }
                    }
                }
                cands.retain(|(n, d, _)| self.lookup_local(n).map(|l| l.decl) == Some(*d));
                if cands.is_empty() {
                    return self.var_use(site);
                }
                let (n, d, adt) = cands[self.r.below(cands.len())].clone();
                let a = self.find_adt(adt).cloned();
                let Some(a) = a else { return self.var_use(site) };
                // common labels only
                let mut labels: Vec<(String, DeclId)> = Vec::new();
                if let Some(v0) = a.variants.first() {
                    for f in &v0.fields {
                        if let Some(l) = &f.label {
                            if let Some(c) = self.canonical_field(adt, v0, l) {
                                if c == f.decl && a.variants.iter().all(|v| v.fields.iter().any(|g| g.label.as_deref() == Some(l) && g.ty == f.ty)) {
                                    labels.push((l.clone(), c));
                                }
                            }
                        }
                    }
                }
                if labels.is_empty() {
                    return Expr::Var(Ident::use_(n, Some(d), true, "var"));
                }
                let (l, fd) = labels[self.r.below(labels.len())].clone();
                // Field resolution is type-directed and scoped-mode programs may be ill-typed
                // (glas unifies distinct custom types silently), so the label is not judged
                // here; well-typed field access is judged on the typed generator's programs.
                let _ = fd;
                // `x.label` where x is a local spelled like a module accessor: Gleam (and glas)
                // take it as a field access if that type-checks and as a module access
                // otherwise, so in scoped mode (types unknown) the base is soundness-only there;
                // the typed generator judges it.
                let ambiguous = self.sig().accessors.contains_key(&n);
                Expr::Field(Box::new(Expr::Var(Ident::use_(n, Some(d), !ambiguous, if ambiguous { "field-base-spelled-like-module" } else { "field-base" }))), Ident { text: l, bind: Bind::Plain, site: "field-access-untyped" })
            }
            14 => Expr::Tuple((0..self.r.range(1, 3)).map(|_| self.gen_expr(depth - 1, "tuple-elem")).collect()),
            15 => {
                let n = self.r.below(3);
                let es: Vec<Expr> = (0..n).map(|_| self.gen_expr(depth - 1, "list-elem")).collect();
                let tail = if self.r.chance(1, 3) { Some(Box::new(self.var_use("list-spread"))) } else { None };
                Expr::List(es, tail)
            }
            16 => Expr::Block(self.gen_block(depth - 1)),
            17 | 18 | 19 => self.gen_case(depth - 1),
            20 | 21 => self.gen_lambda(depth - 1),
            22 | 23 => {
                let l = self.gen_operand(depth - 1, "pipe-lhs");
                let r = if self.r.chance(1, 2) {
                    self.var_use("pipe-rhs")
                } else {
                    let head = self.var_use("call-head");
                    let n = self.r.below(2);
                    let args = (0..n).map(|_| Arg { label: None, value: self.gen_expr(depth.saturating_sub(2), "arg") }).collect();
                    Expr::Call(Box::new(head), args)
                };
                Expr::Pipe(Box::new(l), Box::new(r))
            }
            24 | 25 | 26 => {
                let op = *self.r.pick(ALL_BINOPS);
                let l = self.gen_operand(depth - 1, "binary-operand");
                let r = self.gen_operand(depth - 1, "binary-operand");
                Expr::Bin(op, Box::new(l), Box::new(r))
            }
            27 => {
                let b = self.gen_operand(depth - 1, "tuple-index-base");
                match b {
                    Expr::Int(_) | Expr::Float(_) => self.var_use(site),
                    b => {
                        let ti = Expr::TupleIndex(Box::new(b), self.r.below(3) as u32);
                        // the index as an inner link of a postfix chain: `x.0.name`, `x.1(a)`
                        match self.r.below(4) {
                            0 => Expr::Field(Box::new(ti), Ident { text: (*self.r.pick(&["name", "with", "size"])).to_string(), bind: Bind::Plain, site: "field-access-untyped" }),
                            1 => {
                                let n = self.r.below(3);
                                let args = (0..n).map(|_| Arg { label: None, value: self.gen_expr(depth.saturating_sub(1), "arg") }).collect();
                                Expr::Call(Box::new(ti), args)
                            }
                            _ => ti,
                        }
                    }
                }
            }
            28 if self.cfg.non_core => {
                let inner = self.with_core_off(|c| c.gen_operand(depth - 1, "unary-operand"));
                if self.r.chance(1, 2) {
                    Expr::Neg(Box::new(inner))
                } else {
                    Expr::Not(Box::new(inner))
                }
            }
            29 if self.cfg.non_core => match self.r.below(4) {
                0 => Expr::Todo(None),
                1 => Expr::Panic(None),
                2 => {
                    // glas models todo/panic as opaque MISSING nodes whose message is not
                    // lowered; identifiers inside a message are outside the supported core
                    // altogether, so only literal messages are generated.
                    Expr::Todo(Some(Box::new(Expr::Str("not yet".into()))))
                }
                _ => Expr::BitArray((*self.r.pick(&["<<1, 2:size(8)>>", "<<1, <<2>>:bits>>", "<<<<1>>:bits, <<2, <<3>>:bits>>:bits>>"])).to_string()),
            },
            _ => self.var_use(site),
        }
    }

    /// Generate with every produced use marked non-core (soundness only).
    fn with_core_off(&mut self, f: impl FnOnce(&mut Ctx<'a>) -> Expr) -> Expr {
        let mut e = f(self);
        strip_core(&mut e);
        e
    }

    /// An operand: never a bare binary/pipe/unary (the normaliser adds blocks where the
    /// grammar needs them, see `normalise`), atoms and postfix forms mostly.
    fn gen_operand(&mut self, depth: usize, site: &'static str) -> Expr {
        match self.r.below(6) {
            0 => Expr::Int("1".into()),
            1 | 2 => self.var_use(site),
            _ => match self.gen_expr(depth, site) {
                // glas models todo/panic as a non-expression MISSING node; as a direct
                // operand it shifts the positional lhs/rhs accessors (documented limit).
                Expr::Todo(_) | Expr::Panic(_) => self.var_use(site),
                e => e,
            },
        }
    }

    fn gen_block(&mut self, depth: usize) -> Vec<Stmt> {
        self.scopes.push(Vec::new());
        // one function body in forty is LONG: 70-130 statements, each `let` opening a scope of its own and
        // most of them re-binding one of a handful of names (what is keyed or counted per function shows only there)
        // (only where the engine asks for it - C05 - : an identifier census over such a body costs what a hundred ordinary
        // workspaces cost, and the laws of C06/C07 live on the number of workspaces they see)
        let long = self.long_budget > 0 && self.scopes.len() == 2 && std::env::var_os("VH_LONG_BODIES").is_some() && self.r.chance(1, 40);
        let n = if long {
            self.long_budget -= 1;
            self.r.range(70, 130)
        } else {
            self.r.range(1, 4)
        };
        let depth = if long { depth.min(1) } else { depth };
        let mut out = Vec::new();
        for i in 0..n {
            let last = i == n - 1;
            let k = self.r.below(10);
            if !last && k < 5 {
                // let
                let value = self.gen_expr(depth, "let-value");
                // evident ADT type?
                let adt_of_value = match &value {
                    Expr::Call(h, _) => match &**h {
                        Expr::Ctor(id) => match id.bind {
                            Bind::Use { target: Some(v), .. } => self.sigs.iter().flat_map(|m| m.adts.iter()).find(|a| a.variants.iter().any(|x| x.decl == v)).map(|a| a.decl),
                            _ => None,
                        },
                        _ => None,
                    },
                    _ => None,
                };
                let mut taken = Vec::new();
                let mut binds = Vec::new();
                let simple = self.r.chance(1, 2);
                let pat = if simple {
                    match self.fresh_name(&taken) {
                        Some(nm) => {
                            let d = new_decl(self.decls, SymKind::Let, &nm, self.module, false, None);
                            binds.push(Local { name: nm.clone(), decl: d, adt: adt_of_value });
                            Pattern::Var(Ident::decl(nm, d))
                        }
                        None => Pattern::Discard("_".into()),
                    }
                } else {
                    self.gen_pattern(depth.min(2), SymKind::Let, &mut taken, &mut binds)
                };
                let ann = if self.r.chance(1, 5) { Some(self.gen_type(1, false)) } else { None };
                let assert = !simple && self.r.chance(1, 3);
                // bindings become visible only now
                self.scopes.last_mut().unwrap().extend(binds);
                out.push(Stmt::Let { assert, pat, ann, value });
            } else if !last && k == 5 {
                // use
                let head = self.var_use("use-callee");
                let nargs = self.r.below(2);
                let args = (0..nargs).map(|_| Arg { label: None, value: self.gen_expr(depth.saturating_sub(1), "arg") }).collect();
                let call = if self.r.chance(3, 4) { Expr::Call(Box::new(head), args) } else { head };
                let mut taken = Vec::new();
                let mut binds = Vec::new();
                let np = self.r.below(3);
                let mut pats = Vec::new();
                for _ in 0..np {
                    let p = if self.r.chance(2, 3) {
                        match self.fresh_name(&taken) {
                            Some(nm) => {
                                taken.push(nm.clone());
                                let d = new_decl(self.decls, SymKind::UseVar, &nm, self.module, false, None);
                                binds.push(Local { name: nm.clone(), decl: d, adt: None });
                                Pattern::Var(Ident::decl(nm, d))
                            }
                            None => Pattern::Discard("_".into()),
                        }
                    } else {
                        self.gen_pattern(1, SymKind::UseVar, &mut taken, &mut binds)
                    };
                    let ann = if self.r.chance(1, 6) { Some(self.gen_type(0, false)) } else { None };
                    pats.push((p, ann));
                }
                self.scopes.last_mut().unwrap().extend(binds);
                out.push(Stmt::Use { pats, call });
            } else {
                let e = self.gen_expr(depth, "stmt");
                out.push(Stmt::Expr(e));
            }
        }
        // a `let`/`use` must not be the last statement of a block in idiomatic Gleam, but
        // both parse; we always end with an expression.
        self.scopes.pop();
        out
    }

    fn gen_case(&mut self, depth: usize) -> Expr {
        let nsub = if self.r.chance(1, 4) { 2 } else { 1 };
        let subjects: Vec<Expr> = (0..nsub).map(|_| self.gen_operand(depth, "case-subject")).collect();
        let nclauses = self.r.range(1, 3);
        let mut clauses = Vec::new();
        for _ in 0..nclauses {
            let mut taken = Vec::new();
            let mut binds = Vec::new();
            let pats: Vec<Pattern> = (0..nsub).map(|_| self.gen_pattern(depth.min(2), SymKind::ClauseVar, &mut taken, &mut binds)).collect();
            // alternatives (outside the core except for the first): only when the first binds nothing
            let mut alts = Vec::new();
            if self.cfg.non_core && binds.is_empty() && self.r.chance(1, 4) && nsub == 1 {
                let na = self.r.range(1, 2);
                for _ in 0..na {
                    alts.push(vec![match self.r.below(3) {
                        0 => Pattern::Int("2".into()),
                        1 => Pattern::Discard("_".into()),
                        _ => Pattern::Str("t".into()),
                    }]);
                }
            }
            // guard: evaluated in the *clause* scope (the clause's own pattern variables are
            // visible in it and shadow outer names of their spelling). Gleam allows only simple
            // expressions there: a visible name compared with a literal or another visible name.
            self.scopes.push(binds);
            let guard = if self.r.chance(1, 3) {
                let names: Vec<String> = self.visible_lower();
                if names.is_empty() {
                    None
                } else {
                    // prefer a name the clause itself binds: that is where scoping can go wrong
                    let own: Vec<String> = taken.iter().filter(|n| names.contains(n)).cloned().collect();
                    let pick = |r: &mut crate::rng::Rng| if !own.is_empty() && r.chance(2, 3) { own[r.below(own.len())].clone() } else { names[r.below(names.len())].clone() };
                    let n = pick(&mut *self.r);
                    let t = self.lookup_value(&n);
                    let lhs = Expr::Var(Ident::use_(n, t, true, "guard"));
                    let rhs = if self.r.chance(1, 3) {
                        let m = pick(&mut *self.r);
                        let t = self.lookup_value(&m);
                        Expr::Var(Ident::use_(m, t, true, "guard"))
                    } else {
                        Expr::Int("1".into())
                    };
                    Some(Expr::Bin(BinOp::Eq, Box::new(lhs), Box::new(rhs)))
                }
            } else {
                None
            };
            let binds = self.scopes.pop().unwrap();
            self.scopes.push(binds);
            let body = self.gen_expr(depth, "clause-body");
            self.scopes.pop();
            clauses.push(Clause { pats, alts, guard, body });
        }
        Expr::Case(subjects, clauses)
    }

    fn gen_params(&mut self, kind: SymKind, n: usize, labels: bool, annotate: bool) -> (Vec<Param>, Vec<Local>) {
        let mut taken: Vec<String> = Vec::new();
        let mut used_labels: Vec<String> = Vec::new();
        let mut locals = Vec::new();
        let mut ps = Vec::new();
        for _ in 0..n {
            let label = if labels && self.r.chance(1, 3) {
                let l = self.r.pick(LABELS).to_string();
                if used_labels.contains(&l) {
                    None
                } else {
                    used_labels.push(l.clone());
                    Some(l)
                }
            } else {
                None
            };
            let mut adt = None;
            let ty = if annotate && self.r.chance(1, 2) {
                if self.r.chance(1, 3) {
                    match self.adt_annotation() {
                        Some((t, d)) => {
                            adt = Some(d);
                            Some(t)
                        }
                        None => Some(self.gen_type(1, true)),
                    }
                } else {
                    Some(self.gen_type(1, true))
                }
            } else {
                None
            };
            let name = if self.r.chance(1, 8) {
                ParamName::Discard(if self.r.chance(1, 2) { "_".into() } else { "_unused".into() })
            } else {
                match self.fresh_name(&taken) {
                    Some(nm) => {
                        taken.push(nm.clone());
                        let d = new_decl(self.decls, kind, &nm, self.module, false, None);
                        locals.push(Local { name: nm.clone(), decl: d, adt });
                        ParamName::Name(Ident::decl(nm, d))
                    }
                    None => ParamName::Discard("_".into()),
                }
            };
            ps.push(Param { label, name, ty });
        }
        (ps, locals)
    }

    fn gen_lambda(&mut self, depth: usize) -> Expr {
        let n = self.r.below(3);
        let (ps, mut locals) = self.gen_params(SymKind::LambdaParam, n, false, true);
        // Annotations on lambda parameters are not used by glas's inference (known gap,
        // baseline test infer_annotated_lambda fails): they do not make a type evident.
        for l in locals.iter_mut() {
            l.adt = None;
        }
        self.scopes.push(locals);
        let body = self.gen_block(depth);
        self.scopes.pop();
        let ret = if self.r.chance(1, 6) { Some(self.gen_type(0, false)) } else { None };
        Expr::Lambda(ps, ret, body)
    }
}

fn strip_core_ident(id: &mut Ident) {
    match &mut id.bind {
        Bind::Use { core, .. } => *core = false,
        Bind::Module { core, .. } => *core = false,
        _ => {}
    }
}

/// Mark every use inside `e` as outside the supported core.
pub fn strip_core(e: &mut Expr) {
    match e {
        Expr::Var(id) | Expr::Ctor(id) => strip_core_ident(id),
        Expr::Call(f, args) => {
            strip_core(f);
            for a in args {
                if let Some(l) = &mut a.label {
                    strip_core_ident(l);
                }
                strip_core(&mut a.value);
            }
        }
        Expr::Field(b, id) => {
            strip_core(b);
            strip_core_ident(id);
        }
        Expr::TupleIndex(b, _) | Expr::Neg(b) | Expr::Not(b) => strip_core(b),
        Expr::Tuple(es) => es.iter_mut().for_each(strip_core),
        Expr::List(es, t) => {
            es.iter_mut().for_each(strip_core);
            if let Some(t) = t {
                strip_core(t);
            }
        }
        Expr::Pipe(l, r) | Expr::Bin(_, l, r) => {
            strip_core(l);
            strip_core(r);
        }
        Expr::Todo(Some(m)) | Expr::Panic(Some(m)) => strip_core(m),
        // blocks, cases and lambdas inside non-core positions: leave their inner
        // structure alone but uses there are non-core too
        Expr::Block(ss) | Expr::Lambda(_, _, ss) => {
            for s in ss {
                match s {
                    Stmt::Let { value, .. } => strip_core(value),
                    Stmt::Use { call, .. } => strip_core(call),
                    Stmt::Expr(e) => strip_core(e),
                }
            }
        }
        Expr::Case(subs, cls) => {
            subs.iter_mut().for_each(strip_core);
            for c in cls {
                if let Some(g) = &mut c.guard {
                    strip_core(g);
                }
                strip_core(&mut c.body);
            }
        }
        _ => {}
    }
}

// ----------------------------------------------------------------------------------
// Normalisation: insert `{ }` blocks exactly where Gleam's grammar needs them, so that
// the printed text means the generated tree.

fn prec_of(e: &Expr) -> Option<u8> {
    match e {
        Expr::Bin(op, _, _) => Some(op.prec()),
        Expr::Pipe(_, _) => Some(PIPE_PREC),
        _ => None,
    }
}

fn wrap(e: Expr) -> Expr {
    Expr::Block(vec![Stmt::Expr(e)])
}

fn is_postfix_base_ok(e: &Expr) -> bool {
    !matches!(e, Expr::Bin(..) | Expr::Pipe(..) | Expr::Neg(_) | Expr::Not(_) | Expr::Todo(_) | Expr::Panic(_) | Expr::Lambda(..) | Expr::Case(..) | Expr::BitArray(_))
}

fn leftmost_is_minus(e: &Expr) -> bool {
    match e {
        Expr::Neg(_) => true,
        Expr::Call(f, _) => leftmost_is_minus(f),
        Expr::Field(b, _) | Expr::TupleIndex(b, _) => leftmost_is_minus(b),
        Expr::Pipe(l, _) | Expr::Bin(_, l, _) => leftmost_is_minus(l),
        _ => false,
    }
}

/// An expression whose *rightmost* part swallows a following operator/postfix, e.g.
/// `todo as x + 1` or a lambda/case/`..` — as a left operand it must be wrapped.
fn greedy_right(e: &Expr) -> bool {
    match e {
        Expr::Todo(Some(_)) | Expr::Panic(Some(_)) => true,
        Expr::Neg(x) | Expr::Not(x) => greedy_right(x),
        Expr::Pipe(_, r) | Expr::Bin(_, _, r) => greedy_right(r),
        _ => false,
    }
}

pub fn normalise_stmts(ss: &mut Vec<Stmt>) {
    for (i, s) in ss.iter_mut().enumerate() {
        match s {
            Stmt::Let { value, .. } => normalise(value),
            Stmt::Use { call, .. } => normalise(call),
            Stmt::Expr(e) => {
                normalise(e);
                if i > 0 && leftmost_is_minus(e) {
                    // `a\n-b` would continue the previous expression
                    let inner = std::mem::replace(e, Expr::Int("0".into()));
                    *e = wrap(inner);
                }
            }
        }
    }
}

pub fn normalise(e: &mut Expr) {
    match e {
        Expr::Call(f, args) => {
            normalise(f);
            if !is_postfix_base_ok(f) {
                let inner = std::mem::replace(&mut **f, Expr::Int("0".into()));
                **f = wrap(inner);
            }
            for a in args {
                normalise(&mut a.value);
            }
        }
        Expr::Field(..) | Expr::TupleIndex(..) => {
            let is_index = matches!(e, Expr::TupleIndex(..));
            let (Expr::Field(b, _) | Expr::TupleIndex(b, _)) = e else { unreachable!() };
            normalise(b);
            // `x.0.1` lexes `0.1` as a float (unsupported, documented); `x.0.name` is fine and
            // must stay a plain postfix chain (the index must not be read as `0.`)
            // (`x.0.1` is a chain of two tuple indices: nested tuples)
            let _ = is_index;
            let bad_lit = matches!(**b, Expr::Int(_) | Expr::Float(_));
            if !is_postfix_base_ok(b) || bad_lit {
                let inner = std::mem::replace(&mut **b, Expr::Int("0".into()));
                **b = wrap(inner);
            }
        }
        Expr::Tuple(es) => es.iter_mut().for_each(normalise),
        Expr::List(es, t) => {
            es.iter_mut().for_each(normalise);
            if let Some(t) = t {
                normalise(t);
            }
        }
        Expr::Block(ss) => normalise_stmts(ss),
        Expr::Case(subs, cls) => {
            for s in subs.iter_mut() {
                normalise(s);
                // a block right after `case` would be fine, but a subject that is itself
                // a case/lambda is legal too; keep as is.
            }
            for c in cls {
                if let Some(g) = &mut c.guard {
                    normalise(g);
                }
                normalise(&mut c.body);
            }
        }
        Expr::Lambda(_, _, body) => normalise_stmts(body),
        Expr::Pipe(l, r) => {
            normalise(l);
            normalise(r);
            if prec_of(l).map(|p| p < PIPE_PREC).unwrap_or(false) || greedy_right(l) {
                let inner = std::mem::replace(&mut **l, Expr::Int("0".into()));
                **l = wrap(inner);
            }
            if prec_of(r).map(|p| p <= PIPE_PREC).unwrap_or(false) {
                let inner = std::mem::replace(&mut **r, Expr::Int("0".into()));
                **r = wrap(inner);
            }
        }
        Expr::Bin(op, l, r) => {
            normalise(l);
            normalise(r);
            let p = op.prec();
            if prec_of(l).map(|q| q < p).unwrap_or(false) || greedy_right(l) {
                let inner = std::mem::replace(&mut **l, Expr::Int("0".into()));
                **l = wrap(inner);
            }
            if prec_of(r).map(|q| q <= p).unwrap_or(false) {
                let inner = std::mem::replace(&mut **r, Expr::Int("0".into()));
                **r = wrap(inner);
            }
        }
        Expr::Neg(x) | Expr::Not(x) => {
            normalise(x);
            if prec_of(x).is_some() {
                let inner = std::mem::replace(&mut **x, Expr::Int("0".into()));
                **x = wrap(inner);
            }
        }
        Expr::Todo(Some(m)) | Expr::Panic(Some(m)) => normalise(m),
        _ => {}
    }
}

// ----------------------------------------------------------------------------------
// Workspace generation.

fn ty_sig_to_expr(t: &TySig) -> TypeExpr {
    let named = |n: &str, args: Vec<TypeExpr>| TypeExpr::Named { module: None, name: Ident::use_(n, None, true, "type-builtin"), args };
    match t {
        TySig::Int => named("Int", vec![]),
        TySig::Str => named("String", vec![]),
        TySig::Float => named("Float", vec![]),
        TySig::Var(v) => TypeExpr::Var(v.clone()),
        TySig::ListInt => named("List", vec![named("Int", vec![])]),
    }
}

fn plan_module(r: &mut Rng, cfg: &GenCfg, mi: usize, name: &str, decls: &mut Vec<DeclInfo>) -> ModSig {
    let mut m = ModSig { name: name.to_string(), accessor: name.rsplit('/').next().unwrap().to_string(), ..Default::default() };
    let n = r.range(2, cfg.max_items.max(2));
    let mut value_names: Vec<&str> = VALUE_NAMES.to_vec();
    let mut type_names: Vec<&str> = TYPE_NAMES.to_vec();
    let mut ctor_names: Vec<&str> = CTOR_NAMES.to_vec();
    r.shuffle(&mut value_names);
    r.shuffle(&mut type_names);
    r.shuffle(&mut ctor_names);
    // one module in five declares a constructor spelled like one of the prelude's: the
    // module's own declaration shadows it (the prelude is the outermost scope of all)
    if r.chance(1, 5) {
        ctor_names.push(*r.pick(&["Nil", "Ok", "Error", "True", "False"]));
    }
    for _ in 0..n {
        match r.below(10) {
            0..=4 => {
                if let Some(nm) = value_names.pop() {
                    let public = r.chance(2, 3);
                    let d = new_decl(decls, SymKind::Function, nm, mi, public, None);
                    m.fns.push(FnSig { decl: d, name: nm.into(), public, params: Vec::new() });
                    m.values.insert(nm.into(), d);
                }
            }
            5 => {
                if let Some(nm) = value_names.pop() {
                    let public = r.chance(2, 3);
                    let d = new_decl(decls, SymKind::Constant, nm, mi, public, None);
                    m.consts.push(ConstSig { decl: d, name: nm.into(), public });
                    m.values.insert(nm.into(), d);
                }
            }
            6..=8 => {
                if let Some(nm) = type_names.pop() {
                    let public = r.chance(2, 3);
                    let opaque = public && r.chance(1, 8);
                    let d = new_decl(decls, SymKind::Adt, nm, mi, public, None);
                    let params: Vec<String> = if r.chance(1, 3) { vec!["a".into()] } else { vec![] };
                    let nv = r.range(1, 3).min(ctor_names.len());
                    let mut variants = Vec::new();
                    // a shared labelled field to make common fields routine
                    let shared: Option<(String, TySig)> = if r.chance(1, 2) {
                        Some((r.pick(LABELS).to_string(), if r.chance(1, 2) { TySig::Int } else { TySig::Str }))
                    } else {
                        None
                    };
                    for vi in 0..nv {
                        let vn = ctor_names.pop().unwrap();
                        let vd = new_decl(decls, SymKind::Variant, vn, mi, public && !opaque, Some(d));
                        let mut fields = Vec::new();
                        let mut labels_used: Vec<String> = Vec::new();
                        let positional = r.below(2);
                        for _ in 0..positional {
                            let ty = match r.below(4) {
                                0 => TySig::Int,
                                1 => TySig::Str,
                                2 if !params.is_empty() => TySig::Var("a".into()),
                                _ => TySig::ListInt,
                            };
                            let fd = new_decl(decls, SymKind::Field, "", mi, false, Some(vd));
                            fields.push(FieldSig { label: None, decl: fd, ty });
                        }
                        if let Some((l, t)) = &shared {
                            // sometimes break commonality in a later variant (different type / missing)
                            let keep = vi == 0 || r.chance(3, 4);
                            if keep {
                                let ty = if vi > 0 && r.chance(1, 6) { TySig::Float } else { t.clone() };
                                let fd = new_decl(decls, SymKind::Field, l, mi, false, Some(vd));
                                fields.push(FieldSig { label: Some(l.clone()), decl: fd, ty });
                                labels_used.push(l.clone());
                            }
                        }
                        for _ in 0..r.below(2) {
                            let l = r.pick(LABELS).to_string();
                            if labels_used.contains(&l) {
                                continue;
                            }
                            labels_used.push(l.clone());
                            let fd = new_decl(decls, SymKind::Field, &l, mi, false, Some(vd));
                            fields.push(FieldSig { label: Some(l), decl: fd, ty: if r.chance(1, 2) { TySig::Int } else { TySig::Str } });
                        }
                        m.values.insert(vn.into(), vd);
                        variants.push(VariantSig { decl: vd, name: vn.into(), fields });
                    }
                    m.types.insert(nm.into(), d);
                    m.adts.push(AdtSig { decl: d, name: nm.into(), public, opaque, params, variants });
                }
            }
            _ => {
                if let Some(nm) = type_names.pop() {
                    let public = r.chance(2, 3);
                    let d = new_decl(decls, SymKind::Alias, nm, mi, public, None);
                    m.aliases.push(AliasSig { decl: d, name: nm.into(), public });
                    m.types.insert(nm.into(), d);
                }
            }
        }
    }
    if m.fns.is_empty() {
        if let Some(nm) = value_names.pop() {
            let d = new_decl(decls, SymKind::Function, nm, mi, true, None);
            m.fns.push(FnSig { decl: d, name: nm.into(), public: true, params: Vec::new() });
            m.values.insert(nm.into(), d);
        }
    }
    m
}

fn plan_imports(r: &mut Rng, sigs: &mut Vec<ModSig>, mi: usize, edges: &mut Vec<(usize, usize)>) {
    // import only lower-numbered modules: the import graph is a DAG
    let mut used_alias: Vec<String> = Vec::new();
    for j in 0..mi {
        if !r.chance(3, 4) {
            continue;
        }
        let target = sigs[j].clone();
        let alias = if r.chance(1, 3) {
            let a = r.pick(ALIASES).to_string();
            if used_alias.contains(&a) || sigs[mi].accessors.contains_key(&a) {
                None
            } else {
                used_alias.push(a.clone());
                Some(a)
            }
        } else {
            None
        };
        let accessor = alias.clone().unwrap_or_else(|| target.accessor.clone());
        if sigs[mi].accessors.contains_key(&accessor) {
            continue;
        }
        let mut members = Vec::new();
        let mut has_braces = false;
        if r.chance(2, 3) {
            has_braces = true;
            // candidate members: public fns, consts, ctors (non-opaque), types
            let mut cands: Vec<(bool, String, DeclId, bool)> = Vec::new(); // (is_type, name, decl, upper)
            for f in target.fns.iter().filter(|f| f.public) {
                cands.push((false, f.name.clone(), f.decl, false));
            }
            for c in target.consts.iter().filter(|c| c.public) {
                cands.push((false, c.name.clone(), c.decl, false));
            }
            for a in target.adts.iter().filter(|a| a.public) {
                cands.push((true, a.name.clone(), a.decl, true));
                if !a.opaque {
                    for v in &a.variants {
                        cands.push((false, v.name.clone(), v.decl, true));
                    }
                }
            }
            for a in target.aliases.iter().filter(|a| a.public) {
                cands.push((true, a.name.clone(), a.decl, true));
            }
            r.shuffle(&mut cands);
            let take = r.below(4).min(cands.len());
            for (is_type, name, decl, upper) in cands.into_iter().take(take) {
                let alias_name: Option<String> = if r.chance(1, 3) {
                    let pool: &[&str] = if upper { if is_type { TYPE_NAMES } else { CTOR_NAMES } } else { VALUE_NAMES };
                    Some(r.pick(pool).to_string())
                } else {
                    None
                };
                let local = alias_name.clone().unwrap_or_else(|| name.clone());
                let ns_taken = if is_type { sigs[mi].types.contains_key(&local) } else { sigs[mi].values.contains_key(&local) };
                if ns_taken || alias_name.as_deref() == Some(name.as_str()) {
                    continue;
                }
                if is_type {
                    sigs[mi].types.insert(local.clone(), decl);
                } else {
                    sigs[mi].values.insert(local.clone(), decl);
                }
                let site = if is_type { "import-type" } else { "import-value" };
                members.push(ImportMember {
                    is_type,
                    name: Ident::use_(name, Some(decl), true, site),
                    alias: alias_name.map(|a| Ident::use_(a, Some(decl), true, "import-alias")),
                });
            }
        }
        sigs[mi].accessors.insert(accessor, j);
        sigs[mi].imports.push(Import { path: target.name.split('/').map(|s| s.to_string()).collect(), alias, members, has_braces });
        edges.push((mi, j));
    }
}

pub fn generate(r: &mut Rng, cfg: &GenCfg) -> Workspace {
    let mut decls: Vec<DeclInfo> = Vec::new();
    let nmods = cfg.modules.clamp(1, MODULE_NAMES.len());
    let mut sigs: Vec<ModSig> = Vec::new();
    for mi in 0..nmods {
        let s = plan_module(r, cfg, mi, MODULE_NAMES[mi], &mut decls);
        sigs.push(s);
    }
    let mut edges = Vec::new();
    for mi in 0..nmods {
        plan_imports(r, &mut sigs, mi, &mut edges);
    }
    // function parameter plans (labels/arity) must be known before bodies: decide now
    for mi in 0..nmods {
        for fi in 0..sigs[mi].fns.len() {
            let n = r.below(4);
            let mut params = Vec::new();
            let mut used: Vec<String> = Vec::new();
            for _ in 0..n {
                let label = if r.chance(1, 3) {
                    let l = r.pick(LABELS).to_string();
                    if used.contains(&l) {
                        None
                    } else {
                        used.push(l.clone());
                        Some(l)
                    }
                } else {
                    None
                };
                params.push((label, String::new()));
            }
            sigs[mi].fns[fi].params = params;
        }
    }

    let mut holes = Vec::new();
    let mut field_facts: HashMap<DeclId, FieldFacts> = HashMap::new();
    let mut modules = Vec::new();
    for mi in 0..nmods {
        let sig = sigs[mi].clone();
        let mut items: Vec<Item> = Vec::new();
        for im in &sig.imports {
            items.push(Item { attrs: vec![], doc: vec![], kind: ItemKind::Import(im.clone()) });
        }
        let mut ctx = Ctx { r, cfg, sigs: &sigs, decls: &mut decls, holes: &mut holes, module: mi, scopes: Vec::new(), hole_budget: 0, long_budget: 1 };
        let mut body_items: Vec<Item> = Vec::new();
        for a in &sig.adts {
            let mut variants = Vec::new();
            for v in &a.variants {
                let mut fields = Vec::new();
                for f in &v.fields {
                    let canonical = match &f.label {
                        Some(l) => ctx.canonical_field(a.decl, v, l).unwrap_or(f.decl),
                        None => f.decl,
                    };
                    field_facts.insert(f.decl, FieldFacts { adt: a.decl, variant: v.decl, canonical });
                    fields.push(Field { label: f.label.as_ref().map(|l| Ident::decl(l.clone(), f.decl)), ty: ty_sig_to_expr(&f.ty), decl: Some(f.decl) });
                }
                let has_parens = !fields.is_empty();
                variants.push(Variant { name: Ident::decl(v.name.clone(), v.decl), fields, has_parens, doc: if ctx.r.chance(1, 6) { Some(" a variant".into()) } else { None } });
            }
            body_items.push(Item {
                attrs: vec![],
                doc: if ctx.r.chance(1, 4) { vec![" A custom type".into()] } else { vec![] },
                kind: ItemKind::Adt(Adt { public: a.public, opaque: a.opaque, name: Ident::decl(a.name.clone(), a.decl), params: a.params.clone(), variants, has_body: true }),
            });
        }
        for al in &sig.aliases {
            let ty = ctx.gen_type(2, false);
            body_items.push(Item { attrs: vec![], doc: vec![], kind: ItemKind::Alias(Alias { public: al.public, name: Ident::decl(al.name.clone(), al.decl), params: vec![], ty }) });
        }
        for c in &sig.consts {
            let value = match ctx.r.below(4) {
                0 => Expr::Int("7".into()),
                1 => Expr::Str("k".into()),
                2 => Expr::Tuple(vec![Expr::Int("1".into()), Expr::Str("s".into())]),
                _ => Expr::List(vec![Expr::Int("1".into()), Expr::Int("2".into())], None),
            };
            let ann = if ctx.r.chance(1, 4) { Some(ctx.gen_type(0, false)) } else { None };
            body_items.push(Item { attrs: vec![], doc: vec![], kind: ItemKind::Const(Const { public: c.public, name: Ident::decl(c.name.clone(), c.decl), ann, value }) });
        }
        for f in &sig.fns {
            ctx.hole_budget = if cfg.holes { 2 } else { 0 };
            ctx.scopes.clear();
            // parameters
            let mut taken: Vec<String> = Vec::new();
            let mut locals = Vec::new();
            let mut ps = Vec::new();
            for (label, _) in &f.params {
                let mut adt = None;
                let ty = if ctx.r.chance(1, 2) {
                    if ctx.r.chance(1, 3) {
                        match ctx.adt_annotation() {
                            Some((t, d)) => {
                                adt = Some(d);
                                Some(t)
                            }
                            None => Some(ctx.gen_type(1, true)),
                        }
                    } else {
                        Some(ctx.gen_type(1, true))
                    }
                } else {
                    None
                };
                let name = if ctx.r.chance(1, 8) {
                    ParamName::Discard(if ctx.r.chance(1, 2) { "_".into() } else { "_unused".into() })
                } else {
                    // one labelled parameter in three is spelled like its label (`sep sep: String`):
                    // a label written at a call site then has the parameter's spelling
                    let same_as_label = match &label {
                        Some(l) if ctx.r.chance(1, 3) && !taken.contains(l) => Some(l.clone()),
                        _ => None,
                    };
                    match same_as_label.or_else(|| ctx.fresh_name(&taken)) {
                        Some(nm) => {
                            taken.push(nm.clone());
                            let d = new_decl(ctx.decls, SymKind::Param, &nm, mi, false, None);
                            locals.push(Local { name: nm.clone(), decl: d, adt });
                            ParamName::Name(Ident::decl(nm, d))
                        }
                        None => ParamName::Discard("_".into()),
                    }
                };
                ps.push(Param { label: label.clone(), name, ty });
            }
            ctx.scopes.push(locals);
            let external = ctx.r.chance(1, 10);
            let mut body = if external && ctx.r.chance(1, 2) { None } else { Some(ctx.gen_block(cfg.max_depth)) };
            if let Some(b) = &mut body {
                normalise_stmts(b);
            }
            ctx.scopes.pop();
            let ret = if ctx.r.chance(1, 4) || body.is_none() { Some(ctx.gen_type(1, true)) } else { None };
            let mut attrs = Vec::new();
            if external {
                attrs.push(Attr::External { target: "erlang".into(), module: "mod".into(), func: "fun".into() });
            }
            if ctx.r.chance(1, 12) {
                attrs.push(Attr::Target("javascript".into()));
            }
            body_items.push(Item {
                attrs,
                doc: if ctx.r.chance(1, 5) { vec![" Documented.".into(), " Second line.".into()] } else { vec![] },
                kind: ItemKind::Func(Func { public: f.public, name: Ident::decl(f.name.clone(), f.decl), params: ps, ret, body }),
            });
        }
        ctx.r.shuffle(&mut body_items);
        items.extend(body_items);
        modules.push(Module {
            name: sig.name.clone(),
            header_doc: if r.chance(1, 4) { vec![" Module docs".into()] } else { vec![] },
            items,
        });
    }

    // print
    let mut printed = Vec::new();
    for m in &modules {
        let mut p = print_module(m, Some(r), cfg.trivia, cfg.non_ascii);
        // Sometimes the file ends right after its last token (no trailing newline).
        if r.chance(1, 4) {
            let keep = p.text.trim_end().len();
            p.text.truncate(keep);
        }
        printed.push(p);
    }
    for (mi, p) in printed.iter().enumerate() {
        for (d, focus, name) in &p.decl_ranges {
            decls[*d].focus = *focus;
            decls[*d].name_range = *name;
            debug_assert_eq!(decls[*d].module, mi);
        }
        // holes
        for occ in &p.occs {
            if occ.ident.site == "hole" {
                if let Some(h) = holes.iter_mut().find(|h| h.module == mi && h.name == occ.ident.text) {
                    h.range = occ.range;
                }
            }
        }
    }
    Workspace { modules, decls, printed, holes, field_facts, import_edges: edges, split: None }
}
