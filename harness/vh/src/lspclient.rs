//! Minimal LSP client over stdio for black-box monitoring of the real `glas` binary.
//! Everything is recorded at the client boundary: a request is logged before it is written,
//! a response when it is read.

use serde_json::{json, Value};
use std::collections::HashMap;
use std::io::{BufRead, BufReader, Read, Write};
use std::path::Path;
use std::process::{Child, ChildStdin, Command, Stdio};
use std::sync::mpsc::{channel, Receiver, RecvTimeoutError};
use std::time::{Duration, Instant};

#[derive(Debug, Clone)]
pub enum Incoming {
    Message(Value),
    Eof,
}

pub struct Server {
    pub child: Child,
    stdin: Option<ChildStdin>,
    rx: Receiver<Incoming>,
    next_id: i64,
    /// id -> all responses received for it (exactly-once accounting)
    pub responses: HashMap<i64, Vec<Value>>,
    /// ids in the order requests were written, with their method
    pub sent_requests: Vec<(i64, String)>,
    pub notifications: Vec<(String, Value)>,
    /// server -> client requests seen (answered with null)
    pub server_requests: Vec<(Value, String)>,
    pub eof: bool,
    /// order of arrival of everything (for interleaving signatures): "r<id>" / "n:<method>"
    pub arrival: Vec<String>,
    pub bytes_written: usize,
}

pub fn frame(v: &Value) -> Vec<u8> {
    let body = serde_json::to_vec(v).unwrap();
    let mut out = format!("Content-Length: {}\r\n\r\n", body.len()).into_bytes();
    out.extend_from_slice(&body);
    out
}

impl Server {
    pub fn spawn(bin: &Path, envs: &[(String, String)], stderr_path: Option<&Path>) -> std::io::Result<Server> {
        let mut cmd = Command::new(bin);
        cmd.arg("--stdio").stdin(Stdio::piped()).stdout(Stdio::piped());
        match stderr_path {
            Some(p) => {
                cmd.stderr(std::fs::File::create(p)?);
            }
            None => {
                cmd.stderr(Stdio::null());
            }
        }
        cmd.env("GLEAM_PATH", "/nonexistent/gleam").env("RUST_BACKTRACE", "0").env_remove("GLEAM_LOG");
        for (k, v) in envs {
            cmd.env(k, v);
        }
        let mut child = cmd.spawn()?;
        let stdin = child.stdin.take();
        let stdout = child.stdout.take().unwrap();
        let (tx, rx) = channel();
        std::thread::spawn(move || {
            let mut rd = BufReader::new(stdout);
            loop {
                let mut len: Option<usize> = None;
                loop {
                    let mut line = String::new();
                    match rd.read_line(&mut line) {
                        Ok(0) | Err(_) => {
                            let _ = tx.send(Incoming::Eof);
                            return;
                        }
                        Ok(_) => {}
                    }
                    let l = line.trim_end();
                    if l.is_empty() {
                        break;
                    }
                    if let Some(v) = l.strip_prefix("Content-Length:") {
                        len = v.trim().parse().ok();
                    }
                }
                let Some(n) = len else { continue };
                let mut body = vec![0u8; n];
                if rd.read_exact(&mut body).is_err() {
                    let _ = tx.send(Incoming::Eof);
                    return;
                }
                match serde_json::from_slice::<Value>(&body) {
                    Ok(v) => {
                        if tx.send(Incoming::Message(v)).is_err() {
                            return;
                        }
                    }
                    Err(_) => {}
                }
            }
        });
        Ok(Server {
            child,
            stdin,
            rx,
            next_id: 1,
            responses: HashMap::new(),
            sent_requests: Vec::new(),
            notifications: Vec::new(),
            server_requests: Vec::new(),
            eof: false,
            arrival: Vec::new(),
            bytes_written: 0,
        })
    }

    pub fn write_bytes(&mut self, b: &[u8]) -> bool {
        self.bytes_written += b.len();
        match self.stdin.as_mut() {
            Some(s) => s.write_all(b).and_then(|_| s.flush()).is_ok(),
            None => false,
        }
    }

    pub fn notify(&mut self, method: &str, params: Value) -> bool {
        let m = json!({"jsonrpc":"2.0","method":method,"params":params});
        self.write_bytes(&frame(&m))
    }

    /// Build a request message and register its id without sending (for batching).
    pub fn make_request(&mut self, method: &str, params: Value) -> (i64, Value) {
        let id = self.next_id;
        self.next_id += 1;
        self.sent_requests.push((id, method.to_string()));
        (id, json!({"jsonrpc":"2.0","id":id,"method":method,"params":params}))
    }

    pub fn request(&mut self, method: &str, params: Value) -> i64 {
        let (id, m) = self.make_request(method, params);
        self.write_bytes(&frame(&m));
        id
    }

    fn absorb(&mut self, inc: Incoming) {
        match inc {
            Incoming::Eof => self.eof = true,
            Incoming::Message(v) => {
                let has_id = v.get("id").map(|i| !i.is_null()).unwrap_or(false);
                let has_method = v.get("method").is_some();
                if has_id && !has_method {
                    if let Some(id) = v["id"].as_i64() {
                        self.arrival.push(format!("r{id}"));
                        self.responses.entry(id).or_default().push(v);
                    }
                } else if has_method && has_id {
                    // server -> client request: answer null so the server is never blocked on us
                    let method = v["method"].as_str().unwrap_or("").to_string();
                    let reply = json!({"jsonrpc":"2.0","id":v["id"].clone(),"result":Value::Null});
                    self.write_bytes(&frame(&reply));
                    self.server_requests.push((v["id"].clone(), method));
                } else if has_method {
                    let method = v["method"].as_str().unwrap_or("").to_string();
                    self.arrival.push(format!("n:{method}"));
                    self.notifications.push((method, v["params"].clone()));
                }
            }
        }
    }

    /// Read whatever arrives until `pred` holds or `timeout` elapses. Returns pred's value.
    pub fn pump_until(&mut self, timeout: Duration, mut pred: impl FnMut(&Server) -> bool) -> bool {
        let t0 = Instant::now();
        loop {
            if pred(self) {
                return true;
            }
            if self.eof {
                return pred(self);
            }
            let left = timeout.checked_sub(t0.elapsed());
            let Some(left) = left else { return pred(self) };
            match self.rx.recv_timeout(left.min(Duration::from_millis(50))) {
                Ok(inc) => self.absorb(inc),
                Err(RecvTimeoutError::Timeout) => {}
                Err(RecvTimeoutError::Disconnected) => {
                    self.eof = true;
                }
            }
        }
    }

    /// Drain for a fixed time (to catch stragglers / duplicates).
    pub fn drain(&mut self, d: Duration) {
        let t0 = Instant::now();
        while t0.elapsed() < d && !self.eof {
            match self.rx.recv_timeout(Duration::from_millis(10)) {
                Ok(inc) => self.absorb(inc),
                Err(RecvTimeoutError::Timeout) => {}
                Err(RecvTimeoutError::Disconnected) => self.eof = true,
            }
        }
    }

    /// Drop everything recorded so far (a long-lived server in a long run would otherwise
    /// keep every answer ever received in memory).
    pub fn forget(&mut self) {
        self.responses.clear();
        self.sent_requests.clear();
        self.notifications.clear();
        self.server_requests.clear();
        self.arrival.clear();
    }

    pub fn wait_response(&mut self, id: i64, timeout: Duration) -> Option<Value> {
        self.pump_until(timeout, |s| s.responses.contains_key(&id));
        self.responses.get(&id).and_then(|v| v.first().cloned())
    }

    pub fn initialize(&mut self, root_uri: Option<&str>, timeout: Duration) -> Option<Value> {
        let caps = json!({"textDocument": {"semanticTokens": {"requests": {"full": true, "range": true}, "tokenTypes": [], "tokenModifiers": [], "formats": ["relative"]}}});
        self.initialize_with(root_uri, caps, None, timeout)
    }

    /// `initialize` with the client's capabilities (and optionally its `clientInfo`) given.
    pub fn initialize_with(&mut self, root_uri: Option<&str>, capabilities: Value, client_info: Option<Value>, timeout: Duration) -> Option<Value> {
        let mut params = json!({
            "processId": Value::Null,
            "rootUri": root_uri,
            "capabilities": capabilities,
        });
        if let Some(ci) = client_info {
            params["clientInfo"] = ci;
        }
        let id = self.request("initialize", params);
        let r = self.wait_response(id, timeout)?;
        self.notify("initialized", json!({}));
        Some(r)
    }

    pub fn exit_status(&mut self) -> Option<std::process::ExitStatus> {
        self.child.try_wait().ok().flatten()
    }

    pub fn alive(&mut self) -> bool {
        !self.eof && self.exit_status().is_none()
    }

    pub fn kill(&mut self) {
        self.stdin = None;
        let _ = self.child.kill();
        let _ = self.child.wait();
    }

    /// Polite shutdown; kill if it does not exit.
    pub fn shutdown(&mut self) {
        if self.alive() {
            let id = self.request("shutdown", Value::Null);
            let _ = self.wait_response(id, Duration::from_secs(2));
            self.notify("exit", Value::Null);
            let t0 = Instant::now();
            while t0.elapsed() < Duration::from_secs(2) {
                if self.exit_status().is_some() {
                    return;
                }
                std::thread::sleep(Duration::from_millis(5));
            }
        }
        self.kill();
    }
}

impl Drop for Server {
    fn drop(&mut self) {
        self.stdin = None;
        let _ = self.child.kill();
        let _ = self.child.wait();
    }
}

pub fn file_uri(path: &str) -> String {
    // paths used by the harness are plain ASCII without characters that need escaping
    format!("file://{path}")
}

/// Lexical normalisation of a file URI's path (`a/../b` -> `b`).
pub fn normalise_uri(uri: &str) -> String {
    let Some(p) = uri.strip_prefix("file://") else { return uri.to_string() };
    let mut parts: Vec<&str> = Vec::new();
    for seg in p.split('/') {
        match seg {
            "" | "." => {}
            ".." => {
                parts.pop();
            }
            s => parts.push(s),
        }
    }
    format!("file:///{}", parts.join("/"))
}

pub fn read_to_string_lossy(mut r: impl Read) -> String {
    let mut s = Vec::new();
    let _ = r.read_to_end(&mut s);
    String::from_utf8_lossy(&s).to_string()
}

/// The standard token types of LSP 3.17, in the order of the specification.
pub const STANDARD_TOKEN_TYPES: &[&str] = &[
    "namespace", "type", "class", "enum", "interface", "struct", "typeParameter", "parameter", "variable", "property", "enumMember", "event", "function", "method", "macro", "keyword", "modifier", "comment", "string", "number",
    "regexp", "operator", "decorator",
];

/// What a client says about itself at `initialize`: every knob is something real editors
/// differ in. `descr` names the choices (for coverage sets and signatures).
pub struct ClientProfile {
    pub capabilities: Value,
    pub client_info: Option<Value>,
    /// the encodings offered in `general.positionEncodings` (None = capability absent)
    pub offered_encodings: Option<Vec<&'static str>>,
    pub descr: String,
}

pub fn client_profile(r: &mut crate::rng::Rng) -> ClientProfile {
    let (encs, encs_name): (Option<Vec<&'static str>>, &str) = match r.below(6) {
        0 => (None, "enc=absent"),
        1 => (Some(vec!["utf-16"]), "enc=utf16"),
        2 => (Some(vec!["utf-8", "utf-16"]), "enc=utf8-first"),
        3 => (Some(vec!["utf-32", "utf-16"]), "enc=utf32-first"),
        4 => (Some(vec!["utf-16", "utf-8"]), "enc=utf16-first"),
        _ => (Some(vec!["utf-8", "utf-32", "utf-16"]), "enc=all"),
    };
    let (types, types_name): (Vec<&str>, &str) = match r.below(5) {
        0 => (vec![], "types=empty"),
        1 => (STANDARD_TOKEN_TYPES.to_vec(), "types=standard"),
        2 => (vec!["function", "type", "variable"], "types=no-namespace"),
        3 => (vec!["variable", "keyword"], "types=none-of-the-server's"),
        _ => (vec!["type", "namespace", "function"], "types=reordered"),
    };
    let mut caps = json!({"textDocument": {"semanticTokens": {"requests": {"full": true, "range": true}, "tokenTypes": types, "tokenModifiers": [], "formats": ["relative"]}}});
    if let Some(e) = &encs {
        caps["general"] = json!({"positionEncodings": e});
    }
    let mut extras: Vec<&str> = Vec::new();
    if r.chance(1, 3) {
        caps["window"] = json!({"workDoneProgress": true, "showMessage": {"messageActionItem": {"additionalPropertiesSupport": true}}});
        extras.push("progress");
    }
    if r.chance(1, 3) {
        caps["workspace"] = json!({"configuration": true, "didChangeWatchedFiles": {"dynamicRegistration": true, "relativePatternSupport": r.chance(1, 2)}});
        extras.push("configuration+watch");
    }
    let client_info = match r.below(4) {
        0 => {
            extras.push("neovim");
            Some(json!({"name": "Neovim", "version": "0.9.1"}))
        }
        1 => Some(json!({"name": "Visual Studio Code", "version": "1.90.0"})),
        _ => None,
    };
    ClientProfile { capabilities: caps, client_info, offered_encodings: encs, descr: format!("{encs_name},{types_name}{}{}", if extras.is_empty() { "" } else { "," }, extras.join("+")) }
}
