//! Robustness sweep: every query kind at every token-boundary offset of every file of
//! generated, corpus and damaged workspaces.
//!   C10: each query returns (no panic, no abort, no hang)
//!   C20: every range in every answer is valid for the file it names

use ide::FileId;
use serde_json::json;
use std::collections::BTreeSet;
use std::time::Instant;
use vh::damage;
use vh::panicmon::{self, Outcome};
use vh::queries::{self, Answer, RangeClass, Q};
use vh::report::{truncate_str, Args, Journal, Report};
use vh::rng::{fnv, Rng};
use vh::ws::{self, Loaded, TokenTable};

const HANG_SUSPECT_S: f64 = 20.0;

struct Sweep<'a> {
    prop: &'a str,
    rep: &'a mut Report,
    max_query_s: f64,
    slowest: String,
}

fn check_ranges(prop: &str, rep: &mut Report, loaded: &Loaded, tables: &[(FileId, TokenTable)], q: &Q, file: FileId, pos: u32, ans: &Answer, replay: &serde_json::Value) {
    if prop != "C20" {
        return;
    }
    // A cursor inside a multi-byte character is not a position an LSP client can name
    // (C15 covers such input); ranges that merely echo it are not judged.
    if !q.per_file() && !loaded.text(file).is_char_boundary((pos as usize).min(loaded.text(file).len())) {
        rep.count("answers_at_mid_char_cursor_not_judged", 1);
        return;
    }
    for ro in &ans.ranges {
        rep.count("ranges_checked", 1);
        rep.see("range_kinds", format!("{}:{}", q.name(), ro.what));
        if !loaded.has_file(ro.file) {
            rep.violate(format!("range:file-not-in-workspace:{}", ro.what), format!("{:?} names {:?} which is not in the workspace (query {} at f{}:{})", ro, ro.file, q.name(), file.0, pos), replay.clone());
            continue;
        }
        let text = loaded.text(ro.file);
        let bad = ro.a > ro.b || ro.b > text.len() || !text.is_char_boundary(ro.a.min(text.len())) || !text.is_char_boundary(ro.b.min(text.len()));
        if bad {
            rep.violate(
                format!("range:out-of-bounds-or-mid-char:{}", ro.what),
                format!("{}..{} in file of {} bytes (query {} at f{}:{})", ro.a, ro.b, text.len(), q.name(), file.0, pos),
                replay.clone(),
            );
            continue;
        }
        let tt = &tables.iter().find(|t| t.0 == ro.file).expect("table").1;
        match ro.class {
            RangeClass::NameLike => {
                if !tt.exact.contains(&(ro.a, ro.b)) {
                    rep.violate(
                        format!("range:not-a-whole-token:{}", ro.what),
                        format!("{}..{} = {:?} is not one token (query {} at f{}:{})", ro.a, ro.b, &text[ro.a..ro.b], q.name(), file.0, pos),
                        replay.clone(),
                    );
                }
            }
            RangeClass::NodeLike => {
                let is_module_target = ro.a == 0 && ro.b == 0;
                if !is_module_target && (!tt.bounds.contains(&ro.a) || !tt.bounds.contains(&ro.b)) {
                    rep.violate(
                        format!("range:not-on-token-boundaries:{}", ro.what),
                        format!("{}..{} (query {} at f{}:{})", ro.a, ro.b, q.name(), file.0, pos),
                        replay.clone(),
                    );
                }
            }
            RangeClass::Completion => {
                let empty_at_cursor = ro.a == ro.b && ro.a == pos as usize;
                let node_like = tt.bounds.contains(&ro.a) && tt.bounds.contains(&ro.b);
                if !(tt.exact.contains(&(ro.a, ro.b)) || empty_at_cursor || node_like) {
                    rep.violate(
                        format!("range:completion-range-mid-token:{}", ro.what),
                        format!("{}..{} cursor {} (query {})", ro.a, ro.b, pos, q.name()),
                        replay.clone(),
                    );
                }
            }
            RangeClass::Loose => {}
        }
    }
    for (f, focus, full) in &ans.nav_pairs {
        let _ = f;
        if !(full.0 <= focus.0 && focus.1 <= full.1) {
            rep.violate("range:focus-not-inside-full", format!("focus {focus:?} full {full:?} (query {} at f{}:{})", q.name(), file.0, pos), replay.clone());
        }
    }
}

impl<'a> Sweep<'a> {
    fn one(&mut self, loaded: &Loaded, an: &ide::Analysis, tables: &[(FileId, TokenTable)], q: &Q, file: FileId, pos: u32, replay: &serde_json::Value) {
        self.rep.evaluations += 1;
        let t0 = Instant::now();
        let out = panicmon::guard(|| queries::run_query(an, q, file, pos));
        let dt = t0.elapsed().as_secs_f64();
        if dt > self.max_query_s {
            self.max_query_s = dt;
            self.slowest = format!("{} at f{}:{} took {:.3}s", q.name(), file.0, pos, dt);
        }
        match out {
            Outcome::Ok(Ok(ans)) => {
                self.rep.see("query_result_kinds", format!("{}:{}", q.name(), if ans.empty { "empty" } else { "answer" }));
                check_ranges(self.prop, self.rep, loaded, tables, q, file, pos, &ans, replay);
                if dt > HANG_SUSPECT_S && self.prop == "C10" {
                    // The query DID return: time alone is never a verdict (the machine may be
                    // loaded, and find-usages is linear in the occurrences of a hot symbol).
                    // Non-termination shows as a shard watchdog timeout, which is inconclusive
                    // and names the journaled case.
                    self.rep.inconclusive += 1;
                    self.rep.notes.push(format!("slow query (answered): {} took {dt:.1}s at f{}:{}", q.name(), file.0, pos));
                    let _ = replay;
                }
            }
            Outcome::Ok(Err(_cancelled)) => {
                // impossible single-threaded; count it so that it would be noticed
                self.rep.inconclusive += 1;
                self.rep.count("unexpected_cancelled", 1);
            }
            Outcome::Panicked(info) => {
                if self.prop == "C10" {
                    let mut rp = replay.clone();
                    rp["query"] = json!(q.name());
                    rp["file_id"] = json!(file.0);
                    rp["pos"] = json!(pos);
                    self.rep.violate(
                        info.signature(),
                        format!("{} at file {} offset {} panicked at {} (frame {})", q.name(), loaded.path(file), pos, info.location, info.frame_loc),
                        rp,
                    );
                } else {
                    self.rep.count("queries_that_panicked(C10's business)", 1);
                }
            }
        }
    }
}

fn offsets_of(text: &str, tt: &TokenTable, r: &mut Rng, cap: usize) -> Vec<u32> {
    let mut offs: BTreeSet<usize> = tt.bounds.iter().copied().collect();
    offs.insert(0);
    offs.insert(text.len());
    // neighbourhood of multi-byte characters: the boundary before, after, and one
    // offset inside the character
    for (i, c) in text.char_indices() {
        if c.len_utf8() > 1 {
            offs.insert(i);
            offs.insert(i + 1);
            offs.insert(i + c.len_utf8());
        }
    }
    // one offset strictly inside every word-like token of two or more bytes (a cursor in the
    // middle of an identifier: replacement ranges must still cover the whole token)
    for &(a, b, _) in &tt.tokens {
        if b - a >= 2 && text.as_bytes()[a].is_ascii_alphanumeric() && text.is_char_boundary(a + 1) {
            offs.insert(a + 1);
        }
    }
    let mut v: Vec<u32> = offs.into_iter().map(|x| x as u32).collect();
    if v.len() > cap {
        r.shuffle(&mut v);
        v.truncate(cap);
        v.sort();
    }
    v
}

fn sweep_workspace(prop: &str, rep: &mut Report, files: &[(String, String)], r: &mut Rng, offs_cap: usize, replay: serde_json::Value) -> (f64, String) {
    let pkgs = ws::single_package(files);
    let loaded = ws::load_packages(&pkgs);
    let an = loaded.host.snapshot();
    let tables: Vec<(FileId, TokenTable)> = loaded.files.iter().map(|f| (f.0, ws::token_table(&f.2))).collect();
    let qs = queries::all_queries("fresh_name_zz", "FreshNameZz");
    let mut sw = Sweep { prop, rep, max_query_s: 0.0, slowest: String::new() };
    // every file, including gleam.toml "opened as a module"
    for (fid, _path, text) in &loaded.files {
        let tt = &tables.iter().find(|t| t.0 == *fid).unwrap().1;
        for q in [Q::Diags, Q::Tree, Q::HlFull] {
            sw.one(&loaded, &an, &tables, &q, *fid, 0, &replay);
        }
        // a few range-restricted highlights
        let len = text.len() as u32;
        for _ in 0..3 {
            let mut a = r.below(text.len() + 1);
            while !text.is_char_boundary(a) {
                a -= 1;
            }
            let mut b = a + r.below(text.len() - a + 1);
            while !text.is_char_boundary(b) {
                b -= 1;
            }
            sw.one(&loaded, &an, &tables, &Q::HlRange(a as u32, b as u32), *fid, 0, &replay);
        }
        sw.one(&loaded, &an, &tables, &Q::HlRange(0, len), *fid, 0, &replay);
        // `offs_cap` below 10 marks a long-construct file: usage searches (references,
        // highlight, rename) cost seconds each when one symbol occurs 10^4 times, and it is the
        // recursive walks (lowering, inference, completion) that such a file is there for
        let light = offs_cap < 10;
        for pos in offsets_of(text, tt, r, offs_cap) {
            for q in &qs {
                if light && matches!(q, Q::Refs | Q::Highlight | Q::Rename(_) | Q::PrepRename) {
                    continue;
                }
                sw.one(&loaded, &an, &tables, q, *fid, pos, &replay);
            }
        }
    }
    (sw.max_query_s, sw.slowest)
}

/// A definition chain in a LONG-LIVED host: asked once (memoised results all along the
/// chain), then edited - a declaration added at the top, which changes every offset and the
/// module's declarations but no function - and asked again. What was nested while computing
/// nests again while salsa checks that the memoised results are still valid.
fn sweep_after_edit(prop: &str, rep: &mut Report, files: &[(String, String)], r: &mut Rng, replay: serde_json::Value) {
    let pkgs = ws::single_package(files);
    let mut loaded = ws::load_packages(&pkgs);
    let qs = [Q::Hover, Q::Diags, Q::HlFull, Q::Goto, Q::Compl(None)];
    let edits = ["pub type ZzAdded { ZzAdded }\n", "// a comment\n", "pub fn zz_added(q) { q }\n"];
    for (step, prefix) in std::iter::once("").chain(edits.iter().copied()).enumerate() {
        if step > 0 {
            let mut change = ide::Change::default();
            for f in loaded.files.iter_mut().filter(|f| f.1.ends_with(".gleam")) {
                f.2 = format!("{prefix}{}", f.2);
                change.change_file(f.0, std::sync::Arc::from(f.2.as_str()));
            }
            loaded.host.apply_change(change);
        }
        let an = loaded.host.snapshot();
        let tables: Vec<(FileId, TokenTable)> = loaded.files.iter().map(|f| (f.0, ws::token_table(&f.2))).collect();
        let mut sw = Sweep { prop, rep: &mut *rep, max_query_s: 0.0, slowest: String::new() };
        for (fid, path, text) in &loaded.files {
            if !path.ends_with(".gleam") {
                continue;
            }
            let tt = &tables.iter().find(|t| t.0 == *fid).unwrap().1;
            // the last definitions of the file first (the far end of the chain), then a few more
            let mut offs: Vec<u32> = tt.tokens.iter().rev().take(12).map(|t| t.0 as u32).collect();
            offs.extend(offsets_of(text, tt, r, 3));
            for pos in offs {
                for q in &qs {
                    sw.one(&loaded, &an, &tables, q, *fid, pos, &replay);
                }
            }
        }
        sw.rep.count("long_construct_queries_after_edits", if step > 0 { 1 } else { 0 });
    }
}

fn files_json(files: &[(String, String)]) -> serde_json::Value {
    json!(files.iter().map(|(p, t)| json!([p, t])).collect::<Vec<_>>())
}

fn run(args: Args) -> Report {
    let mut rep = Report::new(&args.prop, args.shard);
    let mut journal = Journal::open(&args.out, &args.prop, args.shard);
    let mut r = Rng::derive(args.seed, args.shard as u64, 10);
    let prop = args.prop.clone();
    let mut max_q = 0.0f64;
    let mut slowest = String::new();
    let t0 = Instant::now();

    // W0: fixed hostile workspaces (every shard takes a slice): each hostile snippet alone,
    // self-import and cycles in their smallest form.
    let mut fixed: Vec<Vec<(String, String)>> = Vec::new();
    for s in damage::HOSTILE_SNIPPETS {
        fixed.push(vec![("/ws/pkg/src/h27.gleam".into(), format!("pub type H27 {{ H27 }}\npub fn h27(x) {{ x }}\n{s}\n"))]);
    }
    fixed.push(vec![("/ws/pkg/src/a.gleam".into(), "import a\npub fn f() { a.f() }\n".into())]);
    fixed.push(vec![
        ("/ws/pkg/src/a.gleam".into(), "import b.{g}\npub fn f() { g() }\n".into()),
        ("/ws/pkg/src/b.gleam".into(), "import a.{f}\npub fn g() { f() }\n".into()),
    ]);
    fixed.push(vec![
        ("/ws/pkg/src/a.gleam".into(), "import b\npub type T { T(b.U) }\n".into()),
        ("/ws/pkg/src/b.gleam".into(), "import a\npub type U { U(a.T) }\npub fn g(x: a.T) { x }\n".into()),
    ]);
    fixed.push(vec![
        ("/ws/pkg/src/a.gleam".into(), "import b.{type U}\npub type T = U\n".into()),
        ("/ws/pkg/src/b.gleam".into(), "import c.{type V}\npub type U = V\n".into()),
        ("/ws/pkg/src/c.gleam".into(), "import a.{type T}\npub type V = T\npub fn f(x: V) -> T { x }\n".into()),
    ]);
    fixed.push(vec![("/ws/pkg/src/a.gleam".into(), "type T = T\ntype U = V\ntype V = U\nfn f(x: T, y: U) { #(x, y) }\n".into())]);
    // byte-identical sibling modules that use each other's (equally named) items
    {
        let twin = "import lib\n\npub type Twin { Twin(name: String) }\n\npub fn main() { lib.helper(Twin(\"x\").name) }\n";
        fixed.push(vec![
            ("/ws/pkg/src/lib.gleam".into(), "pub fn helper(x) { x }\n".into()),
            ("/ws/pkg/src/a.gleam".into(), twin.into()),
            ("/ws/pkg/src/b.gleam".into(), twin.into()),
        ]);
    }
    fixed.push(vec![("/ws/pkg/src/a.gleam".into(), "type L { L(next: L) }\nfn f(l: L) { l.next.next.next }\nfn g() { let x = [x] x }\n".into())]);
    // W0b: long constructs. A chain of thousands of operators / postfix steps / `use`
    // statements nests for everything that walks the program recursively although the parser
    // never recursed for it: queries run on the 2 MiB stack the server's workers have.
    let mut long: Vec<(String, Vec<(String, String)>)> = Vec::new();
    for c in vh::textgen::CHAINS {
        for n in [12_000usize] {
            long.push((format!("chain:{}:{n}", c.name), vec![("/ws/pkg/src/long.gleam".into(), format!("pub fn g(x) {{ x }}\n{}\n", vh::textgen::chain_text(c, n)))]));
        }
    }
    for n in [12_000usize] {
        let mut t = String::from("pub fn f(a) {\n");
        for _ in 0..n {
            t.push_str("  use x <- a\n");
        }
        t.push_str("  a\n}\n");
        long.push((format!("chain:use-statements:{n}"), vec![("/ws/pkg/src/long.gleam".into(), t)]));
    }
    // ... and chains ACROSS definitions: every definition mentions the next one, so whatever
    // is computed per definition by asking for the one it mentions (a callee's type, an alias'
    // expansion, a constant's type) nests once per link when the first is asked first.
    for n in [3_000usize] {
        let chain = |head: &dyn Fn(usize) -> String, last: String, tail: &str| -> String {
            let mut t = String::new();
            for i in 0..n - 1 {
                t.push_str(&head(i));
            }
            t.push_str(&last);
            t.push_str(tail);
            t
        };
        let defs: Vec<(&str, String)> = vec![
            ("fn-calls-next", chain(&|i| format!("pub fn f{i}(x) {{ f{}(x) + {i} }}\n", i + 1), format!("pub fn f{}(x) {{ x }}\n", n - 1), "")),
            ("fn-calls-previous", {
                let mut t = String::from("pub fn f0(x) { x }\n");
                for i in 1..n {
                    t.push_str(&format!("pub fn f{i}(x) {{ f{}(x) + {i} }}\n", i - 1));
                }
                // the caller of the deepest one comes first in the file
                format!("pub fn top(x) {{ f{}(x) }}\n{t}", n - 1)
            }),
            ("alias-of-next", chain(&|i| format!("pub type A{i} = A{}\n", i + 1), format!("pub type A{} = Int\n", n - 1), "pub fn f(x: A0) { x + 1 }\n")),
            ("const-is-next", chain(&|i| format!("pub const c{i} = c{}\n", i + 1), format!("pub const c{} = 1\n", n - 1), "pub fn f() { c0 + 1 }\n")),
            ("type-wraps-next", chain(&|i| format!("pub type T{i} {{ T{i}(inner: T{}) }}\n", i + 1), format!("pub type T{} {{ T{} }}\n", n - 1, n - 1), "pub fn f(x: T0) { x.inner.inner.inner }\n")),
        ];
        for (name, text) in defs {
            long.push((format!("defs:{name}:{n}"), vec![("/ws/pkg/src/long.gleam".into(), text)]));
        }
    }
    for (i, (name, mut files)) in long.into_iter().enumerate() {
        if i % args.nshards != args.shard {
            continue;
        }
        files.push(("/ws/pkg/gleam.toml".into(), "name = \"pkg\"\n".into()));
        let fj = json!({"kind":"generated-long-construct","spec":name});
        journal.begin("long-construct", name.as_bytes());
        let (m, s) = sweep_workspace(&prop, &mut rep, &files, &mut r, if args.thorough() { 24 } else { 4 }, json!({"kind":"workspace","files":files_json(&files),"ops":[name.clone()]}));
        if name.starts_with("defs:") {
            journal.begin("long-construct-edited", name.as_bytes());
            sweep_after_edit(&prop, &mut rep, &files, &mut r, json!({"kind":"workspace","files":files_json(&files),"ops":[name.clone(), "then: declarations prepended, asked again".to_string()]}));
        }
        rep.nontrivial(fnv(fj.to_string().as_bytes()));
        rep.see("damage_ops", "long-construct");
        rep.see("long_constructs", name);
        if m > max_q {
            max_q = m;
            slowest = s;
        }
    }
    for (i, mut files) in fixed.into_iter().enumerate() {
        if i % args.nshards != args.shard {
            continue;
        }
        files.push(("/ws/pkg/gleam.toml".into(), "name = \"pkg\"\n".into()));
        let fj = files_json(&files);
        journal.begin("fixed-hostile", fj.to_string().as_bytes());
        let (m, s) = sweep_workspace(&prop, &mut rep, &files, &mut r, 100_000, json!({"kind":"workspace","files":fj,"ops":["fixed-hostile"]}));
        rep.nontrivial(fnv(fj.to_string().as_bytes()));
        rep.see("damage_ops", "fixed-hostile");
        if m > max_q {
            max_q = m;
            slowest = s;
        }
    }

    // W1: corpus files as single-module workspaces, pristine and mutated (offsets sampled).
    let corpus = vh::corpus();
    for (ci, (name, text)) in corpus.iter().enumerate() {
        if ci % args.nshards != args.shard {
            continue;
        }
        let mut variants = vec![text.clone()];
        let window = |r: &mut Rng, t: &str| -> String {
            if t.len() <= 6000 {
                return t.to_string();
            }
            let mut a = r.below(t.len() - 5000);
            while !t.is_char_boundary(a) {
                a -= 1;
            }
            let mut b = a + 5000;
            while !t.is_char_boundary(b) {
                b -= 1;
            }
            t[a..b].to_string()
        };
        for _ in 0..3 {
            let mut t = window(&mut r, text);
            for _ in 0..r.range(1, 6) {
                t = vh::textgen::mutate(&mut r, &t);
            }
            variants.push(t);
        }
        for t in variants {
            let files = vec![("/ws/pkg/src/corpus.gleam".to_string(), t), ("/ws/pkg/gleam.toml".to_string(), "name = \"pkg\"\n".to_string())];
            let fj = files_json(&files);
            journal.begin("corpus", fj.to_string().as_bytes());
            let (m, s) = sweep_workspace(&prop, &mut rep, &files, &mut r, 250, json!({"kind":"workspace","files":fj,"ops":[format!("corpus:{name}")]}));
            rep.nontrivial(fnv(fj.to_string().as_bytes()));
            rep.see("damage_ops", "corpus");
            if m > max_q {
                max_q = m;
                slowest = s;
            }
        }
    }

    // W2: generated + damaged workspaces until the budget is used.
    let mut n = 0u64;
    while t0.elapsed().as_secs_f64() < args.budget_s {
        let Some(case_seed) = args.next_case(&mut r) else { break };
        let mut cr = Rng::new(case_seed);
        let d = damage::damaged_workspace(&mut cr);
        let fj = files_json(&d.files);
        journal.begin("generated", fj.to_string().as_bytes());
        for op in &d.ops {
            rep.see("damage_ops", op.split(' ').next().unwrap_or("").split(':').next().unwrap_or("").to_string());
        }
        if d.ops.is_empty() {
            rep.see("damage_ops", "none");
        }
        let (m, s) = sweep_workspace(&prop, &mut rep, &d.files, &mut cr, 400, json!({"kind":"workspace","files":fj,"ops":d.ops,"case_seed":case_seed.to_string()}));
        if m > max_q {
            max_q = m;
            slowest = s;
        }
        // non-trivial: at least one damage op or >= 2 modules
        if !d.ops.is_empty() || d.files.len() > 2 {
            rep.nontrivial(fnv(fj.to_string().as_bytes()));
        }
        if rep.samples.len() < 4 && n % 23 == 0 {
            rep.sample(json!({"ops": d.ops, "files": d.files.iter().map(|(p, t)| json!([p, truncate_str(t, 160)])).collect::<Vec<_>>() }));
        }
        n += 1;
    }
    journal.idle();
    rep.count("workspaces[generated+damaged]", n);
    rep.counters.insert("max_query_ms".into(), (max_q * 1000.0) as u64);
    rep.notes.push(format!("slowest query: {slowest}"));
    rep
}

fn replay(args: &Args) -> ! {
    let path = args.get("file").expect("--file");
    let doc: serde_json::Value = serde_json::from_str(&std::fs::read_to_string(path).expect("read")).expect("json");
    let rp = &doc["replay"];
    let files: Vec<(String, String)> = match rp["kind"].as_str() {
        Some("journal") => {
            let v: serde_json::Value = serde_json::from_str(rp["text"].as_str().unwrap_or("[]")).unwrap_or(json!([]));
            v.as_array().map(|a| a.iter().map(|e| (e[0].as_str().unwrap().to_string(), e[1].as_str().unwrap().to_string())).collect()).unwrap_or_default()
        }
        _ => rp["files"].as_array().map(|a| a.iter().map(|e| (e[0].as_str().unwrap().to_string(), e[1].as_str().unwrap().to_string())).collect()).unwrap_or_default(),
    };
    let mut rep = Report::new(&args.prop, 0);
    let mut r = Rng::new(1);
    let prop = args.prop.clone();
    panicmon::on_stack(panicmon::SERVER_STACK, move || {
        sweep_workspace(&prop, &mut rep, &files, &mut r, 1_000_000, json!({}));
        for v in &rep.violations {
            println!("reproduced: {} — {}", v.signature, truncate_str(&v.detail, 400));
        }
        std::process::exit(if rep.violations.is_empty() { 0 } else { 1 })
    })
}

fn main() {
    let argv: Vec<String> = std::env::args().collect();
    panicmon::install();
    if argv.get(1).map(|s| s == "replay").unwrap_or(false) {
        let mut a = Args::parse();
        let rest: Vec<String> = argv[2..].to_vec();
        let mut i = 0;
        while i + 1 < rest.len() {
            match rest[i].as_str() {
                "--prop" => a.prop = rest[i + 1].clone(),
                k => {
                    a.extra.insert(k.trim_start_matches("--").to_string(), rest[i + 1].clone());
                }
            }
            i += 2;
        }
        replay(&a);
    }
    let args = Args::parse();
    assert!(args.prop == "C10" || args.prop == "C20");
    let a2 = args.clone();
    let rep = panicmon::on_stack(panicmon::SERVER_STACK, move || run(a2));
    rep.write(&args.out);
}
