//! Grammar-level monitors.
//!   C04: generated well-formed programs parse error-free and read back (through the
//!        typed accessors) to the structure the generator intended.
//!   C03: damage inside one definition's body leaves every other definition intact and
//!        all errors inside the damaged region.

use serde_json::json;
use std::time::Instant;
use syntax::ast::AstNode;
use syntax::parse_module;
use vh::cstread;
use vh::gen::{self, GenCfg};
use vh::panicmon::{self, Outcome};
use vh::prog::{self, *};
use vh::report::{truncate_str, Args, Journal, Report};
use vh::rng::{fnv, Rng};
use vh::textgen;

fn first_diff_heads(want: &str, got: &str) -> (String, String) {
    let wb = want.as_bytes();
    let gb = got.as_bytes();
    let mut i = 0;
    while i < wb.len() && i < gb.len() && wb[i] == gb[i] {
        i += 1;
    }
    let head = |s: &str, i: usize| -> String {
        let i = i.min(s.len());
        let mut j = i;
        let b = s.as_bytes();
        // back to the enclosing '('
        let mut depth = 0i32;
        while j > 0 {
            j -= 1;
            if b[j] == b')' {
                depth += 1;
            } else if b[j] == b'(' {
                if depth == 0 {
                    break;
                }
                depth -= 1;
            }
        }
        s[j..].split(|c: char| c == ' ' || c == ')').next().unwrap_or("").to_string()
    };
    (head(want, i), head(got, i))
}

fn check_program_text(rep: &mut Report, phase: &str, text: &str, want_sexp: &str, n_items: usize, replay: serde_json::Value) -> bool {
    rep.evaluations += 1;
    let parse = match panicmon::guard(|| parse_module(text)) {
        Outcome::Ok(p) => p,
        Outcome::Panicked(i) => {
            rep.violate(format!("c04-{}", i.signature()), format!("parser panicked on a well-formed program ({phase})"), replay);
            return false;
        }
    };
    let mut ok = true;
    if !parse.errors().is_empty() {
        let e = parse.errors()[0];
        let k = format!("{:?}", e.kind);
        // which construct: the S-expression head of the item containing the error
        let item_kind = parse
            .root()
            .statements()
            .find(|s| s.syntax().text_range().contains_inclusive(e.range.start()))
            .map(|s| format!("{:?}", s.syntax().kind()))
            .unwrap_or_else(|| "outside-item".into());
        let a = usize::from(e.range.start());
        let ctx_a = a.saturating_sub(40);
        let mut ca = ctx_a;
        while !text.is_char_boundary(ca) {
            ca -= 1;
        }
        let mut cb = (a + 30).min(text.len());
        while !text.is_char_boundary(cb) {
            cb -= 1;
        }
        rep.violate(
            format!("syntax-error-on-wellformed:{}:{}", k.split('(').next().unwrap_or(""), item_kind),
            format!("{} errors; first {:?} near {:?}", parse.errors().len(), e, &text[ca..cb]),
            replay.clone(),
        );
        ok = false;
    }
    let got = cstread::read_module(&parse.root());
    if ok && got != want_sexp {
        // find the first differing item
        let mut sig = String::from("structure:item-count");
        let mut detail = format!("want {} items, got {}", want_sexp.lines().count(), got.lines().count());
        for (w, g) in want_sexp.lines().zip(got.lines()) {
            if w != g {
                let (hw, hg) = first_diff_heads(w, g);
                sig = format!("structure:want={hw}:got={hg}");
                detail = format!("WANT {}\nGOT  {}", truncate_str(w, 1500), truncate_str(g, 1500));
                break;
            }
        }
        rep.violate(sig, detail, replay.clone());
        ok = false;
    }
    if ok && parse.root().statements().count() != n_items {
        rep.violate("structure:item-count", format!("want {} items", n_items), replay.clone());
        ok = false;
    }
    for (sig, detail) in cstread::accessor_checks(&parse.syntax_node()) {
        rep.violate(sig, detail, replay.clone());
        ok = false;
    }
    ok
}

fn fn_wrap(e: Expr) -> Module {
    let mut body = vec![Stmt::Expr(e)];
    gen::normalise_stmts(&mut body);
    Module {
        name: "m".into(),
        header_doc: vec![],
        items: vec![Item {
            attrs: vec![],
            doc: vec![],
            kind: ItemKind::Func(Func { public: false, name: Ident::plain("f"), params: vec![], ret: None, body: Some(body) }),
        }],
    }
}

fn v(n: &str) -> Expr {
    Expr::Var(Ident::plain(n))
}

#[derive(Clone, Copy, PartialEq, Eq, Debug)]
enum Op {
    Bin(BinOp),
    Pipe,
}

fn mk(op: Op, l: Expr, r: Expr) -> Expr {
    match op {
        Op::Bin(b) => Expr::Bin(b, Box::new(l), Box::new(r)),
        Op::Pipe => Expr::Pipe(Box::new(l), Box::new(r)),
    }
}

fn run_c04(args: &Args) -> Report {
    let mut rep = Report::new("C04", args.shard);
    let mut ops: Vec<Op> = ALL_BINOPS.iter().map(|b| Op::Bin(*b)).collect();
    ops.push(Op::Pipe);
    // W1: operator pairs and triples, both association orders, with prefix/postfix atoms.
    let atoms: Vec<Box<dyn Fn() -> Expr>> = vec![
        Box::new(|| v("a")),
        Box::new(|| Expr::Neg(Box::new(v("a")))),
        Box::new(|| Expr::Not(Box::new(v("a")))),
        Box::new(|| Expr::Call(Box::new(v("g")), vec![Arg { label: None, value: v("a") }])),
        Box::new(|| Expr::Field(Box::new(v("r")), Ident::plain("name"))),
        Box::new(|| Expr::TupleIndex(Box::new(v("t")), 0)),
    ];
    let mut k = 0usize;
    let mut n_w1 = 0u64;
    for (i1, o1) in ops.iter().enumerate() {
        for (i2, o2) in ops.iter().enumerate() {
            // pairs: (a o1 b) o2 c and a o1 (b o2 c)
            let shapes: Vec<Expr> = vec![
                mk(*o2, mk(*o1, v("a"), v("b")), v("c")),
                mk(*o1, v("a"), mk(*o2, v("b"), v("c"))),
                mk(*o1, atoms[(i1 + i2) % atoms.len()](), mk(*o2, atoms[(i1 * 3 + i2) % atoms.len()](), v("c"))),
                Expr::Neg(Box::new(mk(*o1, v("a"), v("b")))),
                mk(*o1, Expr::Not(Box::new(v("a"))), Expr::Neg(Box::new(mk(*o2, v("b"), v("c"))))),
            ];
            for e in shapes {
                k += 1;
                if k % args.nshards != args.shard {
                    continue;
                }
                let m = fn_wrap(e);
                let p = print_module(&m, None, Trivia::Plain, false);
                let want = sexp_module(&m);
                check_program_text(&mut rep, "op-pairs", &p.text, &want, 1, json!({"kind":"text","phase":"op-pairs","text":p.text,"want":want}));
                rep.nontrivial(fnv(p.text.as_bytes()));
                rep.see("operator_pairs", format!("{:?}/{:?}", o1, o2));
                n_w1 += 1;
            }
            for o3 in ops.iter() {
                let shapes: Vec<Expr> = vec![
                    mk(*o3, mk(*o2, mk(*o1, v("a"), v("b")), v("c")), v("d")),
                    mk(*o1, v("a"), mk(*o2, v("b"), mk(*o3, v("c"), v("d")))),
                    mk(*o2, mk(*o1, v("a"), v("b")), mk(*o3, v("c"), v("d"))),
                    mk(*o1, v("a"), mk(*o3, mk(*o2, v("b"), v("c")), v("d"))),
                    mk(*o3, mk(*o1, v("a"), mk(*o2, v("b"), v("c"))), v("d")),
                ];
                for e in shapes {
                    k += 1;
                    if k % args.nshards != args.shard {
                        continue;
                    }
                    let m = fn_wrap(e);
                    let p = print_module(&m, None, Trivia::Plain, false);
                    let want = sexp_module(&m);
                    check_program_text(&mut rep, "op-triples", &p.text, &want, 1, json!({"kind":"text","phase":"op-triples","text":p.text,"want":want}));
                    rep.nontrivial(fnv(p.text.as_bytes()));
                    n_w1 += 1;
                }
            }
        }
    }
    rep.count("cases[operator pairs+triples, exhaustive]", n_w1);

    // W1b: string literals. Every sequence of up to four pieces over {plain, escaped
    // backslash, escaped quote, escape, space, non-ASCII, raw newline, unicode escape} as the
    // content of a literal that is followed by more code: the literal must end at ITS
    // closing quote (an escaped backslash before the quote is where lexers slip).
    {
        let pieces: [&str; 8] = ["a", "\\\\", "\\\"", "\\n", " ", "\u{e9}", "\n", "\\u{1F600}"];
        let mut n = 0u64;
        let mut idx = vec![0usize; 0];
        // enumerate by length
        for len in 0..=4usize {
            idx.clear();
            idx.resize(len, 0);
            loop {
                k += 1;
                if k % args.nshards == args.shard {
                    let content: String = idx.iter().map(|&i| pieces[i]).collect();
                    let e = Expr::Tuple(vec![Expr::Str(content.clone()), Expr::Str("x".into()), v("a")]);
                    let m = fn_wrap(e);
                    let p = print_module(&m, None, Trivia::Plain, false);
                    let want = sexp_module(&m);
                    check_program_text(&mut rep, "string-literals", &p.text, &want, 1, json!({"kind":"text","phase":"string-literals","text":p.text,"want":want}));
                    rep.nontrivial(fnv(p.text.as_bytes()));
                    for &i in &idx {
                        rep.see("string_pieces", pieces[i].escape_default().to_string());
                    }
                    n += 1;
                }
                // next
                let mut j = len;
                loop {
                    if j == 0 {
                        break;
                    }
                    j -= 1;
                    idx[j] += 1;
                    if idx[j] < pieces.len() {
                        break;
                    }
                    idx[j] = 0;
                    if j == 0 {
                        j = usize::MAX;
                        break;
                    }
                }
                if len == 0 || j == usize::MAX {
                    break;
                }
            }
        }
        rep.count("cases[string literal contents, exhaustive up to 4 pieces]", n);
    }
    rep.exhaustive = Some(true);

    // W2: random programs with wild trivia.
    let mut r = Rng::derive(args.seed, args.shard as u64, 4);
    let t0 = Instant::now();
    let mut n_w2 = 0u64;
    while t0.elapsed().as_secs_f64() < args.budget_s {
        // one case in 600 is a LARGE module (hundreds of definitions, thousands of calls,
        // operators and field accesses in total): whatever the parser counts per module
        // rather than per nesting path shows only there
        let large = r.chance(1, 600);
        let cfg = GenCfg {
            modules: if large { 1 } else { r.range(1, 3) },
            max_items: r.range(3, 9),
            max_depth: if large { 2 } else { r.range(1, 4) },
            holes: false,
            non_core: true,
            trivia: if r.chance(3, 4) { Trivia::Wild } else { Trivia::Plain },
            non_ascii: r.chance(1, 2),
        };
        let Some(case_seed) = args.next_case(&mut r) else { break };
        let mut cr = Rng::new(case_seed);
        let mut ws = gen::generate(&mut cr, &cfg);
        if large {
            // the generator's name pools are small: a large module is the definitions of 250-500
            // generated modules in one file (equal names are not the parser's business)
            let mut items = std::mem::take(&mut ws.modules[0].items);
            for _ in 0..cr.range(250, 500) {
                let small = GenCfg { modules: 1, max_items: cr.range(3, 9), max_depth: 2, ..cfg.clone() };
                let mut more = gen::generate(&mut cr, &small);
                items.append(&mut more.modules[0].items);
            }
            ws.modules.truncate(1);
            ws.modules[0].items = items;
            let printed = print_module(&ws.modules[0], Some(&mut cr), cfg.trivia, cfg.non_ascii);
            ws.printed = vec![printed];
            rep.count("cases[large modules: the definitions of 250-500 generated modules in one file]", 1);
            rep.count("large_module_bytes", ws.printed[0].text.len() as u64);
        }
        for (mi, m) in ws.modules.iter().enumerate() {
            let want = sexp_module(m);
            let text = &ws.printed[mi].text;
            let ok = check_program_text(
                &mut rep,
                "generated",
                text,
                &want,
                m.items.len(),
                json!({"kind":"generated","case_seed":case_seed.to_string(),"cfg":format!("{cfg:?}"),"module":mi,"text":text}),
            );
            if ok {
                for w in want.split(|c: char| c == '(').filter_map(|s| s.split(|c: char| c == ' ' || c == ')').next()) {
                    if !w.is_empty() && w.chars().all(|c| c.is_ascii_lowercase()) {
                        rep.see("constructs_read_back", w.to_string());
                    }
                }
            }
            if m.items.iter().any(|i| matches!(&i.kind, ItemKind::Func(f) if f.body.is_some())) {
                rep.nontrivial(fnv(text.as_bytes()));
            }
            if rep.samples.len() < 4 && n_w2 % 37 == 0 {
                rep.sample(json!({"phase":"generated","text":truncate_str(text, 400)}));
            }
            n_w2 += 1;
        }
    }
    rep.count("cases[generated programs]", n_w2);
    rep
}

// ----------------------------------------------------------------------------------
// C03

const INSERTABLE: &[&str] = &[
    "fn", "pub", "type", "const", "import", "use", "let", "case", "if", "as", "opaque", "assert", "todo", "panic", "external",
    "x", "Xy", "_d", "1", "1.5", "\"s\"", "\"\\\\\"", "\"a\\\\\"", "\"\\\\\\\"\"", "\"\\\"\"", "\"a\\\\\\\"b\\\\\"", "+", "-", "*", "/", "<", ">", "<=", ">=", "==", "!=", "&&", "||", "|>", "<>", ".", "..",
    "->", "<-", "|", ":", ",", "=", "!", "%", "@", ")", "]", ">>", "$", "~", "ß", "\r",
];

#[derive(Clone, Debug)]
struct ItemObs {
    kind: String,
    name: String,
    text: String,
    start: usize,
    end: usize,
}

fn observe_items(text: &str) -> Option<(Vec<ItemObs>, Vec<(usize, usize, String)>, Vec<(usize, usize)>)> {
    let parse = match panicmon::guard(|| parse_module(text)) {
        Outcome::Ok(p) => p,
        Outcome::Panicked(_) => return None,
    };
    let root = parse.root();
    let mut items = Vec::new();
    for st in root.statements() {
        let n = st.syntax();
        let name = match &st {
            syntax::ast::ModuleStatement::Function(f) => f.name().and_then(|n| n.text()).map(|s| s.to_string()),
            syntax::ast::ModuleStatement::Adt(a) => a.name().and_then(|n| n.text()).map(|s| s.to_string()),
            syntax::ast::ModuleStatement::TypeAlias(a) => a.name().and_then(|n| n.text()).map(|s| s.to_string()),
            syntax::ast::ModuleStatement::ModuleConstant(c) => c.name().and_then(|n| n.text()).map(|s| s.to_string()),
            syntax::ast::ModuleStatement::Import(i) => Some(
                i.module_path()
                    .into_iter()
                    .flat_map(|m| m.path())
                    .filter_map(|p| p.token().map(|t| t.text().to_string()))
                    .collect::<Vec<_>>()
                    .join("/"),
            ),
        };
        let r = n.text_range();
        items.push(ItemObs {
            kind: format!("{:?}", n.kind()),
            name: name.unwrap_or_else(|| "?".into()),
            text: n.text().to_string(),
            start: r.start().into(),
            end: r.end().into(),
        });
    }
    let errors = parse.errors().iter().map(|e| (usize::from(e.range.start()), usize::from(e.range.end()), format!("{:?}", e.kind))).collect();
    // top-level ERROR nodes / stray nodes
    let mut stray = Vec::new();
    for c in root.syntax().children() {
        if syntax::ast::ModuleStatement::cast(c.clone()).is_none() {
            let r = c.text_range();
            stray.push((usize::from(r.start()), usize::from(r.end())));
        }
    }
    Some((items, errors, stray))
}

struct Base {
    text: String,
    items: Vec<ItemObs>,
    /// victims: (item index, body inner start, body inner end)
    victims: Vec<(usize, usize, usize)>,
}

fn make_base(text: String, bodies: Vec<(usize, usize)>) -> Option<Base> {
    let (items, errors, stray) = observe_items(&text)?;
    if !errors.is_empty() || !stray.is_empty() || items.len() < 2 {
        return None;
    }
    let mut victims = Vec::new();
    for (a, b) in bodies {
        if let Some(ix) = items.iter().position(|it| it.start <= a && b <= it.end && (it.kind == "FUNCTION" || it.kind == "ADT")) {
            victims.push((ix, a, b));
        }
    }
    if victims.is_empty() {
        return None;
    }
    Some(Base { text, items, victims })
}

/// Apply edits (sorted by position, non-overlapping) to `text`.
fn apply_edits(text: &str, edits: &[(usize, usize, String)]) -> String {
    let mut out = String::with_capacity(text.len() + 16);
    let mut pos = 0;
    for (a, b, ins) in edits {
        out.push_str(&text[pos..*a]);
        out.push_str(ins);
        pos = *b;
    }
    out.push_str(&text[pos..]);
    out
}

fn check_damage(rep: &mut Report, base: &Base, victim: (usize, usize, usize), edits: &[(usize, usize, String)], class: &str) {
    rep.evaluations += 1;
    let damaged = apply_edits(&base.text, edits);
    let delta: isize = damaged.len() as isize - base.text.len() as isize;
    let replay = json!({"kind":"damage","base":base.text,"edits":edits.iter().map(|(a,b,s)| json!([a,b,s])).collect::<Vec<_>>(),"damaged":damaged,"victim":base.items[victim.0].name});
    let Some((items, errors, stray)) = observe_items(&damaged) else {
        rep.inconclusive += 1;
        rep.count("parser_panicked(C02's business)", 1);
        return;
    };
    rep.nontrivial(fnv(damaged.as_bytes()));
    rep.see("damage_classes", class.to_string());
    let vi = victim.0;
    let vstart = base.items[vi].start;
    let region_end: usize = if vi + 1 < base.items.len() { (base.items[vi + 1].start as isize + delta) as usize } else { damaged.len() + 1 };
    let last = vi + 1 == base.items.len();
    // (a) untouched items appear, in order, with kind/name/text, at shifted positions
    let mut cursor = 0usize;
    for (i, it) in base.items.iter().enumerate() {
        if i == vi {
            continue;
        }
        let want_start = if i < vi { it.start } else { (it.start as isize + delta) as usize };
        let found = items[cursor..].iter().position(|x| x.start == want_start && x.kind == it.kind && x.name == it.name && x.text == it.text);
        match found {
            Some(p) => cursor += p + 1,
            None => {
                // describe what is at that place instead
                let at = items.iter().find(|x| x.start <= want_start && want_start < x.end);
                let what = match at {
                    Some(x) if x.start != want_start => format!("swallowed-into:{}", x.kind),
                    Some(x) if x.kind != it.kind => format!("kind-changed:{}->{}", it.kind, x.kind),
                    Some(x) if x.name != it.name => "name-changed".to_string(),
                    Some(_) => "text-changed".to_string(),
                    None => "missing".to_string(),
                };
                let dir = if i < vi { "before" } else { "after" };
                rep.violate(
                    format!("untouched-item-disturbed:{}:{}:{}:victim={}", it.kind, dir, what, base.items[vi].kind),
                    format!("item `{}` ({}) no longer recognised intact; victim `{}`", it.name, it.kind, base.items[vi].name),
                    replay.clone(),
                );
                return;
            }
        }
    }
    // (b) errors inside the damaged region
    for (a, b, kind) in &errors {
        let inside = *a >= vstart && (*b <= region_end.min(damaged.len()) && *a < region_end || (last && *a == damaged.len()));
        if !inside {
            let k = kind.split('(').next().unwrap_or("").to_string();
            let wher = if *a < vstart { "before-victim" } else { "in-following-item" };
            rep.violate(
                format!("error-outside-damaged-region:{}:{}:victim={}", k, wher, base.items[vi].kind),
                format!("error {kind} at {a}..{b}, damaged region {vstart}..{region_end}"),
                replay.clone(),
            );
            return;
        }
    }
    // (c) stray top-level nodes only inside the damaged region
    for (a, b) in &stray {
        if *a < vstart || *b > region_end.min(damaged.len()) {
            rep.violate(
                format!("stray-node-outside-damaged-region:victim={}", base.items[vi].kind),
                format!("top-level non-item node at {a}..{b}, damaged region {vstart}..{region_end}"),
                replay.clone(),
            );
            return;
        }
    }
    // extra items only inside the damaged region
    for x in &items {
        let is_untouched = base.items.iter().enumerate().any(|(i, it)| i != vi && it.text == x.text && it.kind == x.kind);
        if !is_untouched && (x.start < vstart || x.end > region_end.min(damaged.len())) {
            rep.violate(
                format!("extra-item-outside-damaged-region:{}:victim={}", x.kind, base.items[vi].kind),
                format!("item {} `{}` at {}..{} outside {vstart}..{region_end}", x.kind, x.name, x.start, x.end),
                replay.clone(),
            );
            return;
        }
    }
    if !errors.is_empty() {
        rep.count("damage_reported_as_errors", 1);
    } else {
        rep.count("damage_still_parses_clean", 1);
    }
}

fn tok_class(t: &str) -> &'static str {
    match t {
        "fn" | "pub" | "type" | "const" | "import" => "item-keyword",
        "use" | "let" | "case" | "if" | "as" | "opaque" | "assert" | "todo" | "panic" | "external" => "keyword",
        "x" | "Xy" | "_d" => "identifier",
        "1" | "1.5" => "literal",
        t if t.starts_with('"') => "literal",
        ")" | "]" | ">>" => "closer",
        "," | ":" | "." | ".." | "->" | "<-" | "|" | "=" => "separator",
        "@" => "at",
        "$" | "~" | "ß" | "\r" => "lexer-error",
        _ => "operator",
    }
}

fn run_c03(args: &Args) -> Report {
    let mut rep = Report::new("C03", args.shard);
    let mut journal = Journal::open(&args.out, "C03", args.shard);
    let thorough = args.thorough();
    // base pool: generated programs (plain and wild trivia); fixed pool seed so that the
    // k=1 enumeration is the same space for every VERIF_SEED, plus seed-dependent extras.
    let mut bases: Vec<Base> = Vec::new();
    let pool = if thorough { 120 } else { 40 };
    let mut pr = Rng::new(0xC03);
    let mut tries = 0;
    while bases.len() < pool && tries < pool * 20 {
        tries += 1;
        let cfg = GenCfg {
            modules: 1,
            max_items: pr.range(3, 8),
            max_depth: pr.range(1, 3),
            holes: false,
            non_core: true,
            trivia: if pr.chance(1, 2) { Trivia::Wild } else { Trivia::Plain },
            non_ascii: pr.chance(1, 3),
        };
        let ws = gen::generate(&mut pr, &cfg);
        let p = &ws.printed[0];
        let bodies: Vec<(usize, usize)> = p.items.iter().filter_map(|i| i.body).collect();
        if let Some(b) = make_base(p.text.clone(), bodies) {
            bases.push(b);
        }
    }
    rep.count("base_files", if args.shard == 0 { bases.len() as u64 } else { 0 });

    // k = 1, exhaustive over the pool: victim x token position x (delete | insert c | replace c)
    let mut k = 0usize;
    let mut n1 = 0u64;
    for base in &bases {
        for &victim in &base.victims {
            let (_, a, b) = victim;
            let body = &base.text[a..b];
            let toks: Vec<(usize, usize)> = textgen::rough_tokens(body).into_iter().map(|(x, y)| (a + x, a + y)).collect();
            for (ti, &(ta, tb)) in toks.iter().enumerate() {
                let ttext = &base.text[ta..tb];
                let is_ws = ttext.trim().is_empty();
                let is_brace = ttext == "{" || ttext == "}";
                // positions: before every token (insert), every non-brace token (delete/replace)
                k += 1;
                if k % args.nshards != args.shard {
                    continue;
                }
                journal.begin("k1", base.text.as_bytes());
                for ins in INSERTABLE {
                    let s = format!(" {ins} ");
                    check_damage(&mut rep, base, victim, &[(ta, ta, s)], &format!("insert:{}", tok_class(ins)));
                    n1 += 1;
                }
                if !is_ws && !is_brace {
                    // deleting an opener leaves its closer behind (allowed); deleting a
                    // comment or string token is allowed as well.
                    check_damage(&mut rep, base, victim, &[(ta, tb, String::new())], "delete");
                    n1 += 1;
                    for ins in INSERTABLE {
                        check_damage(&mut rep, base, victim, &[(ta, tb, format!(" {ins} "))], &format!("replace:{}", tok_class(ins)));
                        n1 += 1;
                    }
                }
                let _ = ti;
            }
        }
    }
    rep.count("cases[k=1 exhaustive over base pool]", n1);
    rep.exhaustive = Some(true);

    // k > 1: sampled
    let kmax = if thorough { 5 } else { 3 };
    let mut r = Rng::derive(args.seed, args.shard as u64, 3);
    let t0 = Instant::now();
    let mut nk = 0u64;
    // seed-dependent extra bases
    let mut extra: Vec<Base> = Vec::new();
    for _ in 0..12 {
        let cfg = GenCfg { modules: 1, max_items: r.range(3, 8), max_depth: r.range(1, 3), holes: false, non_core: true, trivia: Trivia::Wild, non_ascii: true };
        let ws = gen::generate(&mut r, &cfg);
        let p = &ws.printed[0];
        let bodies: Vec<(usize, usize)> = p.items.iter().filter_map(|i| i.body).collect();
        if let Some(b) = make_base(p.text.clone(), bodies) {
            extra.push(b);
        }
    }
    while t0.elapsed().as_secs_f64() < args.budget_s {
        let base = if !extra.is_empty() && r.chance(1, 3) { &extra[r.below(extra.len())] } else { &bases[r.below(bases.len())] };
        let victim = base.victims[r.below(base.victims.len())];
        let (_, a, b) = victim;
        let toks: Vec<(usize, usize)> = textgen::rough_tokens(&base.text[a..b]).into_iter().map(|(x, y)| (a + x, a + y)).collect();
        if toks.is_empty() {
            continue;
        }
        let ke = r.range(2, kmax);
        let mut edits: Vec<(usize, usize, String)> = Vec::new();
        let mut classes: Vec<String> = Vec::new();
        let mut used: Vec<usize> = Vec::new();
        for _ in 0..ke {
            let ti = r.below(toks.len());
            if used.contains(&ti) {
                continue;
            }
            used.push(ti);
            let (ta, tb) = toks[ti];
            let ttext = &base.text[ta..tb];
            let is_ws = ttext.trim().is_empty();
            let is_brace = ttext == "{" || ttext == "}";
            let ins = *r.pick(INSERTABLE);
            match r.below(3) {
                0 => {
                    edits.push((ta, ta, format!(" {ins} ")));
                    classes.push(format!("insert:{}", tok_class(ins)));
                }
                1 if !is_ws && !is_brace => {
                    edits.push((ta, tb, String::new()));
                    classes.push("delete".into());
                }
                _ if !is_ws && !is_brace => {
                    edits.push((ta, tb, format!(" {ins} ")));
                    classes.push(format!("replace:{}", tok_class(ins)));
                }
                _ => {
                    edits.push((ta, ta, format!(" {ins} ")));
                    classes.push(format!("insert:{}", tok_class(ins)));
                }
            }
        }
        let mut order: Vec<usize> = (0..edits.len()).collect();
        order.sort_by_key(|&i| (edits[i].0, edits[i].1));
        let edits: Vec<(usize, usize, String)> = order.iter().map(|&i| edits[i].clone()).collect();
        let mut cls: Vec<String> = order.iter().map(|&i| classes[i].clone()).collect();
        cls.sort();
        cls.dedup();
        journal.begin("k>1", base.text.as_bytes());
        check_damage(&mut rep, base, victim, &edits, &format!("multi[{}]", cls.join("+")));
        nk += 1;
        if rep.samples.len() < 4 && nk % 997 == 1 {
            rep.sample(json!({"victim": base.items[victim.0].name, "edits": edits.iter().map(|(a,b,s)| json!([a,b,s])).collect::<Vec<_>>(), "file_bytes": base.text.len()}));
        }
    }
    rep.count("cases[k>1 sampled]", nk);
    journal.idle();
    rep
}

fn replay(args: &Args) -> ! {
    let path = args.get("file").expect("--file");
    let doc: serde_json::Value = serde_json::from_str(&std::fs::read_to_string(path).expect("read")).expect("json");
    let rp = &doc["replay"];
    let mut rep = Report::new(&args.prop, 0);
    match args.prop.as_str() {
        "C04" => {
            let text = rp["text"].as_str().unwrap_or("");
            let want = rp["want"].as_str();
            match want {
                Some(w) => {
                    check_program_text(&mut rep, "replay", text, w, w.lines().count(), rp.clone());
                }
                None => {
                    // generated case: regenerate from the case seed is not needed, the text and
                    // the accessor/error checks are replayable without the intended structure
                    let parse = parse_module(text);
                    if !parse.errors().is_empty() {
                        rep.violate("syntax-error-on-wellformed", format!("{:?}", parse.errors()), rp.clone());
                    }
                    for (s, d) in cstread::accessor_checks(&parse.syntax_node()) {
                        rep.violate(s, d, rp.clone());
                    }
                }
            }
        }
        _ => {
            let base_text = rp["base"].as_str().unwrap_or("").to_string();
            let edits: Vec<(usize, usize, String)> = rp["edits"]
                .as_array()
                .map(|a| a.iter().map(|e| (e[0].as_u64().unwrap() as usize, e[1].as_u64().unwrap() as usize, e[2].as_str().unwrap().to_string())).collect())
                .unwrap_or_default();
            if let Some((items, _, _)) = observe_items(&base_text) {
                let first = edits.first().map(|e| e.0).unwrap_or(0);
                if let Some(ix) = items.iter().position(|it| it.start <= first && first <= it.end) {
                    let base = Base { text: base_text.clone(), items: items.clone(), victims: vec![(ix, items[ix].start, items[ix].end)] };
                    check_damage(&mut rep, &base, base.victims[0], &edits, "replay");
                }
            }
        }
    }
    for v in &rep.violations {
        println!("reproduced: {} — {}", v.signature, truncate_str(&v.detail, 600));
    }
    std::process::exit(if rep.violations.is_empty() { 0 } else { 1 })
}

fn main() {
    let argv: Vec<String> = std::env::args().collect();
    let args = if argv.get(1).map(|s| s == "replay").unwrap_or(false) {
        let mut a = Args::parse();
        // Args::parse treats "replay" as a key; re-parse from position 2
        let rest: Vec<String> = argv[2..].to_vec();
        let mut i = 0;
        while i + 1 < rest.len() {
            match rest[i].as_str() {
                "--prop" => a.prop = rest[i + 1].clone(),
                k => {
                    a.extra.insert(k.trim_start_matches("--").to_string(), rest[i + 1].clone());
                }
            }
            i += 2;
        }
        panicmon::install();
        replay(&a);
    } else {
        Args::parse()
    };
    panicmon::install();
    let rep = match args.prop.as_str() {
        "C04" => run_c04(&args),
        "C03" => run_c03(&args),
        p => panic!("m_gram serves C03 and C04, not {p}"),
    };
    rep.write(&args.out);
    let _ = prog::PIPE_PREC;
}
