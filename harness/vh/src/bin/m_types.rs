//! C09: hover types on well-typed generated programs equal the types the generator
//! constructed (type variables up to bijective renaming).
//!
//! Oracle: by-construction types. Every binder (parameter, let variable, pattern variable,
//! use binder, lambda parameter) and every function was generated *for* a type; hover at
//! its declaration must print exactly that type. The polymorphic library helpers have
//! hand-written most-general signatures and are compared up to renaming.

use ide::{FileId, FilePos};
use serde_json::json;
use std::time::Instant;
use syntax::TextSize;
use vh::panicmon::{self, Outcome};
use vh::report::{truncate_str, Args, Journal, Report};
use vh::rng::{fnv, Rng};
use vh::tgen::{self, TypedWorkspace};
use vh::ws;

fn files_json(files: &[(String, String)]) -> serde_json::Value {
    json!(files.iter().map(|(p, t)| json!([p, t])).collect::<Vec<_>>())
}

/// First line inside the ```gleam fence.
fn hover_type(markup: &str) -> Option<&str> {
    let rest = markup.strip_prefix("```gleam\n")?;
    let end = rest.find("\n```")?;
    Some(&rest[..end])
}

fn classify(got: &str) -> &'static str {
    if got.contains('?') {
        "contains-unknown"
    } else if got.split(|c: char| !(c.is_ascii_alphanumeric() || c == '_')).any(|w| !w.is_empty() && w != "fn" && w.chars().next().unwrap().is_ascii_lowercase()) {
        "too-generic-or-wrong-variable"
    } else {
        "different-concrete-type"
    }
}

fn hover_at(an: &ide::Analysis, file: FileId, pos: usize) -> Outcome<Option<String>> {
    panicmon::guard(|| match an.hover(FilePos::new(file, TextSize::from(pos as u32))) {
        Ok(Some(h)) => Some(h.markup),
        Ok(None) => None,
        Err(_) => None,
    })
}

fn run_case(rep: &mut Report, tw: &TypedWorkspace, case_seed: u64) {
    let files = tw.files();
    let loaded = ws::load_single(&files);
    let an = loaded.host.snapshot();
    let replay = json!({"kind":"typed-workspace","files":files_json(&files),"case_seed":case_seed.to_string()});
    for f in &tw.features {
        rep.see("features", *f);
    }
    rep.count("modules", tw.modules.len() as u64);
    let mut h = fnv(b"c09");
    for e in &tw.expectations {
        let file = loaded.file_by_path(&tw.path_of(e.module)).unwrap();
        let Some(&(_, _, name)) = tw.printed[e.module].decl_ranges.iter().find(|d| d.0 == e.decl) else {
            rep.count("expectations_without_printed_declaration(harness)", 1);
            continue;
        };
        rep.evaluations += 1;
        rep.see("binder_kinds", e.what);
        h = vh::rng::fnv_mix(h, e.ty.as_bytes());
        let text = &tw.texts[e.module];
        let mut rp = replay.clone();
        rp["binder"] = json!({"module": e.module, "name": &text[name.0..name.1], "range": [name.0, name.1], "what": e.what, "expected": e.ty});
        let got = match hover_at(&an, file, name.0) {
            Outcome::Ok(g) => g,
            Outcome::Panicked(p) => {
                rep.count("hover_panicked(C10's business)", 1);
                rep.see("panics_seen", p.signature());
                continue;
            }
        };
        let Some(markup) = got else {
            rep.violate(format!("no-hover:{}", e.what), format!("hover on `{}` ({}) returns nothing; expected {}", &text[name.0..name.1], e.what, e.ty), rp);
            continue;
        };
        let Some(shown) = hover_type(&markup) else {
            rep.violate(format!("hover-unparseable:{}", e.what), format!("markup {markup:?}"), rp);
            continue;
        };
        if shown == e.ty {
            rep.count("types_equal", 1);
            rep.see("type_shapes", shape(&e.ty));
        } else {
            rep.violate(
                format!("type-wrong:{}:{}", e.what, classify(shown)),
                format!("hover on `{}` ({}) shows `{}`, constructed type is `{}`", &text[name.0..name.1], e.what, shown, e.ty),
                rp,
            );
        }
    }
    // polymorphic helpers
    for p in &tw.poly {
        let file = loaded.file_by_path(&tw.path_of(p.module)).unwrap();
        let text = &tw.texts[p.module];
        let needle = format!("fn {}(", p.name);
        let Some(at) = text.find(&needle) else { continue };
        let pos = at + 3;
        rep.evaluations += 1;
        let mut rp = replay.clone();
        rp["binder"] = json!({"module": p.module, "name": p.name, "range": [pos, pos + p.name.len()], "what": "polymorphic-helper", "expected": p.sig});
        let got = match hover_at(&an, file, pos) {
            Outcome::Ok(g) => g,
            Outcome::Panicked(pi) => {
                rep.count("hover_panicked(C10's business)", 1);
                rep.see("panics_seen", pi.signature());
                continue;
            }
        };
        let Some(markup) = got else {
            rep.violate("no-hover:polymorphic-helper", format!("hover on `{}` returns nothing", p.name), rp);
            continue;
        };
        let Some(shown) = hover_type(&markup) else {
            rep.violate("hover-unparseable:polymorphic-helper", format!("markup {markup:?}"), rp);
            continue;
        };
        // `fn name(..) -> r`  =>  `fn(..) -> r`
        let stripped = shown.replacen(&format!("fn {}(", p.name), "fn(", 1);
        if tgen::equal_up_to_renaming(&stripped, &p.sig) {
            rep.count("polymorphic_signatures_equal_up_to_renaming", 1);
            rep.see("polymorphic_helpers_checked", p.name.clone());
        } else {
            rep.violate(
                format!("type-wrong:polymorphic-helper:{}", p.name),
                format!("hover on `{}` shows `{}`, most general type is `{}` (up to renaming)", p.name, stripped, p.sig),
                rp,
            );
        }
    }
    rep.nontrivial(h);
}

fn shape(t: &str) -> String {
    // outermost constructor
    let end = t.find(|c: char| c == '(' || c == ' ').unwrap_or(t.len());
    let head = &t[..end];
    if t.starts_with("#(") {
        "tuple".into()
    } else if t.starts_with("fn(") {
        "function".into()
    } else {
        head.to_string()
    }
}

fn run(args: Args) -> Report {
    let mut rep = Report::new(&args.prop, args.shard);
    let mut journal = Journal::open(&args.out, &args.prop, args.shard);
    let mut r = Rng::derive(args.seed, args.shard as u64, 90);
    let t0 = Instant::now();
    let mut n = 0u64;
    while t0.elapsed().as_secs_f64() < args.budget_s {
        let case_seed = r.next_u64();
        let mut cr = Rng::new(case_seed);
        let tw = tgen::generate(&mut cr);
        journal.begin("c09", files_json(&tw.files()).to_string().as_bytes());
        run_case(&mut rep, &tw, case_seed);
        if rep.samples.len() < 3 && n % 23 == 0 {
            rep.sample(json!({"case_seed": case_seed.to_string(), "module0": truncate_str(&tw.texts[0], 400)}));
        }
        n += 1;
    }
    rep.count("workspaces", n);
    journal.idle();
    rep
}

fn replay(path: &str) -> ! {
    let doc: serde_json::Value = serde_json::from_str(&std::fs::read_to_string(path).expect("replay file")).expect("json");
    let rp = &doc["replay"];
    let files: Vec<(String, String)> = rp["files"].as_array().expect("files").iter().map(|e| (e[0].as_str().unwrap().to_string(), e[1].as_str().unwrap().to_string())).collect();
    let b = &rp["binder"];
    let module_path = files[b["module"].as_u64().unwrap() as usize].0.clone();
    let pos = b["range"][0].as_u64().unwrap() as usize;
    let expected = b["expected"].as_str().unwrap().to_string();
    let name = b["name"].as_str().unwrap().to_string();
    let poly = b["what"].as_str() == Some("polymorphic-helper");
    let code = panicmon::on_stack(16 << 20, move || {
        let loaded = ws::load_single(&files);
        let an = loaded.host.snapshot();
        let file = loaded.file_by_path(&module_path).unwrap();
        let got = match hover_at(&an, file, pos) {
            Outcome::Ok(g) => g,
            Outcome::Panicked(p) => {
                println!("hover panicked: {}", p.signature());
                return 2;
            }
        };
        let shown = got.as_deref().and_then(hover_type).map(|s| s.to_string());
        let ok = match &shown {
            None => false,
            Some(s) if poly => tgen::equal_up_to_renaming(&s.replacen(&format!("fn {name}("), "fn(", 1), &expected),
            Some(s) => *s == expected,
        };
        if ok {
            println!("not reproduced: hover on `{name}` shows the constructed type `{expected}`");
            0
        } else {
            println!("reproduced: hover on `{name}` shows {shown:?}, constructed type is `{expected}`");
            1
        }
    });
    std::process::exit(code)
}

fn main() {
    panicmon::install();
    let argv: Vec<String> = std::env::args().collect();
    if argv.get(1).map(|s| s == "replay").unwrap_or(false) {
        let mut i = 2;
        while i + 1 < argv.len() {
            if argv[i] == "--file" {
                replay(&argv[i + 1]);
            }
            i += 2;
        }
        panic!("replay needs --file");
    }
    let args = Args::parse();
    let a2 = args.clone();
    let rep = panicmon::on_stack(16 << 20, move || run(a2));
    rep.write(&args.out);
}
