//! C09: hover types on well-typed generated programs equal the types the generator
//! constructed (type variables up to bijective renaming).
//!
//! Oracle: by-construction types. Every binder (parameter, let variable, pattern variable,
//! use binder, lambda parameter) and every function was generated *for* a type; hover at
//! its declaration must print exactly that type. The polymorphic library helpers have
//! hand-written most-general signatures and are compared up to renaming.

use ide::{FileId, FilePos};
use serde_json::json;
use std::time::Instant;
use syntax::TextSize;
use vh::panicmon::{self, Outcome};
use vh::report::{truncate_str, Args, Journal, Report};
use vh::rng::{fnv, Rng};
use vh::tgen::{self, TypedWorkspace};
use vh::ws;

fn files_json(files: &[(String, String)]) -> serde_json::Value {
    json!(files.iter().map(|(p, t)| json!([p, t])).collect::<Vec<_>>())
}

/// First line inside the ```gleam fence.
fn hover_type(markup: &str) -> Option<&str> {
    let rest = markup.strip_prefix("```gleam\n")?;
    let end = rest.find("\n```")?;
    Some(&rest[..end])
}

fn classify(got: &str) -> &'static str {
    if got.contains('?') {
        "contains-unknown"
    } else if got.split(|c: char| !(c.is_ascii_alphanumeric() || c == '_')).any(|w| !w.is_empty() && w != "fn" && w.chars().next().unwrap().is_ascii_lowercase()) {
        "too-generic-or-wrong-variable"
    } else {
        "different-concrete-type"
    }
}

fn hover_at(an: &ide::Analysis, file: FileId, pos: usize) -> Outcome<Option<String>> {
    panicmon::guard(|| match an.hover(FilePos::new(file, TextSize::from(pos as u32))) {
        Ok(Some(h)) => Some(h.markup),
        Ok(None) => None,
        Err(_) => None,
    })
}

fn run_case(rep: &mut Report, tw: &TypedWorkspace, case_seed: u64) {
    let files = tw.files();
    let loaded = ws::load_single(&files);
    let an = loaded.host.snapshot();
    let replay = json!({"kind":"typed-workspace","files":files_json(&files),"case_seed":case_seed.to_string()});
    for f in &tw.features {
        rep.see("features", *f);
    }
    rep.count("modules", tw.modules.len() as u64);
    let mut h = fnv(b"c09");
    for e in &tw.expectations {
        let file = loaded.file_by_path(&tw.path_of(e.module)).unwrap();
        let Some(&(_, _, name)) = tw.printed[e.module].decl_ranges.iter().find(|d| d.0 == e.decl) else {
            rep.count("expectations_without_printed_declaration(harness)", 1);
            continue;
        };
        rep.evaluations += 1;
        rep.see("binder_kinds", e.what);
        h = vh::rng::fnv_mix(h, e.ty.as_bytes());
        let text = &tw.texts[e.module];
        let mut rp = replay.clone();
        rp["binder"] = json!({"module": e.module, "name": &text[name.0..name.1], "range": [name.0, name.1], "what": e.what, "expected": e.ty});
        let got = match hover_at(&an, file, name.0) {
            Outcome::Ok(g) => g,
            Outcome::Panicked(p) => {
                rep.count("hover_panicked(C10's business)", 1);
                rep.see("panics_seen", p.signature());
                continue;
            }
        };
        let Some(markup) = got else {
            rep.violate(format!("no-hover:{}", e.what), format!("hover on `{}` ({}) returns nothing; expected {}", &text[name.0..name.1], e.what, e.ty), rp);
            continue;
        };
        let Some(shown) = hover_type(&markup) else {
            rep.violate(format!("hover-unparseable:{}", e.what), format!("markup {markup:?}"), rp);
            continue;
        };
        if shown == e.ty {
            rep.count("types_equal", 1);
            rep.see("type_shapes", shape(&e.ty));
        } else {
            rep.violate(
                format!("type-wrong:{}:{}", e.what, classify(shown)),
                format!("hover on `{}` ({}) shows `{}`, constructed type is `{}`", &text[name.0..name.1], e.what, shown, e.ty),
                rp,
            );
        }
    }
    // polymorphic helpers
    for p in &tw.poly {
        let file = loaded.file_by_path(&tw.path_of(p.module)).unwrap();
        let text = &tw.texts[p.module];
        let needle = format!("fn {}(", p.name);
        let Some(at) = text.find(&needle) else { continue };
        let pos = at + 3;
        rep.evaluations += 1;
        let mut rp = replay.clone();
        rp["binder"] = json!({"module": p.module, "name": p.name, "range": [pos, pos + p.name.len()], "what": "polymorphic-helper", "expected": p.sig});
        let got = match hover_at(&an, file, pos) {
            Outcome::Ok(g) => g,
            Outcome::Panicked(pi) => {
                rep.count("hover_panicked(C10's business)", 1);
                rep.see("panics_seen", pi.signature());
                continue;
            }
        };
        let Some(markup) = got else {
            rep.violate("no-hover:polymorphic-helper", format!("hover on `{}` returns nothing", p.name), rp);
            continue;
        };
        let Some(shown) = hover_type(&markup) else {
            rep.violate("hover-unparseable:polymorphic-helper", format!("markup {markup:?}"), rp);
            continue;
        };
        // `fn name(..) -> r`  =>  `fn(..) -> r`
        let stripped = shown.replacen(&format!("fn {}(", p.name), "fn(", 1);
        if tgen::equal_up_to_renaming(&stripped, &p.sig) {
            rep.count("polymorphic_signatures_equal_up_to_renaming", 1);
            rep.see("polymorphic_helpers_checked", p.name.clone());
        } else {
            rep.violate(
                format!("type-wrong:polymorphic-helper:{}", p.name),
                format!("hover on `{}` shows `{}`, most general type is `{}` (up to renaming)", p.name, stripped, p.sig),
                rp,
            );
        }
    }
    rep.nontrivial(h);
}

/// C18, `value.` clause: after `value.` only fields the value's type has. The typed
/// generator knows the type of the probe values; expected = labels common to all variants.
fn run_c18_case(rep: &mut Report, tw: &TypedWorkspace, case_seed: u64) {
    let files = tw.files();
    let loaded = ws::load_single(&files);
    let an = loaded.host.snapshot();
    let replay = json!({"kind":"typed-workspace","files":files_json(&files),"case_seed":case_seed.to_string()});
    for p in &tw.dot_probes {
        let file = loaded.file_by_path(&tw.path_of(p.module)).unwrap();
        rep.evaluations += 1;
        let out = panicmon::guard(|| an.completions(FilePos::new(file, TextSize::from(p.offset as u32)), Some('.')));
        let items = match out {
            Outcome::Ok(Ok(Some(items))) => items,
            Outcome::Ok(Ok(None)) => Vec::new(),
            Outcome::Ok(Err(_)) => continue,
            Outcome::Panicked(pi) => {
                rep.count("completion_panicked(C10's business)", 1);
                rep.see("panics_seen", pi.signature());
                continue;
            }
        };
        let mut got: Vec<String> = items.iter().map(|i| i.label.to_string()).collect();
        got.sort();
        got.dedup();
        let head = p.ty.split('(').next().unwrap_or("").to_string();
        rep.see("value_dot_cells", format!("{}:{}:{} fields", p.binder, if p.ty.starts_with("#(") { "tuple".to_string() } else if p.ty.starts_with("fn(") { "function".to_string() } else { head }, p.expected.len()));
        let mut rp = replay.clone();
        rp["dot"] = json!({"module": p.module, "offset": p.offset, "binder": p.binder, "type": p.ty, "expected": p.expected});
        if got == p.expected {
            rep.count("value_dot_sets_equal", 1);
            if !p.expected.is_empty() {
                rep.nontrivial(fnv(format!("{case_seed}:{}:{}", p.module, p.offset).as_bytes()));
            }
            continue;
        }
        let extra: Vec<&String> = got.iter().filter(|g| !p.expected.contains(g)).collect();
        let missing: Vec<&String> = p.expected.iter().filter(|g| !got.contains(g)).collect();
        if !extra.is_empty() {
            rep.violate(format!("value-dot-offers-non-field:{}", p.binder), format!("`v.` on a {} of type {} offers {extra:?}; its fields are {:?}", p.binder, p.ty, p.expected), rp.clone());
        }
        if !missing.is_empty() {
            rep.violate(format!("value-dot-misses-field:{}", p.binder), format!("`v.` on a {} of type {} offers {got:?}; its fields are {:?}", p.binder, p.ty, p.expected), rp);
        }
    }
}

/// C19 clause "a function-typed local is tagged as function" and C05 on typed programs:
/// every use of a local the generator emitted is recorded with its declaration and the
/// declaration's type is known by construction.
fn run_locals_case(rep: &mut Report, prop: &str, tw: &TypedWorkspace, case_seed: u64) {
    use vh::prog::Bind;
    let files = tw.files();
    let loaded = ws::load_single(&files);
    let an = loaded.host.snapshot();
    let replay = json!({"kind":"typed-workspace","files":files_json(&files),"case_seed":case_seed.to_string()});
    for (mi, p) in tw.printed.iter().enumerate() {
        let file = loaded.file_by_path(&tw.path_of(mi)).unwrap();
        let hl = if prop == "C19" {
            match panicmon::guard(|| an.syntax_highlight(file, None)) {
                Outcome::Ok(Ok(v)) => v,
                _ => {
                    rep.count("highlight_failed(C10's business)", 1);
                    continue;
                }
            }
        } else {
            Vec::new()
        };
        for occ in &p.occs {
            let Bind::Use { target: Some(d), .. } = occ.ident.bind else { continue };
            let Some(exp) = tw.expectations.iter().find(|e| e.decl == d && e.module == mi) else { continue };
            let Some(&(_, decl_focus, decl_name)) = p.decl_ranges.iter().find(|x| x.0 == d) else { continue };
            rep.evaluations += 1;
            let is_fn = exp.ty.starts_with("fn(");
            let mut rp = replay.clone();
            rp["use"] = json!({"module": mi, "range": [occ.range.0, occ.range.1], "name": occ.ident.text, "declared_at": [decl_name.0, decl_name.1], "type": exp.ty, "binder": exp.what});
            if prop == "C19" {
                let tag = hl.iter().find(|h| usize::from(h.range.start()) == occ.range.0 && usize::from(h.range.end()) == occ.range.1).map(|h| format!("{:?}", h.tag));
                rep.see("local_cells", format!("{}:{}", exp.what, if is_fn { "function-typed" } else { "other" }));
                match (is_fn, tag.as_deref()) {
                    (true, Some("Function")) => {
                        rep.count("function_typed_locals_tagged_function", 1);
                        rep.nontrivial(fnv(format!("{case_seed}:{mi}:{}", occ.range.0).as_bytes()));
                    }
                    (false, None) => rep.count("other_locals_untagged", 1),
                    (true, other) => rep.violate(
                        format!("highlight-tag:function-typed-local:{}:got={}", exp.what, other.unwrap_or("none")),
                        format!("use of `{}` ({}: {}) is tagged {other:?}, a function-typed local must be tagged function", occ.ident.text, exp.what, exp.ty),
                        rp,
                    ),
                    (false, Some(t)) => rep.violate(
                        format!("highlight-tag:local-of-other-type:{}:got={t}", exp.what),
                        format!("use of `{}` ({}: {}) is tagged {t}; it is neither a function, constructor nor module", occ.ident.text, exp.what, exp.ty),
                        rp,
                    ),
                }
            } else {
                // C05: goto from the use lands on the binder
                match vh::sema::goto_at(&an, file, occ.range.0) {
                    vh::sema::Goto::One(t) if t.file == file.0 && t.focus == decl_focus => {
                        rep.count("typed_local_uses_resolved", 1);
                        rep.nontrivial(fnv(format!("{case_seed}:{mi}:{}", occ.range.0).as_bytes()));
                    }
                    vh::sema::Goto::Panicked(sig) => {
                        rep.count("goto_panicked(C10's business)", 1);
                        rep.see("panics_seen", sig);
                    }
                    other => rep.violate(
                        format!("goto-wrong:typed-local-use:{}", exp.what),
                        format!("use of `{}` at {:?} should land on its {} at {:?}; got {:?}", occ.ident.text, occ.range, exp.what, decl_name, other),
                        rp,
                    ),
                }
            }
        }
    }
}

fn shape(t: &str) -> String {
    // outermost constructor
    let end = t.find(|c: char| c == '(' || c == ' ').unwrap_or(t.len());
    let head = &t[..end];
    if t.starts_with("#(") {
        "tuple".into()
    } else if t.starts_with("fn(") {
        "function".into()
    } else {
        head.to_string()
    }
}

fn run(args: Args) -> Report {
    let mut rep = Report::new(&args.prop, args.shard);
    let mut journal = Journal::open(&args.out, &args.prop, args.shard);
    let mut r = Rng::derive(args.seed, args.shard as u64, 90);
    let t0 = Instant::now();
    let mut n = 0u64;
    while t0.elapsed().as_secs_f64() < args.budget_s {
        let Some(case_seed) = args.next_case(&mut r) else { break };
        let mut cr = Rng::new(case_seed);
        let tw = tgen::generate(&mut cr);
        journal.begin("typed", files_json(&tw.files()).to_string().as_bytes());
        match args.prop.as_str() {
            "C09" => run_case(&mut rep, &tw, case_seed),
            "C18" => run_c18_case(&mut rep, &tw, case_seed),
            "C19" | "C05" => run_locals_case(&mut rep, &args.prop, &tw, case_seed),
            p => panic!("m_types does not serve {p}"),
        }
        if rep.samples.len() < 3 && n % 23 == 0 {
            rep.sample(json!({"case_seed": case_seed.to_string(), "module0": truncate_str(&tw.texts[0], 400)}));
        }
        n += 1;
    }
    rep.count("workspaces", n);
    journal.idle();
    rep
}

fn replay(path: &str) -> ! {
    let doc: serde_json::Value = serde_json::from_str(&std::fs::read_to_string(path).expect("replay file")).expect("json");
    let rp = &doc["replay"];
    let files: Vec<(String, String)> = rp["files"].as_array().expect("files").iter().map(|e| (e[0].as_str().unwrap().to_string(), e[1].as_str().unwrap().to_string())).collect();
    let b = &rp["binder"];
    let module_path = files[b["module"].as_u64().unwrap() as usize].0.clone();
    let pos = b["range"][0].as_u64().unwrap() as usize;
    let expected = b["expected"].as_str().unwrap().to_string();
    let name = b["name"].as_str().unwrap().to_string();
    let poly = b["what"].as_str() == Some("polymorphic-helper");
    let code = panicmon::on_stack(16 << 20, move || {
        let loaded = ws::load_single(&files);
        let an = loaded.host.snapshot();
        let file = loaded.file_by_path(&module_path).unwrap();
        let got = match hover_at(&an, file, pos) {
            Outcome::Ok(g) => g,
            Outcome::Panicked(p) => {
                println!("hover panicked: {}", p.signature());
                return 2;
            }
        };
        let shown = got.as_deref().and_then(hover_type).map(|s| s.to_string());
        let ok = match &shown {
            None => false,
            Some(s) if poly => tgen::equal_up_to_renaming(&s.replacen(&format!("fn {name}("), "fn(", 1), &expected),
            Some(s) => *s == expected,
        };
        if ok {
            println!("not reproduced: hover on `{name}` shows the constructed type `{expected}`");
            0
        } else {
            println!("reproduced: hover on `{name}` shows {shown:?}, constructed type is `{expected}`");
            1
        }
    });
    std::process::exit(code)
}

fn main() {
    panicmon::install();
    let argv: Vec<String> = std::env::args().collect();
    if argv.get(1).map(|s| s == "replay").unwrap_or(false) {
        let mut i = 2;
        while i + 1 < argv.len() {
            if argv[i] == "--file" {
                replay(&argv[i + 1]);
            }
            i += 2;
        }
        panic!("replay needs --file");
    }
    let args = Args::parse();
    let a2 = args.clone();
    let rep = panicmon::on_stack(16 << 20, move || run(a2));
    rep.write(&args.out);
}
