//! C11: answers after any edit history equal a fresh analysis of the result, in any query
//! order and in any process.
//!
//!   m_incr --prop C11 ...            shard run
//!   m_incr digest --file ws.json     child: fresh analysis of a workspace, print digest

use ide::{AnalysisHost, Change, FileId};
use serde_json::json;
use std::collections::BTreeMap;
use std::sync::Arc;
use std::time::Instant;
use vh::gen::{self, GenCfg};
use vh::panicmon::{self, Outcome};
use vh::prog::Trivia;
use vh::queries::{self, Q};
use vh::report::{truncate_str, Args, Journal, Report};
use vh::rng::{fnv, fnv_mix, Rng};
use vh::textgen;

use vh::modelws::{FileEntry, ModelWs, Pkg};

/// The probe set: (query, file, offset) in a canonical order.
fn probe_set(ws: &ModelWs, seed: u64, per_file: usize) -> Vec<(Q, u32, u32)> {
    let mut out = Vec::new();
    let mut r = Rng::new(seed);
    for f in ws.files.iter().filter(|f| f.path.ends_with(".gleam")) {
        out.push((Q::Diags, f.id, 0));
        out.push((Q::Tree, f.id, 0));
        out.push((Q::HlFull, f.id, 0));
        let tt = vh::ws::token_table(&f.text);
        let mut bounds: Vec<usize> = tt.bounds.iter().copied().collect();
        r.shuffle(&mut bounds);
        bounds.truncate(per_file);
        bounds.sort();
        for b in bounds {
            for q in [Q::Hover, Q::Goto, Q::Refs, Q::Highlight, Q::Compl(None), Q::Compl(Some('.')), Q::SigHelp, Q::PrepRename, Q::Rename("zz_renamed".into())] {
                out.push((q, f.id, b as u32));
            }
        }
    }
    out
}

fn ask(an: &ide::Analysis, p: &(Q, u32, u32)) -> String {
    match panicmon::guard(|| queries::run_query(an, &p.0, FileId(p.1), p.2)) {
        Outcome::Ok(Ok(a)) => a.nf,
        Outcome::Ok(Err(_)) => "<cancelled>".into(),
        Outcome::Panicked(i) => format!("<panic {}>", i.signature()),
    }
}

fn answers(host: &AnalysisHost, probes: &[(Q, u32, u32)], order: Option<&mut Rng>) -> Vec<String> {
    let an = host.snapshot();
    let mut idx: Vec<usize> = (0..probes.len()).collect();
    if let Some(r) = order {
        r.shuffle(&mut idx);
    }
    let mut out = vec![String::new(); probes.len()];
    for i in idx {
        out[i] = ask(&an, &probes[i]);
    }
    out
}

fn digest(ans: &[String]) -> u64 {
    let mut h = 0xC11u64;
    for a in ans {
        h = fnv_mix(h, a.as_bytes());
    }
    h
}

fn digest_mode(argv: &[String]) -> ! {
    let path = argv.iter().position(|a| a == "--file").map(|i| argv[i + 1].clone()).expect("--file");
    let v: serde_json::Value = serde_json::from_str(&std::fs::read_to_string(path).unwrap()).unwrap();
    let ws = ModelWs::from_json(&v["ws"]);
    let seed = v["probe_seed"].as_str().unwrap().parse::<u64>().unwrap();
    let per_file = v["per_file"].as_u64().unwrap() as usize;
    let probes = probe_set(&ws, seed, per_file);
    let host = ws.fresh();
    let ans = answers(&host, &probes, None);
    // print per-probe hashes so the parent can name the differing query
    let hs: Vec<String> = ans.iter().map(|a| format!("{:x}", fnv(a.as_bytes()))).collect();
    println!("{}", json!({"digest": format!("{:x}", digest(&ans)), "hashes": hs}));
    std::process::exit(0)
}

/// More modules than the parse cache holds (ParseQuery has an LRU capacity of 128): a chain
/// of 140 modules, each calling the previous one, so that types flow through all of them
/// and syntax trees are evicted and re-parsed while answers must stay those of a fresh host.
fn large_ws(r: &mut Rng) -> ModelWs {
    let pkgs = vec![Pkg { root: "/ws/root".into(), name: "root".into(), is_local: true, deps: vec![] }];
    let mut files = vec![FileEntry { id: 0, pkg: 0, path: "/ws/root/gleam.toml".into(), text: "name = \"root\"\n".into() }];
    let n = 140 + r.below(8);
    for i in 0..n {
        let text = if i == 0 {
            "pub fn f0(x) { x + 1 }\n\npub type T0 { T0(v: Int) }\n".to_string()
        } else {
            format!("import c{p}\n\npub fn f{i}(x) {{ c{p}.f{p}(x) }}\n\npub fn g{i}(y) {{ #(y, f{i}(1)) }}\n", p = i - 1)
        };
        files.push(FileEntry { id: 1 + i as u32, pkg: 0, path: format!("/ws/root/src/c{i}.gleam"), text });
    }
    ModelWs { pkgs, files }
}

fn initial_ws(r: &mut Rng) -> ModelWs {
    if r.chance(1, 80) {
        return large_ws(r);
    }
    let cfg = GenCfg { modules: r.range(1, 4), max_items: r.range(2, 6), max_depth: r.range(1, 3), holes: false, non_core: true, trivia: if r.chance(1, 2) { Trivia::Wild } else { Trivia::Plain }, non_ascii: r.chance(1, 3) };
    let g = gen::generate(r, &cfg);
    // packages: root (local) always; with >= 2 modules a dependency package holding module 0
    let two = g.modules.len() >= 2 && r.chance(1, 2);
    let mut pkgs = vec![Pkg { root: "/ws/root".into(), name: "root".into(), is_local: true, deps: vec![] }];
    if two {
        pkgs.push(Pkg { root: "/ws/root/build/packages/dep".into(), name: "dep".into(), is_local: false, deps: vec![] });
        pkgs[0].deps.push(1);
    }
    let mut files = Vec::new();
    let mut id = 0u32;
    for (pi, p) in pkgs.iter().enumerate() {
        files.push(FileEntry { id, pkg: pi, path: format!("{}/gleam.toml", p.root), text: format!("name = \"{}\"\n", p.name) });
        id += 1;
    }
    for (mi, m) in g.modules.iter().enumerate() {
        let pi = if two && mi == 0 { 1 } else { 0 };
        files.push(FileEntry { id, pkg: pi, path: format!("{}/src/{}.gleam", pkgs[pi].root, m.name), text: g.printed[mi].text.clone() });
        id += 1;
    }
    ModelWs { pkgs, files }
}

fn edit_text(r: &mut Rng, t: &str) -> (String, &'static str) {
    match r.below(9) {
        0 => (String::new(), "empty-file"),
        1 => {
            // drop the first line (renumbers items)
            match t.find('\n') {
                Some(i) => (t[i + 1..].to_string(), "drop-first-line"),
                None => (String::new(), "drop-first-line"),
            }
        }
        2 => {
            // append a function that mentions existing names (new recursion groups)
            let name = *r.pick(&["a", "b", "c", "f", "g", "x", "y"]);
            let callee = *r.pick(&["a", "b", "c", "f", "g", "x", "y"]);
            (format!("{t}\nfn {name}(p, q) {{ {callee}(q, p) }}\n"), "append-function")
        }
        3 => {
            let name = *r.pick(&["a", "b", "c", "f", "g"]);
            (format!("fn {name}(p) {{ p }}\n{t}"), "prepend-function")
        }
        4 => {
            // move the last line to the front (reorders items)
            let mut lines: Vec<&str> = t.lines().collect();
            if let Some(l) = lines.pop() {
                lines.insert(0, l);
            }
            (lines.join("\n"), "rotate-lines")
        }
        5 => {
            let cfg = GenCfg { modules: 1, max_items: r.range(2, 5), max_depth: 2, holes: false, non_core: true, trivia: Trivia::Plain, non_ascii: false };
            let g = gen::generate(r, &cfg);
            (g.printed[0].text.clone(), "replace-whole-file")
        }
        _ => {
            let mut s = t.to_string();
            for _ in 0..r.range(1, 3) {
                s = textgen::mutate(r, &s);
            }
            (s, "token-or-char-edit")
        }
    }
}

fn run_case(rep: &mut Report, journal: &mut Journal, case_seed: u64, nsteps: usize, per_file: usize, cross_process: bool, out_dir: &std::path::Path, shard: usize) {
    let mut r = Rng::new(case_seed);
    let mut ws = initial_ws(&mut r);
    let large = ws.files.len() > 128;
    let (nsteps, per_file) = if large { (nsteps.min(4), 1) } else { (nsteps, per_file) };
    if large {
        rep.count("workspaces_larger_than_the_parse_cache(>128 modules)", 1);
    }
    let mut host = AnalysisHost::new();
    host.apply_change(ws.full_change());
    let mut history: Vec<String> = vec!["initial".into()];
    let mut ok = true;
    for step in 0..=nsteps {
        let mut kind = "initial";
        if step > 0 {
            // arbitrary queries in between (populate caches)
            {
                let an = host.snapshot();
                let probes = probe_set(&ws, r.next_u64(), 6);
                for p in probes.iter().take(40) {
                    let _ = ask(&an, p);
                }
            }
            // one change
            let mut change = Change::default();
            let k = r.below(14);
            let gleam_files: Vec<usize> = ws.files.iter().enumerate().filter(|(_, f)| f.path.ends_with(".gleam")).map(|(i, _)| i).collect();
            let module_of = |path: &str| -> Option<String> { path.split("/src/").nth(1).and_then(|m| m.strip_suffix(".gleam")).map(|m| m.to_string()) };
            if k >= 12 && gleam_files.len() >= 2 {
                // Import rewiring, one file per step: an unqualified import of another module of
                // the workspace is added (two such steps close an import cycle), or an existing
                // `import m.{..}` loses its member list (which may break a cycle again). The
                // recovered state of a cycle must not outlive the cycle.
                let fi = gleam_files[r.below(gleam_files.len())];
                let has_members = ws.files[fi].text.lines().position(|l| l.trim_start().starts_with("import ") && l.contains(".{"));
                if let (Some(li), true) = (has_members, r.chance(1, 2)) {
                    let lines: Vec<String> = ws.files[fi].text.lines().enumerate().map(|(i, l)| if i == li { l.split(".{").next().unwrap_or(l).to_string() } else { l.to_string() }).collect();
                    ws.files[fi].text = lines.join("\n") + "\n";
                    kind = "import-loses-its-member-list";
                } else {
                    let others: Vec<usize> = gleam_files.iter().copied().filter(|g| *g != fi && ws.files[*g].pkg == ws.files[fi].pkg).collect();
                    if let Some(&oj) = others.get(r.below(others.len().max(1))) {
                        if let Some(m) = module_of(&ws.files[oj].path) {
                            // the imported name: a public function the sibling really has (so
                            // that a call through it is an inference edge), or any short name
                            let publics: Vec<String> = ws.files[oj].text.lines().filter_map(|l| l.strip_prefix("pub fn ")).filter_map(|l| l.split('(').next()).map(|n| n.trim().to_string()).filter(|n| !n.is_empty()).collect();
                            let name = if !publics.is_empty() && r.chance(2, 3) { publics[r.below(publics.len())].clone() } else { r.pick(&["a", "b", "c", "f", "g", "x", "y"]).to_string() };
                            let mut head = format!("import {m}.{{{name}}}\n");
                            kind = "unqualified-import-of-a-sibling-added";
                            // a second import under the SAME qualifier (the later one shadows the
                            // accessor; the unqualified name of the first stays in scope)
                            let thirds: Vec<usize> = others.iter().copied().filter(|g| *g != oj).collect();
                            if !thirds.is_empty() && r.chance(1, 3) {
                                if let Some(m2) = module_of(&ws.files[thirds[r.below(thirds.len())]].path) {
                                    let q = m.rsplit('/').next().unwrap_or(&m).to_string();
                                    head.push_str(&format!("import {m2} as {q}\n"));
                                    kind = "unqualified-import-of-a-sibling-added+same-qualifier-import";
                                }
                            }
                            let mut t = format!("{head}{}", ws.files[fi].text);
                            if r.chance(1, 2) {
                                // ... and used: a function of this module now calls into the sibling
                                t.push_str(&format!("\npub fn via_{name}_{step}(q) {{ {name}(q) }}\n"));
                            }
                            ws.files[fi].text = t;
                        }
                    }
                }
                let t = ws.files[fi].text.clone();
                change.change_file(FileId(ws.files[fi].id), Arc::from(t.as_str()));
            } else if k < 7 && !gleam_files.is_empty() {
                let fi = gleam_files[r.below(gleam_files.len())];
                let (t, kd) = edit_text(&mut r, &ws.files[fi].text);
                kind = kd;
                if r.chance(1, 4) {
                    // one Change carrying successive texts of one file (what a didChange with
                    // several content changes, or a didOpen racing the loader, produces): the
                    // LAST text is the file's content
                    let (t2, _) = edit_text(&mut r, &t);
                    change.change_file(FileId(ws.files[fi].id), Arc::from(t.as_str()));
                    if r.chance(1, 3) {
                        if let Some(&other) = gleam_files.iter().find(|&&g| g != fi) {
                            change.change_file(FileId(ws.files[other].id), Arc::from(ws.files[other].text.as_str()));
                        }
                    }
                    change.change_file(FileId(ws.files[fi].id), Arc::from(t2.as_str()));
                    ws.files[fi].text = t2;
                    kind = "several-texts-of-one-file-in-one-change";
                } else {
                    ws.files[fi].text = t.clone();
                    change.change_file(FileId(ws.files[fi].id), Arc::from(t.as_str()));
                }
            } else if k < 9 {
                // add a file (roots re-set); its module name may or may not be imported already
                let pi = r.below(ws.pkgs.len());
                let name = *r.pick(&["m0", "m1", "extra", "dir/m2", "dir/sub/m3", "zz"]);
                // one new file in three is a test module: `test/m0.gleam` next to `src/m0.gleam` is an ordinary
                // layout (a test helper named like the module it tests) and gives two files one module name
                let dir = if r.chance(1, 3) { "test" } else { "src" };
                let path = format!("{}/{dir}/{}.gleam", ws.pkgs[pi].root, name);
                if ws.files.iter().any(|f| f.path == path) {
                    kind = "roots-replaced";
                    change.set_roots(ws.roots());
                } else {
                    kind = if dir == "test" { "add-test-module" } else { "add-file" };
                    let id = ws.files.iter().map(|f| f.id).max().unwrap() + 1;
                    let text = format!("pub fn {}(x) {{ x }}\npub type Extra {{ Extra(name: Int) }}\n", r.pick(&["a", "f", "g"]));
                    ws.files.push(FileEntry { id, pkg: pi, path, text: text.clone() });
                    change.change_file(FileId(id), Arc::from(text.as_str()));
                    change.set_roots(ws.roots());
                }
            } else if k < 11 && ws.pkgs.len() >= 2 {
                // dependency edge added / removed: package graph re-set, nothing else
                if ws.pkgs[0].deps.is_empty() {
                    ws.pkgs[0].deps.push(1);
                    kind = "add-dependency-edge";
                } else {
                    ws.pkgs[0].deps.clear();
                    kind = "remove-dependency-edge";
                }
                change.set_package_graph(ws.graph());
            } else {
                kind = "roots-and-graph-replaced";
                change.set_roots(ws.roots());
                change.set_package_graph(ws.graph());
            }
            host.apply_change(change);
            history.push(kind.to_string());
        }
        journal.begin("c11", ws.to_json().to_string().as_bytes());
        rep.see("step_kinds", kind.to_string());
        let probe_seed = r.next_u64();
        let probes = probe_set(&ws, probe_seed, per_file);
        let a_inc = answers(&host, &probes, None);
        let fresh = ws.fresh();
        let a_fresh = answers(&fresh, &probes, None);
        let fresh2 = ws.fresh();
        let mut order = Rng::new(probe_seed ^ 0x5EED);
        let a_shuf = answers(&fresh2, &probes, Some(&mut order));
        rep.evaluations += (3 * probes.len()) as u64;
        let replay = json!({"kind":"history","case_seed":case_seed.to_string(),"steps":history,"final_ws":ws.to_json()});
        for (i, p) in probes.iter().enumerate() {
            if a_inc[i] != a_fresh[i] {
                rep.violate(
                    format!("incremental-differs-from-fresh:{}:after={}", p.0.name(), kind),
                    format!("{} at file {} offset {}: long-lived host says {} but a fresh host says {}", p.0.name(), p.1, p.2, truncate_str(&a_inc[i], 400), truncate_str(&a_fresh[i], 400)),
                    replay.clone(),
                );
                ok = false;
                break;
            }
            if a_fresh[i] != a_shuf[i] {
                rep.violate(
                    format!("fresh-answer-depends-on-query-order:{}", p.0.name()),
                    format!("{} at file {} offset {}: {} vs (other order) {}", p.0.name(), p.1, p.2, truncate_str(&a_fresh[i], 400), truncate_str(&a_shuf[i], 400)),
                    replay.clone(),
                );
                ok = false;
                break;
            }
        }
        if !ok {
            break;
        }
        // cross-process determinism on a sample of states
        if cross_process && (step == nsteps || step % 4 == 0) {
            let tmp = out_dir.join(format!("c11-xproc-{shard}.json"));
            std::fs::write(&tmp, json!({"ws": ws.to_json(), "probe_seed": probe_seed.to_string(), "per_file": per_file}).to_string()).unwrap();
            let out = std::process::Command::new(std::env::current_exe().unwrap()).args(["digest", "--file", tmp.to_str().unwrap()]).output();
            if let Ok(out) = out {
                if let Ok(v) = serde_json::from_slice::<serde_json::Value>(&out.stdout) {
                    rep.count("cross_process_comparisons", 1);
                    let mine = format!("{:x}", digest(&a_fresh));
                    if v["digest"].as_str() != Some(mine.as_str()) {
                        let hs = v["hashes"].as_array().cloned().unwrap_or_default();
                        let mut which = "?".to_string();
                        let mut detail = String::new();
                        for (i, p) in probes.iter().enumerate() {
                            let h = format!("{:x}", fnv(a_fresh[i].as_bytes()));
                            if hs.get(i).and_then(|x| x.as_str()) != Some(h.as_str()) {
                                which = p.0.name();
                                detail = format!("{} at file {} offset {}: this process answers {}", p.0.name(), p.1, p.2, truncate_str(&a_fresh[i], 500));
                                break;
                            }
                        }
                        rep.violate(format!("answer-differs-between-processes:{which}"), detail, replay.clone());
                        ok = false;
                        break;
                    }
                } else {
                    rep.inconclusive += 1;
                }
            }
            let _ = std::fs::remove_file(&tmp);
        }
    }
    if ok && history.len() >= 3 {
        rep.nontrivial(fnv(format!("{case_seed}").as_bytes()));
    }
    if rep.samples.len() < 4 {
        rep.sample(json!({"case_seed": case_seed.to_string(), "history": history}));
    }
}

fn run(args: Args) -> Report {
    let mut rep = Report::new("C11", args.shard);
    let mut journal = Journal::open(&args.out, "C11", args.shard);
    let mut r = Rng::derive(args.seed, args.shard as u64, 11);
    let t0 = Instant::now();
    let nsteps = if args.thorough() { 60 } else { 12 };
    let mut n = 0u64;
    while t0.elapsed().as_secs_f64() < args.budget_s {
        let Some(case_seed) = args.next_case(&mut r) else { break };
        run_case(&mut rep, &mut journal, case_seed, nsteps, if args.thorough() { 30 } else { 12 }, true, &args.out, args.shard);
        n += 1;
    }
    rep.count("histories", n);
    journal.idle();
    rep
}

fn main() {
    panicmon::install();
    let argv: Vec<String> = std::env::args().collect();
    if argv.get(1).map(|s| s == "digest").unwrap_or(false) {
        digest_mode(&argv[2..]);
    }
    let args = Args::parse();
    let a2 = args.clone();
    let rep = panicmon::on_stack(16 << 20, move || run(a2));
    rep.write(&args.out);
}
