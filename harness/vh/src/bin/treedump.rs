//! Debug helper: treedump <file> prints the syntax tree and its maximal nesting depth.
fn main() {
    let p = std::env::args().nth(1).expect("file");
    let text = std::fs::read_to_string(p).unwrap();
    let parse = syntax::parse_module(&text);
    let root = parse.syntax_node();
    let mut max = 0usize;
    for ev in root.preorder() {
        if let syntax::rowan::WalkEvent::Enter(n) = ev {
            max = max.max(n.ancestors().count());
        }
    }
    if text.len() < 400 {
        println!("{:#?}", root);
    }
    println!("max depth {max}, errors {}", parse.errors().len());
}
