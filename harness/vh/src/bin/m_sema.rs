//! Semantic monitors on scope-aware generated workspaces:
//!   C05 goto follows Gleam's scoping rules (by-construction binding oracle)
//!   C06 references <=> goto law over an identifier census (+ highlight)
//!   C07 rename to a fresh name preserves every identifier's meaning
//!   C08 rename refusal table (name classes x symbol kinds x locality)
//!   C18 completion sets at generator-known holes

use ide::{FileId, FilePos};
use serde_json::json;
use std::collections::{BTreeMap, BTreeSet};
use std::time::Instant;
use syntax::TextSize;
use vh::gen::{self, GenCfg, Workspace};
use vh::panicmon::{self, Outcome};
use vh::prog::{Bind, SymKind, Trivia};
use vh::report::{truncate_str, Args, Journal, Report};
use vh::rng::{fnv, Rng};
use vh::sema::{self, Goto, IdTok, Target};
use vh::ws::{self, Loaded, PkgSpec, TokenTable};

fn files_json(files: &[(String, String)]) -> serde_json::Value {
    json!(files.iter().map(|(p, t)| json!([p, t])).collect::<Vec<_>>())
}

fn gen_cfg(r: &mut Rng, holes: bool) -> GenCfg {
    GenCfg {
        modules: r.range(1, 4),
        max_items: r.range(3, 8),
        max_depth: r.range(1, 4),
        holes,
        non_core: r.chance(2, 3),
        trivia: if r.chance(1, 2) { Trivia::Wild } else { Trivia::Plain },
        non_ascii: r.chance(1, 3),
    }
}

fn kind_name(k: SymKind) -> String {
    format!("{k:?}")
}

// ----------------------------------------------------------------------------------
// C05

fn expected_target(ws: &Workspace, loaded: &Loaded, d: usize) -> Target {
    let c = ws.canonical(d);
    let di = &ws.decls[c];
    let file = loaded.file_by_path(&ws.path_of(di.module)).expect("module file");
    Target { file: file.0, focus: di.focus, full: (0, 0) }
}

fn run_c05_case(rep: &mut Report, ws: &Workspace, case_seed: u64) {
    let files = ws.files();
    let loaded = ws::load_single(&files);
    let an = loaded.host.snapshot();
    let replay = json!({"kind":"workspace","files":files_json(&files),"case_seed":case_seed.to_string()});
    let mut shadowed = false;
    for (mi, p) in ws.printed.iter().enumerate() {
        let file = loaded.file_by_path(&ws.path_of(mi)).unwrap();
        // shadowing present? (two decls with one spelling in this module)
        let mut names: BTreeMap<&str, usize> = BTreeMap::new();
        for d in ws.decls.iter().filter(|d| d.module == mi && !d.name.is_empty()) {
            *names.entry(d.name.as_str()).or_insert(0) += 1;
        }
        if names.values().any(|&n| n > 1) {
            shadowed = true;
        }
        for occ in &p.occs {
            for probe in [occ.range.0, occ.range.1] {
                rep.evaluations += 1;
                let got = sema::goto_at(&an, file, probe);
                let site = occ.ident.site;
                let mut rp = replay.clone();
                rp["occurrence"] = json!({"module": mi, "range": [occ.range.0, occ.range.1], "text": occ.ident.text, "site": site, "probe": probe});
                if let Goto::Panicked(sig) = &got {
                    rep.count("goto_panicked(C10's business)", 1);
                    rep.see("panics_seen", sig.clone());
                    continue;
                }
                match &occ.ident.bind {
                    Bind::Plain => {
                        rep.count("plain_occurrences_not_judged", 1);
                    }
                    Bind::Decl(d) => {
                        let kind = kind_name(ws.decls[*d].kind);
                        rep.see("cells", format!("decl:{kind}"));
                        let want = expected_target(ws, &loaded, *d);
                        match &got {
                            Goto::None => {
                                rep.count("decl_sites_without_answer(soundness only; C06 requires them)", 1);
                            }
                            Goto::One(t) if t.file == want.file && t.focus == want.focus => {
                                rep.count("decl_sites_resolving_to_themselves", 1);
                            }
                            other => {
                                rep.violate(
                                    format!("goto-wrong:decl-site:{kind}"),
                                    format!("declaration `{}` ({kind}) at {:?} resolves to {:?}, expected itself {:?}", occ.ident.text, occ.range, other, want),
                                    rp,
                                );
                            }
                        }
                    }
                    Bind::Use { target, core } => {
                        let kind = target.map(|d| kind_name(ws.decls[d].kind)).unwrap_or_else(|| "Unbound".into());
                        rep.see("cells", format!("{site}:{kind}:{}", if *core { "core" } else { "soundness-only" }));
                        match (target, &got) {
                            (Some(d), Goto::One(t)) => {
                                let want = expected_target(ws, &loaded, *d);
                                if t.file == want.file && t.focus == want.focus {
                                    rep.count("uses_resolved_correctly", 1);
                                    if !(t.full.0 <= t.focus.0 && t.focus.1 <= t.full.1) {
                                        rep.count("focus_outside_full(C20's business)", 1);
                                    }
                                } else {
                                    // what did it land on?
                                    let landed = ws
                                        .decls
                                        .iter()
                                        .enumerate()
                                        .find(|(_, x)| loaded.file_by_path(&ws.path_of(x.module)).map(|f| f.0) == Some(t.file) && x.focus == t.focus)
                                        .map(|(_, x)| format!("{:?} `{}`", x.kind, x.name))
                                        .unwrap_or_else(|| "no declaration of the generator".into());
                                    rep.violate(
                                        format!("goto-wrong:{site}:{kind}"),
                                        format!(
                                            "`{}` at {:?} in {} is bound to {:?} `{}` at {:?} (file {}), but goto lands on file {} {:?} ({landed})",
                                            occ.ident.text,
                                            occ.range,
                                            ws.path_of(mi),
                                            ws.decls[ws.canonical(*d)].kind,
                                            ws.decls[ws.canonical(*d)].name,
                                            want.focus,
                                            want.file,
                                            t.file,
                                            t.focus
                                        ),
                                        rp,
                                    );
                                }
                            }
                            (Some(_), Goto::None) => {
                                if *core {
                                    rep.violate(
                                        format!("goto-missing:{site}:{kind}"),
                                        format!("`{}` at {:?} in {} ({site}) is in the supported core but gets no definition", occ.ident.text, occ.range, ws.path_of(mi)),
                                        rp,
                                    );
                                } else {
                                    rep.count("non_core_uses_without_answer", 1);
                                }
                            }
                            (None, Goto::None) => {
                                rep.count("unbound_or_builtin_without_answer", 1);
                            }
                            (None, other) => {
                                if *core {
                                    rep.violate(
                                        format!("goto-unexpected:{site}"),
                                        format!("`{}` at {:?} ({site}) is a built-in / not a declared symbol but goto answers {:?}", occ.ident.text, occ.range, other),
                                        rp,
                                    );
                                } else {
                                    rep.count("non_core_unbound_with_answer_not_judged", 1);
                                }
                            }
                            (Some(_), other) => {
                                rep.violate(format!("goto-shape:{site}:{kind}"), format!("expected one target, got {:?}", other), rp);
                            }
                        }
                    }
                    Bind::Module { module, core } => {
                        rep.see("cells", format!("{site}:Module:{}", if *core { "core" } else { "soundness-only" }));
                        let mf = loaded.file_by_path(&ws.path_of(*module)).unwrap();
                        match &got {
                            Goto::One(t) if t.file == mf.0 && t.focus == (0, 0) => rep.count("module_qualifiers_resolved", 1),
                            Goto::None if !*core => rep.count("non_core_qualifier_without_answer", 1),
                            Goto::None => {
                                rep.violate(format!("goto-missing:{site}:Module"), format!("qualifier `{}` at {:?} gets no definition", occ.ident.text, occ.range), rp);
                            }
                            other => {
                                rep.violate(
                                    format!("goto-wrong:{site}:Module"),
                                    format!("qualifier `{}` at {:?} should lead to module file {} 0..0, got {:?}", occ.ident.text, occ.range, mf.0, other),
                                    rp,
                                );
                            }
                        }
                    }
                }
            }
        }
    }
    if shadowed {
        rep.nontrivial(fnv(files_json(&files).to_string().as_bytes()));
    }
}

// ----------------------------------------------------------------------------------
// C06

fn first_ident_in(tt: &TokenTable, focus: (usize, usize)) -> Option<(usize, usize)> {
    tt.tokens
        .iter()
        .find(|(a, b, k)| *a >= focus.0 && *b <= focus.1 && (*k == syntax::SyntaxKind::IDENT || *k == syntax::SyntaxKind::U_IDENT))
        .map(|(a, b, _)| (*a, *b))
}

fn top_level_name_count(text: &str, name: &str) -> usize {
    use syntax::ast::{self, AstNode};
    let parse = syntax::parse_module(text);
    let mut n = 0;
    for st in parse.root().statements() {
        match st {
            ast::ModuleStatement::Function(f) => n += (f.name().and_then(|x| x.text()).as_deref() == Some(name)) as usize,
            ast::ModuleStatement::ModuleConstant(c) => n += (c.name().and_then(|x| x.text()).as_deref() == Some(name)) as usize,
            ast::ModuleStatement::TypeAlias(a) => n += (a.name().and_then(|x| x.text()).as_deref() == Some(name)) as usize,
            ast::ModuleStatement::Adt(a) => {
                n += (a.name().and_then(|x| x.text()).as_deref() == Some(name)) as usize;
                // constructors live in the value namespace: count them separately
                let mut vn = 0;
                for v in a.constructors() {
                    vn += (v.name().and_then(|x| x.text()).as_deref() == Some(name)) as usize;
                }
                if vn > 0 {
                    // a constructor named like its own type is fine; several constructors of one name are not
                    n = n.max(count_ctors(&parse.root(), name));
                }
            }
            ast::ModuleStatement::Import(_) => {}
        }
        let _ = st_dummy();
    }
    n
}

fn st_dummy() {}

fn count_ctors(root: &syntax::ast::SourceFile, name: &str) -> usize {
    use syntax::ast;
    let mut n = 0;
    for st in root.statements() {
        if let ast::ModuleStatement::Adt(a) = st {
            for v in a.constructors() {
                n += (v.name().and_then(|x| x.text()).as_deref() == Some(name)) as usize;
            }
        }
    }
    n
}

fn run_c06_case(rep: &mut Report, files: &[(String, String)], origin: &str, replay: serde_json::Value) {
    let loaded = ws::load_single(files);
    let an = loaded.host.snapshot();
    let tables = sema::tables_of(&loaded);
    let census: Vec<IdTok> = sema::census(&loaded, &an, &tables);
    rep.evaluations += census.len() as u64;
    // group by target
    let mut by_target: BTreeMap<Target, Vec<usize>> = BTreeMap::new();
    for (i, t) in census.iter().enumerate() {
        if let Goto::One(tg) = &t.goto {
            if tg.focus == (0, 0) {
                continue; // module
            }
            by_target.entry(tg.clone()).or_default().push(i);
        }
    }
    let mut nontrivial = false;
    for (target, members) in &by_target {
        let tfile = FileId(target.file);
        if !loaded.has_file(tfile) {
            continue;
        }
        let Some(own) = first_ident_in(&tables[&target.file], target.focus) else {
            rep.count("targets_without_identifier_in_focus", 1);
            continue;
        };
        let name = loaded.text(tfile)[own.0..own.1].to_string();
        // Duplicate top-level definitions of one name are errors in Gleam and have no
        // binding semantics (the later one wins in glas): not judged.
        if top_level_name_count(loaded.text(tfile), &name) >= 2 {
            rep.count("targets_with_duplicate_definitions_not_judged", 1);
            continue;
        }
        // S_D
        let mut set: BTreeSet<(u32, usize, usize)> = BTreeSet::new();
        set.insert((target.file, own.0, own.1));
        for &i in members {
            if census[i].text == name {
                set.insert((census[i].file.0, census[i].a, census[i].b));
            }
        }
        if set.len() >= 2 {
            nontrivial = true;
        }
        let mut rp = replay.clone();
        rp["declaration"] = json!({"file": loaded.path(tfile), "focus": [target.focus.0, target.focus.1], "name": name});
        // what node kind is the declaration? (for signatures)
        let decl_kind = {
            let parse = syntax::parse_module(loaded.text(tfile));
            let root = parse.syntax_node();
            let r = syntax::TextRange::new(TextSize::from(target.focus.0 as u32), TextSize::from(target.focus.1 as u32));
            let el = root.covering_element(r);
            let n = match el {
                syntax::NodeOrToken::Node(n) => n,
                syntax::NodeOrToken::Token(t) => t.parent().unwrap(),
            };
            // climb to the smallest node whose range equals the focus
            let mut k = format!("{:?}", n.kind());
            for a in n.ancestors() {
                if a.text_range() == r {
                    k = format!("{:?}", a.kind());
                    if let Some(p) = a.parent() {
                        if a.kind() == syntax::SyntaxKind::NAME || a.kind() == syntax::SyntaxKind::TYPE_NAME {
                            k = format!("{:?}/{:?}", p.kind(), a.kind());
                        }
                    }
                }
            }
            k
        };
        rep.see("declaration_kinds", decl_kind.clone());
        // (1) the declaration's own name is part of the relation
        let own_goto = census.iter().find(|t| t.file == tfile && t.a == own.0).map(|t| t.goto.clone()).unwrap_or(Goto::None);
        if own_goto != Goto::One(target.clone()) {
            rep.violate(
                format!("own-name-not-in-relation:{decl_kind}"),
                format!("goto from the declaration's own name `{name}` at {:?} gives {:?}, expected the declaration {:?}", own, own_goto, target),
                rp.clone(),
            );
        }
        // (2) references from every member
        for &(f, a, b) in set.iter() {
            rep.evaluations += 1;
            let out = panicmon::guard(|| an.references(FilePos::new(FileId(f), TextSize::from(a as u32))));
            let refs = match out {
                Outcome::Ok(Ok(r)) => r,
                Outcome::Ok(Err(_)) => continue,
                Outcome::Panicked(i) => {
                    rep.count("references_panicked(C10's business)", 1);
                    rep.see("panics_seen", i.signature());
                    continue;
                }
            };
            let list: Vec<(u32, usize, usize)> = refs.clone().unwrap_or_default().iter().map(|fr| (fr.file_id.0, usize::from(fr.range.start()), usize::from(fr.range.end()))).collect();
            let got: BTreeSet<(u32, usize, usize)> = list.iter().copied().collect();
            if got.len() != list.len() {
                rep.violate(format!("references-duplicate:{decl_kind}"), format!("references from {f}:{a} lists an occurrence twice: {list:?}"), rp.clone());
            }
            if got != set {
                let missing: Vec<_> = set.difference(&got).collect();
                let extra: Vec<_> = got.difference(&set).collect();
                let what = if refs.is_none() { "none" } else if !missing.is_empty() && extra.is_empty() { "missing" } else if missing.is_empty() { "extra" } else { "different" };
                let from_decl = (f, a, b) == (target.file, own.0, own.1);
                rep.violate(
                    format!("references-{what}:{decl_kind}:{}", if from_decl { "asked-at-declaration" } else { "asked-at-use" }),
                    format!("`{name}`: references asked at file {f} {a}..{b}: missing {missing:?}, extra {extra:?}; goto-derived set {set:?}"),
                    rp.clone(),
                );
            }
            // (3) highlight = the part in this file
            let hl = panicmon::guard(|| an.highlight_related(FilePos::new(FileId(f), TextSize::from(a as u32))));
            if let Outcome::Ok(Ok(hl)) = hl {
                let hlist: Vec<(u32, usize, usize)> = hl.iter().map(|h| (f, usize::from(h.range.start()), usize::from(h.range.end()))).collect();
                let hgot: BTreeSet<(u32, usize, usize)> = hlist.iter().copied().collect();
                let want: BTreeSet<(u32, usize, usize)> = set.iter().copied().filter(|x| x.0 == f).collect();
                if hgot.len() != hlist.len() {
                    rep.violate(format!("highlight-duplicate:{decl_kind}"), format!("{hlist:?}"), rp.clone());
                }
                if hgot != want {
                    rep.violate(
                        format!("highlight-differs:{decl_kind}"),
                        format!("`{name}` highlight at file {f} {a}..{b}: got {hgot:?}, expected {want:?}"),
                        rp.clone(),
                    );
                }
            }
        }
    }
    rep.see("workspace_origins", origin.to_string());
    if nontrivial {
        rep.nontrivial(fnv(files_json(files).to_string().as_bytes()));
    }
}

// ----------------------------------------------------------------------------------

fn run(args: Args) -> Report {
    let mut rep = Report::new(&args.prop, args.shard);
    let mut journal = Journal::open(&args.out, &args.prop, args.shard);
    let mut r = Rng::derive(args.seed, args.shard as u64, 20);
    let t0 = Instant::now();
    let mut n = 0u64;
    match args.prop.as_str() {
        "C05" => {
            while t0.elapsed().as_secs_f64() < args.budget_s {
                let case_seed = r.next_u64();
                let mut cr = Rng::new(case_seed);
                let cfg = gen_cfg(&mut cr, false);
                let ws = gen::generate(&mut cr, &cfg);
                journal.begin("c05", files_json(&ws.files()).to_string().as_bytes());
                run_c05_case(&mut rep, &ws, case_seed);
                if rep.samples.len() < 3 && n % 41 == 0 {
                    rep.sample(json!({"case_seed": case_seed.to_string(), "module0": truncate_str(&ws.printed[0].text, 300)}));
                }
                n += 1;
            }
        }
        "C06" => {
            // corpus first
            let corpus = vh::corpus();
            for (ci, (name, text)) in corpus.iter().enumerate() {
                if ci % args.nshards != args.shard {
                    continue;
                }
                let t = if text.len() > 12_000 { let mut e = 12_000; while !text.is_char_boundary(e) { e -= 1 } &text[..e] } else { text.as_str() };
                let files = vec![("/ws/pkg/src/corpus.gleam".to_string(), t.to_string()), ("/ws/pkg/gleam.toml".to_string(), "name = \"pkg\"\n".into())];
                journal.begin("c06-corpus", files_json(&files).to_string().as_bytes());
                run_c06_case(&mut rep, &files, "corpus", json!({"kind":"workspace","files":files_json(&files),"origin":name}));
            }
            while t0.elapsed().as_secs_f64() < args.budget_s {
                let case_seed = r.next_u64();
                let mut cr = Rng::new(case_seed);
                let (files, origin) = if cr.chance(1, 3) {
                    let d = vh::damage::damaged_workspace(&mut cr);
                    (d.files, "generated+damaged")
                } else {
                    let cfg = gen_cfg(&mut cr, false);
                    let ws = gen::generate(&mut cr, &cfg);
                    (ws.files(), "generated")
                };
                journal.begin("c06", files_json(&files).to_string().as_bytes());
                run_c06_case(&mut rep, &files, origin, json!({"kind":"workspace","files":files_json(&files),"case_seed":case_seed.to_string()}));
                if rep.samples.len() < 3 && n % 41 == 0 {
                    rep.sample(json!({"case_seed": case_seed.to_string(), "origin": origin, "file0": truncate_str(&files[0].1, 300)}));
                }
                n += 1;
            }
        }
        p => panic!("m_sema does not serve {p} yet"),
    }
    journal.idle();
    rep.count("workspaces", n);
    rep
}

fn main() {
    panicmon::install();
    let args = Args::parse();
    let a2 = args.clone();
    let rep = panicmon::on_stack(16 << 20, move || run(a2));
    rep.write(&args.out);
    let _: Option<PkgSpec> = None;
}
