//! Semantic monitors on scope-aware generated workspaces:
//!   C05 goto follows Gleam's scoping rules (by-construction binding oracle)
//!   C06 references <=> goto law over an identifier census (+ highlight)
//!   C07 rename to a fresh name preserves every identifier's meaning
//!   C08 rename refusal table (name classes x symbol kinds x locality)
//!   C18 completion sets at generator-known holes

use ide::{FileId, FilePos};
use serde_json::json;
use std::collections::{BTreeMap, BTreeSet};
use std::time::Instant;
use syntax::TextSize;
use vh::gen::{self, GenCfg, Workspace};
use vh::panicmon::{self, Outcome};
use vh::prog::{Bind, SymKind, Trivia};
use vh::report::{truncate_str, Args, Journal, Report};
use vh::rng::{fnv, Rng};
use vh::sema::{self, Goto, IdTok, Target};
use vh::ws::{self, Loaded, PkgSpec, TokenTable};

fn files_json(files: &[(String, String)]) -> serde_json::Value {
    json!(files.iter().map(|(p, t)| json!([p, t])).collect::<Vec<_>>())
}

fn gen_cfg(r: &mut Rng, holes: bool) -> GenCfg {
    GenCfg {
        modules: r.range(1, 4),
        max_items: r.range(3, 8),
        max_depth: r.range(1, 4),
        holes,
        non_core: r.chance(2, 3),
        trivia: if r.chance(1, 2) { Trivia::Wild } else { Trivia::Plain },
        non_ascii: r.chance(1, 3),
    }
}

fn kind_name(k: SymKind) -> String {
    format!("{k:?}")
}

// ----------------------------------------------------------------------------------
// C05

fn expected_target(ws: &Workspace, loaded: &Loaded, d: usize) -> Target {
    let c = ws.canonical(d);
    let di = &ws.decls[c];
    let file = loaded.file_by_path(&ws.path_of(di.module)).expect("module file");
    Target { file: file.0, focus: di.focus, full: (0, 0) }
}

fn run_c05_case(rep: &mut Report, ws: &Workspace, case_seed: u64) {
    let files = ws.files();
    let loaded = ws::load_single(&files);
    let an = loaded.host.snapshot();
    let replay = json!({"kind":"workspace","files":files_json(&files),"case_seed":case_seed.to_string()});
    let mut shadowed = false;
    for (mi, p) in ws.printed.iter().enumerate() {
        let file = loaded.file_by_path(&ws.path_of(mi)).unwrap();
        // shadowing present? (two decls with one spelling in this module)
        let mut names: BTreeMap<&str, usize> = BTreeMap::new();
        for d in ws.decls.iter().filter(|d| d.module == mi && !d.name.is_empty()) {
            *names.entry(d.name.as_str()).or_insert(0) += 1;
        }
        if names.values().any(|&n| n > 1) {
            shadowed = true;
        }
        for occ in &p.occs {
            for probe in [occ.range.0, occ.range.1] {
                rep.evaluations += 1;
                let got = sema::goto_at(&an, file, probe);
                let site = occ.ident.site;
                let mut rp = replay.clone();
                rp["occurrence"] = json!({"module": mi, "range": [occ.range.0, occ.range.1], "text": occ.ident.text, "site": site, "probe": probe});
                if let Goto::Panicked(sig) = &got {
                    rep.count("goto_panicked(C10's business)", 1);
                    rep.see("panics_seen", sig.clone());
                    continue;
                }
                match &occ.ident.bind {
                    Bind::Plain => {
                        rep.count("plain_occurrences_not_judged", 1);
                    }
                    Bind::Decl(d) => {
                        let kind = kind_name(ws.decls[*d].kind);
                        rep.see("cells", format!("decl:{kind}"));
                        let want = expected_target(ws, &loaded, *d);
                        match &got {
                            Goto::None => {
                                rep.count("decl_sites_without_answer(soundness only; C06 requires them)", 1);
                            }
                            Goto::One(t) if t.file == want.file && t.focus == want.focus => {
                                rep.count("decl_sites_resolving_to_themselves", 1);
                            }
                            other => {
                                rep.violate(
                                    format!("goto-wrong:decl-site:{kind}"),
                                    format!("declaration `{}` ({kind}) at {:?} resolves to {:?}, expected itself {:?}", occ.ident.text, occ.range, other, want),
                                    rp,
                                );
                            }
                        }
                    }
                    Bind::Use { target, core } => {
                        let kind = target.map(|d| kind_name(ws.decls[d].kind)).unwrap_or_else(|| "Unbound".into());
                        rep.see("cells", format!("{site}:{kind}:{}", if *core { "core" } else { "soundness-only" }));
                        match (target, &got) {
                            (Some(d), Goto::One(t)) => {
                                let want = expected_target(ws, &loaded, *d);
                                if t.file == want.file && t.focus == want.focus {
                                    rep.count("uses_resolved_correctly", 1);
                                    if !(t.full.0 <= t.focus.0 && t.focus.1 <= t.full.1) {
                                        rep.count("focus_outside_full(C20's business)", 1);
                                    }
                                } else if site == "field-base-spelled-like-module" && t.focus == (0, 0) {
                                    // `x.label` with a local x spelled like an imported module: a module
                                    // access whenever the record access does not type-check (Gleam's rule,
                                    // pinned by the repo's own test hover::tests::module); types are
                                    // unknown in scoped mode, so the module reading is accepted here.
                                    rep.count("field_base_read_as_module_access(type-dependent; judged on typed programs)", 1);
                                } else {
                                    // what did it land on?
                                    let landed = ws
                                        .decls
                                        .iter()
                                        .enumerate()
                                        .find(|(_, x)| loaded.file_by_path(&ws.path_of(x.module)).map(|f| f.0) == Some(t.file) && x.focus == t.focus)
                                        .map(|(_, x)| format!("{:?} `{}`", x.kind, x.name))
                                        .unwrap_or_else(|| "no declaration of the generator".into());
                                    rep.violate(
                                        format!("goto-wrong:{site}:{kind}"),
                                        format!(
                                            "`{}` at {:?} in {} is bound to {:?} `{}` at {:?} (file {}), but goto lands on file {} {:?} ({landed})",
                                            occ.ident.text,
                                            occ.range,
                                            ws.path_of(mi),
                                            ws.decls[ws.canonical(*d)].kind,
                                            ws.decls[ws.canonical(*d)].name,
                                            want.focus,
                                            want.file,
                                            t.file,
                                            t.focus
                                        ),
                                        rp,
                                    );
                                }
                            }
                            (Some(_), Goto::None) => {
                                if *core {
                                    rep.violate(
                                        format!("goto-missing:{site}:{kind}"),
                                        format!("`{}` at {:?} in {} ({site}) is in the supported core but gets no definition", occ.ident.text, occ.range, ws.path_of(mi)),
                                        rp,
                                    );
                                } else {
                                    rep.count("non_core_uses_without_answer", 1);
                                }
                            }
                            (None, Goto::None) => {
                                rep.count("unbound_or_builtin_without_answer", 1);
                            }
                            (None, other) => {
                                if *core {
                                    rep.violate(
                                        format!("goto-unexpected:{site}"),
                                        format!("`{}` at {:?} ({site}) is a built-in / not a declared symbol but goto answers {:?}", occ.ident.text, occ.range, other),
                                        rp,
                                    );
                                } else {
                                    rep.count("non_core_unbound_with_answer_not_judged", 1);
                                }
                            }
                            (Some(_), other) => {
                                rep.violate(format!("goto-shape:{site}:{kind}"), format!("expected one target, got {:?}", other), rp);
                            }
                        }
                    }
                    Bind::Module { module, core } => {
                        rep.see("cells", format!("{site}:Module:{}", if *core { "core" } else { "soundness-only" }));
                        let mf = loaded.file_by_path(&ws.path_of(*module)).unwrap();
                        match &got {
                            Goto::One(t) if t.file == mf.0 && t.focus == (0, 0) => rep.count("module_qualifiers_resolved", 1),
                            Goto::None if !*core => rep.count("non_core_qualifier_without_answer", 1),
                            Goto::None => {
                                rep.violate(format!("goto-missing:{site}:Module"), format!("qualifier `{}` at {:?} gets no definition", occ.ident.text, occ.range), rp);
                            }
                            other => {
                                rep.violate(
                                    format!("goto-wrong:{site}:Module"),
                                    format!("qualifier `{}` at {:?} should lead to module file {} 0..0, got {:?}", occ.ident.text, occ.range, mf.0, other),
                                    rp,
                                );
                            }
                        }
                    }
                }
            }
        }
    }
    if shadowed {
        rep.nontrivial(fnv(files_json(&files).to_string().as_bytes()));
    }
}

// ----------------------------------------------------------------------------------
// C06

fn first_ident_in(tt: &TokenTable, focus: (usize, usize)) -> Option<(usize, usize)> {
    tt.tokens
        .iter()
        .find(|(a, b, k)| *a >= focus.0 && *b <= focus.1 && (*k == syntax::SyntaxKind::IDENT || *k == syntax::SyntaxKind::U_IDENT))
        .map(|(a, b, _)| (*a, *b))
}

fn top_level_name_count(text: &str, name: &str) -> usize {
    use syntax::ast::{self, AstNode};
    let parse = syntax::parse_module(text);
    let mut n = 0;
    for st in parse.root().statements() {
        match st {
            ast::ModuleStatement::Function(f) => n += (f.name().and_then(|x| x.text()).as_deref() == Some(name)) as usize,
            ast::ModuleStatement::ModuleConstant(c) => n += (c.name().and_then(|x| x.text()).as_deref() == Some(name)) as usize,
            ast::ModuleStatement::TypeAlias(a) => n += (a.name().and_then(|x| x.text()).as_deref() == Some(name)) as usize,
            ast::ModuleStatement::Adt(a) => {
                n += (a.name().and_then(|x| x.text()).as_deref() == Some(name)) as usize;
                // constructors live in the value namespace: count them separately
                let mut vn = 0;
                for v in a.constructors() {
                    vn += (v.name().and_then(|x| x.text()).as_deref() == Some(name)) as usize;
                }
                if vn > 0 {
                    // a constructor named like its own type is fine; several constructors of one name are not
                    n = n.max(count_ctors(&parse.root(), name));
                }
            }
            ast::ModuleStatement::Import(_) => {}
        }
        let _ = st_dummy();
    }
    n
}

fn st_dummy() {}

fn count_ctors(root: &syntax::ast::SourceFile, name: &str) -> usize {
    use syntax::ast;
    let mut n = 0;
    for st in root.statements() {
        if let ast::ModuleStatement::Adt(a) = st {
            for v in a.constructors() {
                n += (v.name().and_then(|x| x.text()).as_deref() == Some(name)) as usize;
            }
        }
    }
    n
}

fn run_c06_case(rep: &mut Report, files: &[(String, String)], origin: &str, replay: serde_json::Value) {
    let loaded = ws::load_single(files);
    let an = loaded.host.snapshot();
    let tables = sema::tables_of(&loaded);
    let census: Vec<IdTok> = sema::census(&loaded, &an, &tables);
    rep.evaluations += census.len() as u64;
    // group by target
    let mut by_target: BTreeMap<Target, Vec<usize>> = BTreeMap::new();
    for (i, t) in census.iter().enumerate() {
        if let Goto::One(tg) = &t.goto {
            if tg.focus == (0, 0) {
                continue; // module
            }
            by_target.entry(tg.clone()).or_default().push(i);
        }
    }
    let mut nontrivial = false;
    for (target, members) in &by_target {
        let tfile = FileId(target.file);
        if !loaded.has_file(tfile) {
            continue;
        }
        let Some(own) = first_ident_in(&tables[&target.file], target.focus) else {
            rep.count("targets_without_identifier_in_focus", 1);
            continue;
        };
        let name = loaded.text(tfile)[own.0..own.1].to_string();
        // Duplicate top-level definitions of one name are errors in Gleam and have no
        // binding semantics (the later one wins in glas): not judged.
        if top_level_name_count(loaded.text(tfile), &name) >= 2 {
            rep.count("targets_with_duplicate_definitions_not_judged", 1);
            continue;
        }
        // S_D
        let mut set: BTreeSet<(u32, usize, usize)> = BTreeSet::new();
        set.insert((target.file, own.0, own.1));
        for &i in members {
            if census[i].text == name {
                set.insert((census[i].file.0, census[i].a, census[i].b));
            }
        }
        if set.len() >= 2 {
            nontrivial = true;
        }
        let mut rp = replay.clone();
        rp["declaration"] = json!({"file": loaded.path(tfile), "focus": [target.focus.0, target.focus.1], "name": name});
        // what node kind is the declaration? (for signatures)
        let decl_kind = {
            let parse = syntax::parse_module(loaded.text(tfile));
            let root = parse.syntax_node();
            let r = syntax::TextRange::new(TextSize::from(target.focus.0 as u32), TextSize::from(target.focus.1 as u32));
            let el = root.covering_element(r);
            let n = match el {
                syntax::NodeOrToken::Node(n) => n,
                syntax::NodeOrToken::Token(t) => t.parent().unwrap(),
            };
            // climb to the smallest node whose range equals the focus
            let mut k = format!("{:?}", n.kind());
            for a in n.ancestors() {
                if a.text_range() == r {
                    k = format!("{:?}", a.kind());
                    if let Some(p) = a.parent() {
                        if a.kind() == syntax::SyntaxKind::NAME || a.kind() == syntax::SyntaxKind::TYPE_NAME {
                            k = format!("{:?}/{:?}", p.kind(), a.kind());
                        }
                    }
                }
            }
            k
        };
        rep.see("declaration_kinds", decl_kind.clone());
        // (1) the declaration's own name is part of the relation
        let own_goto = census.iter().find(|t| t.file == tfile && t.a == own.0).map(|t| t.goto.clone()).unwrap_or(Goto::None);
        if own_goto != Goto::One(target.clone()) {
            rep.violate(
                format!("own-name-not-in-relation:{decl_kind}"),
                format!("goto from the declaration's own name `{name}` at {:?} gives {:?}, expected the declaration {:?}", own, own_goto, target),
                rp.clone(),
            );
        }
        // (2) references from every member
        for &(f, a, b) in set.iter() {
            rep.evaluations += 1;
            let out = panicmon::guard(|| an.references(FilePos::new(FileId(f), TextSize::from(a as u32))));
            let refs = match out {
                Outcome::Ok(Ok(r)) => r,
                Outcome::Ok(Err(_)) => continue,
                Outcome::Panicked(i) => {
                    rep.count("references_panicked(C10's business)", 1);
                    rep.see("panics_seen", i.signature());
                    continue;
                }
            };
            let list: Vec<(u32, usize, usize)> = refs.clone().unwrap_or_default().iter().map(|fr| (fr.file_id.0, usize::from(fr.range.start()), usize::from(fr.range.end()))).collect();
            let got: BTreeSet<(u32, usize, usize)> = list.iter().copied().collect();
            if got.len() != list.len() {
                rep.violate(format!("references-duplicate:{decl_kind}"), format!("references from {f}:{a} lists an occurrence twice: {list:?}"), rp.clone());
            }
            if got != set {
                let missing: Vec<_> = set.difference(&got).collect();
                let extra: Vec<_> = got.difference(&set).collect();
                let what = if refs.is_none() { "none" } else if !missing.is_empty() && extra.is_empty() { "missing" } else if missing.is_empty() { "extra" } else { "different" };
                let from_decl = (f, a, b) == (target.file, own.0, own.1);
                rep.violate(
                    format!("references-{what}:{decl_kind}:{}", if from_decl { "asked-at-declaration" } else { "asked-at-use" }),
                    format!("`{name}`: references asked at file {f} {a}..{b}: missing {missing:?}, extra {extra:?}; goto-derived set {set:?}"),
                    rp.clone(),
                );
            }
            // (3) highlight = the part in this file
            let hl = panicmon::guard(|| an.highlight_related(FilePos::new(FileId(f), TextSize::from(a as u32))));
            if let Outcome::Ok(Ok(hl)) = hl {
                let hlist: Vec<(u32, usize, usize)> = hl.iter().map(|h| (f, usize::from(h.range.start()), usize::from(h.range.end()))).collect();
                let hgot: BTreeSet<(u32, usize, usize)> = hlist.iter().copied().collect();
                let want: BTreeSet<(u32, usize, usize)> = set.iter().copied().filter(|x| x.0 == f).collect();
                if hgot.len() != hlist.len() {
                    rep.violate(format!("highlight-duplicate:{decl_kind}"), format!("{hlist:?}"), rp.clone());
                }
                if hgot != want {
                    rep.violate(
                        format!("highlight-differs:{decl_kind}"),
                        format!("`{name}` highlight at file {f} {a}..{b}: got {hgot:?}, expected {want:?}"),
                        rp.clone(),
                    );
                }
            }
        }
    }
    rep.see("workspace_origins", origin.to_string());
    if nontrivial {
        rep.nontrivial(fnv(files_json(files).to_string().as_bytes()));
    }
}

// ----------------------------------------------------------------------------------
// C07

fn fresh_name_for(token_text: &str, all_text: &str, salt: usize) -> String {
    let upper = token_text.chars().next().map(|c| c.is_ascii_uppercase()).unwrap_or(false);
    let mut k = salt;
    loop {
        let cand = if upper { format!("ZzFresh{k}Q") } else { format!("zz_fresh{k}_q") };
        if !all_text.contains(&cand) {
            return cand;
        }
        k += 1;
    }
}

struct RenameOutcome {
    new_files: Vec<(String, String)>,
    edits_by_file: BTreeMap<u32, Vec<(usize, usize, String)>>,
}

fn do_rename(loaded: &Loaded, an: &ide::Analysis, file: FileId, pos: usize, name: &str) -> Result<Result<RenameOutcome, String>, String> {
    let out = panicmon::guard(|| an.rename(FilePos::new(file, TextSize::from(pos as u32)), name));
    let we = match out {
        Outcome::Panicked(i) => return Err(i.signature()),
        Outcome::Ok(Err(_)) => return Err("cancelled".into()),
        Outcome::Ok(Ok(Err(e))) => return Ok(Err(e)),
        Outcome::Ok(Ok(Ok(we))) => we,
    };
    let mut edits_by_file: BTreeMap<u32, Vec<(usize, usize, String)>> = BTreeMap::new();
    for (f, es) in &we.content_edits {
        for e in es {
            edits_by_file.entry(f.0).or_default().push((e.delete.start().into(), e.delete.end().into(), e.insert.to_string()));
        }
    }
    for v in edits_by_file.values_mut() {
        v.sort();
    }
    let mut new_files = Vec::new();
    for (fid, path, text) in &loaded.files {
        let t = match edits_by_file.get(&fid.0) {
            Some(es) => match sema::apply_edits(text, es) {
                Some(t) => t,
                None => return Ok(Err("__overlap__".into())),
            },
            None => text.clone(),
        };
        new_files.push((path.clone(), t));
    }
    Ok(Ok(RenameOutcome { new_files, edits_by_file }))
}

fn map_target(edits: &BTreeMap<u32, Vec<(usize, usize, String)>>, t: &Target) -> Target {
    let empty = Vec::new();
    let es = edits.get(&t.file).unwrap_or(&empty);
    let m = |o: usize| sema::map_offset(es, o);
    // end offsets: map end as start-of-token + new len when the end coincides with an edited token's end
    let map_end = |o: usize| -> usize {
        for (a, b, ins) in es {
            if o == *b {
                return sema::map_offset(es, *a) + ins.len();
            }
        }
        m(o)
    };
    Target { file: t.file, focus: (m(t.focus.0), map_end(t.focus.1)), full: (m(t.full.0), map_end(t.full.1)) }
}

fn run_c07_case(rep: &mut Report, ws: &Workspace, case_seed: u64, r: &mut Rng, per_ws: usize) {
    let files = ws.files();
    let loaded = ws::load_single(&files);
    let an = loaded.host.snapshot();
    let tables = sema::tables_of(&loaded);
    let census0 = sema::census(&loaded, &an, &tables);
    let all_text: String = files.iter().map(|f| f.1.as_str()).collect::<Vec<_>>().join("\n");
    let errors0: BTreeMap<u32, Vec<(usize, usize, String)>> = loaded
        .files
        .iter()
        .map(|f| (f.0 .0, syntax::parse_module(&f.2).errors().iter().map(|e| (usize::from(e.range.start()), usize::from(e.range.end()), format!("{:?}", e.kind))).collect()))
        .collect();
    // candidate occurrences
    let mut cands: Vec<(usize, usize)> = Vec::new(); // (module, occ index)
    for (mi, p) in ws.printed.iter().enumerate() {
        for (oi, o) in p.occs.iter().enumerate() {
            match &o.ident.bind {
                Bind::Decl(_) | Bind::Use { target: Some(_), .. } => cands.push((mi, oi)),
                _ => {}
            }
        }
    }
    r.shuffle(&mut cands);
    cands.truncate(per_ws);
    for (k, (mi, oi)) in cands.into_iter().enumerate() {
        let occ = &ws.printed[mi].occs[oi];
        let file = loaded.file_by_path(&ws.path_of(mi)).unwrap();
        let d = match &occ.ident.bind {
            Bind::Decl(d) => *d,
            Bind::Use { target: Some(d), .. } => *d,
            _ => continue,
        };
        let canon = ws.canonical(d);
        let kind = kind_name(ws.decls[canon].kind);
        let site = occ.ident.site;
        let old = occ.ident.text.clone();
        let fresh = fresh_name_for(&old, &all_text, k);
        rep.evaluations += 1;
        let mut rp = json!({"kind":"workspace","files":files_json(&files),"case_seed":case_seed.to_string(),
            "rename":{"module":mi,"range":[occ.range.0,occ.range.1],"text":old,"site":site,"new_name":fresh}});
        let outcome = match do_rename(&loaded, &an, file, occ.range.0, &fresh) {
            Err(sig) => {
                rep.count("rename_panicked(C10's business)", 1);
                rep.see("panics_seen", sig);
                continue;
            }
            Ok(Err(e)) if e == "__overlap__" => {
                rep.violate(format!("rename-edits-overlap:{kind}"), format!("edits for `{old}` overlap or are out of bounds"), rp);
                continue;
            }
            Ok(Err(e)) => {
                rep.see("refused_cells", format!("{site}:{kind}:{}", e.split(' ').take(3).collect::<Vec<_>>().join("_")));
                continue;
            }
            Ok(Ok(o)) => o,
        };
        rep.see("accepted_cells", format!("{site}:{kind}"));
        let n_edits: usize = outcome.edits_by_file.values().map(|v| v.len()).sum();
        if n_edits >= 2 {
            rep.nontrivial(fnv(format!("{case_seed}:{mi}:{oi}").as_bytes()));
        }
        // (1) whole identifier tokens spelled with the old name, disjoint, no duplicates
        let mut bad = false;
        for (f, es) in &outcome.edits_by_file {
            let text = loaded.text(FileId(*f));
            let tt = &tables[f];
            for w in es.windows(2) {
                if w[0] == w[1] {
                    rep.violate(format!("rename-edit-duplicated:{kind}"), format!("{:?} listed twice", w[0]), rp.clone());
                    bad = true;
                }
            }
            for (a, b, ins) in es {
                let is_ident_tok = tt.tokens.iter().any(|(x, y, k)| x == a && y == b && (*k == syntax::SyntaxKind::IDENT || *k == syntax::SyntaxKind::U_IDENT));
                if !is_ident_tok {
                    rep.violate(format!("rename-edit-not-an-identifier-token:{kind}"), format!("edit {a}..{b} in file {f} = {:?}", text.get(*a..*b)), rp.clone());
                    bad = true;
                } else if &text[*a..*b] != old {
                    rep.violate(format!("rename-edit-on-other-spelling:{kind}"), format!("edit {a}..{b} replaces `{}` while renaming `{old}`", &text[*a..*b]), rp.clone());
                    bad = true;
                }
                if ins != &fresh {
                    rep.violate(format!("rename-inserts-other-text:{kind}"), format!("inserts {ins:?} instead of {fresh:?}"), rp.clone());
                    bad = true;
                }
            }
        }
        if bad {
            continue;
        }
        // (2) edit set == references
        let refs = panicmon::guard(|| an.references(FilePos::new(file, TextSize::from(occ.range.0 as u32))));
        if let Outcome::Ok(Ok(Some(refs))) = refs {
            let rset: BTreeSet<(u32, usize, usize)> = refs.iter().map(|fr| (fr.file_id.0, usize::from(fr.range.start()), usize::from(fr.range.end()))).collect();
            let eset: BTreeSet<(u32, usize, usize)> = outcome.edits_by_file.iter().flat_map(|(f, es)| es.iter().map(move |e| (*f, e.0, e.1))).collect();
            if rset != eset {
                rep.violate(
                    format!("rename-edits-differ-from-references:{kind}"),
                    format!("edits {eset:?} vs references {rset:?}"),
                    rp.clone(),
                );
            }
        }
        // (6) ground truth: every core occurrence of the symbol is edited, no edit hits another symbol
        let eset: BTreeSet<(u32, usize, usize)> = outcome.edits_by_file.iter().flat_map(|(f, es)| es.iter().map(move |e| (*f, e.0, e.1))).collect();
        for (mj, p) in ws.printed.iter().enumerate() {
            let fj = loaded.file_by_path(&ws.path_of(mj)).unwrap().0;
            for o in &p.occs {
                let (od, core) = match &o.ident.bind {
                    Bind::Decl(x) => (Some(*x), true),
                    Bind::Use { target: Some(x), core } => (Some(*x), *core),
                    _ => (None, false),
                };
                let key = (fj, o.range.0, o.range.1);
                match od {
                    Some(x) if ws.canonical(x) == canon && o.ident.text == old => {
                        if core && !eset.contains(&key) {
                            rep.violate(
                                format!("rename-misses-occurrence:{}:{kind}", o.ident.site),
                                format!("renaming `{old}` ({kind}) from {site} leaves the occurrence at module {mj} {:?} ({}) untouched", o.range, o.ident.site),
                                rp.clone(),
                            );
                        }
                    }
                    Some(x) if ws.canonical(x) != canon => {
                        if eset.contains(&key) {
                            rep.violate(
                                format!("rename-captures-other-symbol:{}:{kind}", o.ident.site),
                                format!("renaming `{old}` ({kind}) also edits module {mj} {:?}, an occurrence of {:?} `{}`", o.range, ws.decls[ws.canonical(x)].kind, ws.decls[ws.canonical(x)].name),
                                rp.clone(),
                            );
                        }
                    }
                    _ => {}
                }
            }
        }
        // (3) meaning preserved: fresh analysis of the edited workspace
        let loaded1 = ws::load_single(&outcome.new_files);
        let an1 = loaded1.host.snapshot();
        for t0 in &census0 {
            if matches!(t0.goto, Goto::Panicked(_)) {
                continue;
            }
            let empty = Vec::new();
            let es = outcome.edits_by_file.get(&t0.file.0).unwrap_or(&empty);
            let p1 = sema::map_offset(es, t0.a);
            let f1 = loaded1.file_by_path(loaded.path(t0.file)).unwrap();
            let g1 = sema::goto_at(&an1, f1, p1);
            let want = match &t0.goto {
                Goto::One(t) => Goto::One(map_target(&outcome.edits_by_file, t)),
                Goto::Many(ts) => Goto::Many(ts.iter().map(|t| map_target(&outcome.edits_by_file, t)).collect()),
                other => other.clone(),
            };
            rep.count("identifiers_rechecked_after_rename", 1);
            if g1 != want {
                rp["broken_identifier"] = json!({"file": loaded.path(t0.file), "range": [t0.a, t0.b], "text": t0.text});
                rep.violate(
                    format!("rename-changes-meaning:{kind}"),
                    format!("after renaming `{old}` -> `{fresh}`, identifier `{}` at file {} {}..{} resolves to {:?}, before (mapped) {:?}", t0.text, t0.file.0, t0.a, t0.b, g1, want),
                    rp.clone(),
                );
                break;
            }
        }
        // (4) syntax errors unchanged under the position map
        for (fid, _p, text1) in &loaded1.files {
            let e1: Vec<(usize, usize, String)> = syntax::parse_module(text1).errors().iter().map(|e| (usize::from(e.range.start()), usize::from(e.range.end()), format!("{:?}", e.kind))).collect();
            let empty = Vec::new();
            let es = outcome.edits_by_file.get(&fid.0).unwrap_or(&empty);
            let e0: Vec<(usize, String)> = errors0.get(&fid.0).cloned().unwrap_or_default().iter().map(|(a, _b, k)| (sema::map_offset(es, *a), k.clone())).collect();
            let e1s: Vec<(usize, String)> = e1.iter().map(|(a, _b, k)| (*a, k.clone())).collect();
            if e0 != e1s {
                rep.violate(format!("rename-changes-syntax-errors:{kind}"), format!("before (mapped) {e0:?} after {e1s:?}"), rp.clone());
            }
        }
        // (5) rename back restores the text
        let empty = Vec::new();
        let es = outcome.edits_by_file.get(&file.0).unwrap_or(&empty);
        let back_pos = sema::map_offset(es, occ.range.0);
        let f1 = loaded1.file_by_path(loaded.path(file)).unwrap();
        match do_rename(&loaded1, &an1, f1, back_pos, &old) {
            Ok(Ok(o2)) => {
                if o2.new_files != files_sorted_like(&loaded1, &files) {
                    rep.violate(format!("rename-back-does-not-restore:{kind}"), format!("renaming `{fresh}` back to `{old}` does not give the original text"), rp.clone());
                }
            }
            Ok(Err(e)) => {
                rep.violate(format!("rename-back-refused:{kind}"), format!("renaming `{fresh}` back to `{old}` at {back_pos} is refused: {e}"), rp.clone());
            }
            Err(_) => {}
        }
    }
}

fn files_sorted_like(loaded: &Loaded, files: &[(String, String)]) -> Vec<(String, String)> {
    loaded.files.iter().map(|(_, p, _)| (p.clone(), files.iter().find(|f| &f.0 == p).map(|f| f.1.clone()).unwrap_or_default())).collect()
}

// ----------------------------------------------------------------------------------
// C08

fn keywords() -> Vec<&'static str> {
    vec!["as", "assert", "case", "const", "external", "fn", "if", "import", "let", "opaque", "panic", "pub", "todo", "type", "use"]
}

fn name_classes() -> Vec<(&'static str, String)> {
    let mut v: Vec<(&'static str, String)> = Vec::new();
    for k in keywords() {
        v.push(("keyword", k.to_string()));
    }
    for n in ["zz_new", "a1", "z"] {
        v.push(("lower", n.to_string()));
    }
    v.push(("lower", format!("z{}", "a".repeat(299))));
    for n in ["ZzNew", "A1", "Z"] {
        v.push(("upper", n.to_string()));
    }
    for (c, n) in [
        ("discard", "_x"), ("discard", "_"), ("mixed-case", "fooBar"), ("mixed-case", "Foo_bar"), ("number", "12"), ("number", "1.5"), ("number-ident", "1x"),
        ("string", "\"s\""), ("operator", "+"), ("operator", "->"), ("operator", ".."), ("punctuation", "("), ("punctuation", ","), ("empty", ""),
        ("whitespace", " "), ("whitespace", "\n"), ("spaced", "a b"), ("spaced", " a"), ("spaced", "a "), ("spaced", "A b"), ("dotted", "a.b"), ("dotted", "A.B"),
        ("slashed", "a/b"), ("multiline", "a\nb"), ("non-ascii", "ß"), ("non-ascii", "Ärger"), ("non-ascii", "💣"), ("non-ascii", "naïve"), ("comment", "a//c"), ("comment", "//c"),
    ] {
        v.push((c, n.to_string()));
    }
    v
}

fn lex_class(name: &str) -> &'static str {
    // independent classifier: exactly one lower/upper identifier, not a keyword
    let b = name.as_bytes();
    if b.is_empty() {
        return "invalid";
    }
    if keywords().contains(&name) {
        return "invalid";
    }
    if b[0].is_ascii_lowercase() && b.iter().all(|c| c.is_ascii_lowercase() || c.is_ascii_digit() || *c == b'_') {
        return "lower";
    }
    if b[0].is_ascii_uppercase() && b.iter().all(|c| c.is_ascii_alphanumeric()) {
        return "upper";
    }
    "invalid"
}

fn required_class(k: SymKind) -> Option<&'static str> {
    Some(match k {
        SymKind::Function | SymKind::Constant | SymKind::Field | SymKind::Param | SymKind::Let | SymKind::ClauseVar | SymKind::LambdaParam | SymKind::UseVar | SymKind::AsVar | SymKind::SpreadVar | SymKind::PrefixVar => "lower",
        SymKind::Adt | SymKind::Alias | SymKind::Variant => "upper",
        _ => return None,
    })
}

fn multi_package(ws: &Workspace) -> (Vec<PkgSpec>, Vec<usize>) {
    // module index -> package index: m0 registry dependency (non-local), m1 path dependency
    // (local), the rest the root package.
    let roots = ["/ws/root/build/packages/dep", "/ws/pathdep", "/ws/root"];
    let names = ["dep", "pathdep", "root"];
    let mut pkgs: Vec<PkgSpec> = (0..3)
        .map(|i| PkgSpec { root: roots[i].into(), name: names[i].into(), is_local: i != 0, deps: vec![], files: vec![(format!("{}/gleam.toml", roots[i]), format!("name = \"{}\"\n", names[i]))] })
        .collect();
    pkgs[2].deps = vec![0, 1];
    pkgs[1].deps = vec![0];
    let mut pkg_of_module = Vec::new();
    for (mi, m) in ws.modules.iter().enumerate() {
        let pi = match mi {
            0 if ws.modules.len() > 1 => 0,
            1 if ws.modules.len() > 2 => 1,
            _ => 2,
        };
        pkg_of_module.push(pi);
        pkgs[pi].files.push((format!("{}/src/{}.gleam", roots[pi], m.name), ws.printed[mi].text.clone()));
    }
    (pkgs, pkg_of_module)
}

fn run_c08_case(rep: &mut Report, ws: &Workspace, case_seed: u64, r: &mut Rng, per_ws: usize) {
    let (mut pkgs, pkg_of_module) = multi_package(ws);
    // a free-standing copy of module 0: a file below no gleam.toml, in no package of the graph
    // (what the server makes of a lone .gleam file). Judged there: invalid names are refused and
    // prepare-rename agrees with rename.
    const FREE: &str = "/free/solo.gleam";
    pkgs.push(ws::PkgSpec { root: "/free".into(), name: "free".into(), is_local: true, deps: vec![], files: vec![(FREE.into(), ws.printed[0].text.clone())] });
    let loaded = ws::load_packages(&pkgs);
    let an = loaded.host.snapshot();
    let all_files: Vec<(String, String)> = pkgs.iter().flat_map(|p| p.files.iter().cloned()).collect();
    let module_path = |mi: usize| -> String { format!("{}/src/{}.gleam", pkgs[pkg_of_module[mi]].root, ws.modules[mi].name) };
    let classes = name_classes();
    let mut cands: Vec<(usize, usize)> = Vec::new();
    for (mi, p) in ws.printed.iter().enumerate() {
        for (oi, o) in p.occs.iter().enumerate() {
            match &o.ident.bind {
                Bind::Decl(_) | Bind::Use { .. } | Bind::Module { .. } => cands.push((mi, oi)),
                Bind::Plain => {}
            }
        }
    }
    r.shuffle(&mut cands);
    cands.truncate(per_ws);
    let replay_base = json!({"kind":"packages","packages": pkgs.iter().map(|p| json!({"root":p.root,"name":p.name,"is_local":p.is_local,"deps":p.deps,"files":files_json(&p.files)})).collect::<Vec<_>>(),"case_seed":case_seed.to_string()});
    let _ = all_files;
    for (mi, oi) in cands {
        let occ = &ws.printed[mi].occs[oi];
        let free = mi == 0 && r.chance(1, 3);
        let file = loaded.file_by_path(if free { FREE.to_string() } else { module_path(mi) }.as_str()).unwrap();
        // the cursor: at the start of the name, inside it, or right behind its last character
        // (where a bar cursor sits after typing or clicking at the end of a word)
        let (at, at_name) = match r.below(3) {
            0 => (occ.range.0, "start"),
            1 if occ.range.1 - occ.range.0 >= 2 && ws.printed[mi].text.is_char_boundary(occ.range.0 + 1) => (occ.range.0 + 1, "inside"),
            1 => (occ.range.0, "start"),
            _ => (occ.range.1, "end"),
        };
        rep.see("cursor_positions", at_name);
        let fpos = FilePos::new(file, TextSize::from(at as u32));
        // classification from the sidecar
        let (symbol, what): (Option<usize>, &'static str) = match &occ.ident.bind {
            Bind::Decl(d) => (Some(ws.canonical(*d)), "symbol"),
            Bind::Use { target: Some(d), .. } => (Some(ws.canonical(*d)), "symbol"),
            Bind::Use { target: None, core: true } if occ.ident.site == "builtin-ctor" => (None, "builtin"),
            Bind::Module { .. } => (None, "module"),
            _ => continue,
        };
        let kind = symbol.map(|d| ws.decls[d].kind);
        let alias_spelling = symbol.map(|d| ws.decls[d].name != occ.ident.text).unwrap_or(false);
        let local = symbol.map(|d| pkgs[pkg_of_module[ws.decls[d].module]].is_local).unwrap_or(true);
        let locality = if free { "free-standing" } else if local { if symbol.map(|d| pkg_of_module[ws.decls[d].module] == 1).unwrap_or(false) { "local-path-dep" } else { "local-root" } } else { "non-local" };
        let kname = kind.map(kind_name).unwrap_or_else(|| what.to_string());
        let mut rp = replay_base.clone();
        rp["occurrence"] = json!({"path": if free { FREE.to_string() } else { module_path(mi) }, "range": [occ.range.0, occ.range.1], "text": occ.ident.text, "site": occ.ident.site, "cursor": at});
        let mut valid_ok: Option<bool> = None;
        // every candidate name - and the symbol's own current spelling (a rename "to itself": nothing to do for
        // a local symbol, still not allowed for a foreign one)
        let mut classes_here = classes.clone();
        classes_here.push(("own-current-name", occ.ident.text.clone()));
        for (cname, name) in &classes_here {
            rep.evaluations += 1;
            let out = panicmon::guard(|| an.rename(fpos, name));
            let res = match out {
                Outcome::Ok(Ok(r)) => r,
                Outcome::Ok(Err(_)) => continue,
                Outcome::Panicked(i) => {
                    rep.count("rename_panicked(C10's business)", 1);
                    rep.see("panics_seen", i.signature());
                    continue;
                }
            };
            let class_ok = match kind.and_then(required_class) {
                Some(req) => lex_class(name) == req,
                None => false,
            };
            // in the free-standing copy imports do not resolve: only the name class is judged there
            let must_refuse = if free { what == "symbol" && !class_ok } else { what != "symbol" || alias_spelling || !local || !class_ok };
            if free && what != "symbol" {
                continue;
            }
            rep.see("cells", format!("{kname}:{cname}:{locality}{}", if alias_spelling { ":alias-spelling" } else { "" }));
            match &res {
                Ok(we) => {
                    let n: usize = we.content_edits.values().map(|v| v.len()).sum();
                    if must_refuse {
                        let why = if what != "symbol" { what } else if alias_spelling { "alias-spelling" } else if !local { "non-local-definition" } else { "invalid-name" };
                        let mut rp2 = rp.clone();
                        rp2["new_name"] = json!(name);
                        rep.violate(
                            format!("rename-accepts:{kname}:{why}:name-class={cname}"),
                            format!("rename of `{}` ({kname}, {locality}) to {name:?} is accepted with {n} edits", occ.ident.text),
                            rp2,
                        );
                    }
                    // edits only in local packages
                    for f in we.content_edits.keys() {
                        let pi = loaded.pkg_of_file.get(&f.0).copied().unwrap_or(usize::MAX);
                        if pi == usize::MAX || !pkgs[pi].is_local {
                            let mut rp2 = rp.clone();
                            rp2["new_name"] = json!(name);
                            rep.violate(
                                format!("rename-edits-dependency-file:{kname}"),
                                format!("rename of `{}` to {name:?} edits {} which belongs to a non-local package", occ.ident.text, loaded.path(*f)),
                                rp2,
                            );
                        }
                    }
                    if class_ok {
                        valid_ok = Some(true);
                    }
                }
                Err(_) => {
                    if class_ok && valid_ok.is_none() {
                        valid_ok = Some(false);
                    }
                }
            }
        }
        // prepare_rename <=> rename(valid name)
        if let Some(vok) = valid_ok {
            let pr = panicmon::guard(|| an.prepare_rename(fpos));
            if let Outcome::Ok(Ok(pr)) = pr {
                rep.evaluations += 1;
                if pr.is_ok() != vok {
                    rep.violate(
                        format!("prepare-rename-disagrees:{kname}:{locality}{}:cursor-at-{at_name}", if alias_spelling { ":alias-spelling" } else { "" }),
                        format!("prepare_rename at `{}` says {:?} but rename with a valid name {}", occ.ident.text, pr.as_ref().map(|x| x.1.to_string()), if vok { "succeeds" } else { "fails" }),
                        rp.clone(),
                    );
                }
                rep.nontrivial(fnv(format!("{case_seed}:{mi}:{oi}").as_bytes()));
            }
        }
    }
}

// ----------------------------------------------------------------------------------
// C18

const BUILTIN_VALUES: &[&str] = &["Ok", "Error", "Nil", "True", "False"];

fn run_c18_case(rep: &mut Report, ws: &Workspace, case_seed: u64) {
    let files = ws.files();
    let loaded = ws::load_single(&files);
    let an = loaded.host.snapshot();
    let replay = json!({"kind":"workspace","files":files_json(&files),"case_seed":case_seed.to_string()});
    for h in &ws.holes {
        if h.range == (0, 0) {
            continue;
        }
        let file = loaded.file_by_path(&ws.path_of(h.module)).unwrap();
        rep.evaluations += 1;
        let mut rp = replay.clone();
        rp["hole"] = json!({"module": h.module, "range": [h.range.0, h.range.1], "name": h.name});
        let out = panicmon::guard(|| an.completions(FilePos::new(file, TextSize::from(h.range.1 as u32)), None));
        let items = match out {
            Outcome::Ok(Ok(Some(items))) => items,
            Outcome::Ok(Ok(None)) => {
                rep.violate("completion-none-at-expression-hole", format!("no completion list at hole `{}`", h.name), rp);
                continue;
            }
            Outcome::Ok(Err(_)) => continue,
            Outcome::Panicked(i) => {
                rep.count("completion_panicked(C10's business)", 1);
                rep.see("panics_seen", i.signature());
                continue;
            }
        };
        let mut got: BTreeMap<String, Vec<&ide::CompletionItem>> = BTreeMap::new();
        for it in &items {
            if it.kind == ide::CompletionItemKind::Keyword {
                continue;
            }
            // the five built-in constructors are ignored - unless the module binds that
            // spelling itself (a constructor of its own or an import shadows the prelude)
            if BUILTIN_VALUES.contains(&it.label.as_str()) && !h.visible.contains_key(it.label.as_str()) {
                continue;
            }
            got.entry(it.label.to_string()).or_default().push(it);
        }
        // expected: visible value names + module accessors
        let mut want: BTreeSet<String> = h.visible.keys().cloned().collect();
        for a in h.accessors.keys() {
            want.insert(a.clone());
        }
        let gotset: BTreeSet<String> = got.keys().cloned().collect();
        if h.visible.len() >= 3 {
            rep.nontrivial(fnv(format!("{case_seed}:{}", h.name).as_bytes()));
        }
        for missing in want.difference(&gotset) {
            let k = h.visible.get(missing).map(|d| kind_name(ws.decls[*d].kind)).unwrap_or_else(|| "ModuleAccessor".into());
            let imported = h.visible.get(missing).map(|d| ws.decls[*d].module != h.module).unwrap_or(false);
            let aliased = h.visible.get(missing).map(|d| ws.decls[*d].name != *missing).unwrap_or(false);
            rep.violate(
                format!("completion-missing:{k}{}{}", if imported { ":imported" } else { "" }, if aliased { ":aliased" } else { "" }),
                format!("`{missing}` is in scope at hole `{}` (module {}) but is not offered; offered: {:?}", h.name, h.module, gotset),
                rp.clone(),
            );
        }
        for extra in gotset.difference(&want) {
            let kinds: Vec<String> = got[extra].iter().map(|i| format!("{:?}", i.kind)).collect();
            rep.violate(
                format!("completion-extra:{}", kinds.join("+")),
                format!("`{extra}` is offered at hole `{}` (module {}) but is not visible there; visible: {:?}", h.name, h.module, want),
                rp.clone(),
            );
        }
        // "innermost shadowing outer": the item offered under a spelling must be the binding
        // visible at the hole - a local for a local, a function for a function - also when the
        // same spelling is bound further out
        for (label, d) in &h.visible {
            let Some(its) = got.get(label) else { continue };
            let want = match ws.decls[*d].kind {
                SymKind::Function => Some(ide::CompletionItemKind::Function),
                SymKind::Variant => Some(ide::CompletionItemKind::Variant),
                SymKind::Param | SymKind::Let | SymKind::ClauseVar | SymKind::LambdaParam | SymKind::UseVar | SymKind::AsVar | SymKind::SpreadVar | SymKind::PrefixVar => Some(ide::CompletionItemKind::Param),
                _ => None,
            };
            let Some(want) = want else { continue };
            let offered: Vec<ide::CompletionItemKind> = its.iter().map(|i| i.kind).filter(|k| *k != ide::CompletionItemKind::Module).collect();
            if offered.is_empty() {
                continue;
            }
            rep.count("completion_kinds_checked", 1);
            // a constructor with fields is rendered like a function
            let ok = offered.contains(&want) || (want == ide::CompletionItemKind::Variant && offered.contains(&ide::CompletionItemKind::Function));
            if !ok {
                rep.violate(
                    format!("completion-offers-another-binding:visible={:?}:offered={:?}", ws.decls[*d].kind, offered[0]),
                    format!("at hole `{}` the name `{label}` is bound to a {:?}, but the item offered is a {:?} (an outer binding of the same spelling?)", h.name, ws.decls[*d].kind, offered),
                    rp.clone(),
                );
            }
        }
        for (label, its) in &got {
            // one spelling may legitimately be offered once per kind: a local and a module
            // accessor of the same name are both visible (different namespaces)
            let mut kinds: Vec<String> = its.iter().map(|i| format!("{:?}", i.kind)).collect();
            kinds.sort();
            let distinct_kinds = { let mut k = kinds.clone(); k.dedup(); k.len() };
            if its.len() > distinct_kinds && h.visible.contains_key(label) {
                rep.violate("completion-duplicate-label", format!("`{label}` is offered {} times with kinds {kinds:?}", its.len()), rp.clone());
            }
            for it in its {
                let sr = (usize::from(it.source_range.start()), usize::from(it.source_range.end()));
                if sr != h.range {
                    rep.violate(
                        format!("completion-wrong-replace-range:{:?}", it.kind),
                        format!("item `{label}` replaces {sr:?} but the identifier being typed is {:?}", h.range),
                        rp.clone(),
                    );
                }
            }
        }
        // accept-and-resolve for value names
        for (label, d) in &h.visible {
            let Some(its) = got.get(label) else { continue };
            let it = its[0];
            let text = loaded.text(file);
            let sr = (usize::from(it.source_range.start()), usize::from(it.source_range.end()));
            if sr.1 > text.len() || sr.0 > sr.1 {
                continue;
            }
            let mut t2 = String::new();
            t2.push_str(&text[..sr.0]);
            t2.push_str(&it.replace);
            t2.push_str(&text[sr.1..]);
            let mut files2 = files.clone();
            for f in files2.iter_mut() {
                if f.0 == ws.path_of(h.module) {
                    f.1 = t2.clone();
                }
            }
            let l2 = ws::load_single(&files2);
            let an2 = l2.host.snapshot();
            let f2 = l2.file_by_path(&ws.path_of(h.module)).unwrap();
            let g = sema::goto_at(&an2, f2, sr.0);
            rep.count("accept_and_resolve_checks", 1);
            let canon = ws.canonical(*d);
            let di = &ws.decls[canon];
            // declarations after the hole in the same file shift by the length difference
            let delta = it.replace.len() as isize - (sr.1 - sr.0) as isize;
            let shift = |o: usize| -> usize { if di.module == h.module && o >= sr.1 { (o as isize + delta) as usize } else { o } };
            let want_file = l2.file_by_path(&ws.path_of(di.module)).unwrap().0;
            let want_focus = (shift(di.focus.0), shift(di.focus.1));
            match g {
                Goto::One(t) if t.file == want_file && t.focus == want_focus => {}
                Goto::Panicked(_) => {}
                other => {
                    rep.violate(
                        format!("completion-accepted-name-does-not-resolve:{}", kind_name(di.kind)),
                        format!("accepting `{label}` ({:?}) at hole `{}` inserts {:?}; goto on it gives {:?}, expected file {want_file} {want_focus:?}", it.kind, h.name, it.replace, other),
                        rp.clone(),
                    );
                }
            }
        }
    }
    // The identifier being typed may, for the moment, spell a keyword (`use` on the way to `user`,
    // `as` on the way to `assets`): whatever value names are offered then must still replace exactly
    // that word. One hole per program is retyped as a keyword and asked again.
    if let Some(h) = ws.holes.iter().filter(|h| h.range != (0, 0)).nth((case_seed % 7) as usize % ws.holes.len().max(1)) {
        const TYPED: &[&str] = &["use", "as", "case", "fn", "let", "if", "pub", "type", "todo", "panic", "assert", "const", "import", "opaque"];
        let kw = TYPED[(case_seed / 7) as usize % TYPED.len()];
        let path = ws.path_of(h.module);
        let mut files2 = files.clone();
        let mut ok = false;
        for f in files2.iter_mut() {
            if f.0 == path && h.range.1 <= f.1.len() {
                f.1 = format!("{}{}{}", &f.1[..h.range.0], kw, &f.1[h.range.1..]);
                ok = true;
            }
        }
        if ok {
            let l2 = ws::load_single(&files2);
            let an2 = l2.host.snapshot();
            let f2 = l2.file_by_path(&path).unwrap();
            let end = h.range.0 + kw.len();
            let mut rp = json!({"kind":"workspace","files":files_json(&files2),"case_seed":case_seed.to_string()});
            rp["typed"] = json!({"module": h.module, "range": [h.range.0, end], "word": kw});
            if let Outcome::Ok(Ok(Some(items))) = panicmon::guard(|| an2.completions(FilePos::new(f2, TextSize::from(end as u32)), None)) {
                rep.evaluations += 1;
                rep.see("keyword_spelled_prefixes", kw);
                for it in &items {
                    if it.kind == ide::CompletionItemKind::Keyword {
                        continue;
                    }
                    rep.count("keyword_prefix_items_checked", 1);
                    let sr = (usize::from(it.source_range.start()), usize::from(it.source_range.end()));
                    if sr != (h.range.0, end) {
                        rep.violate(
                            format!("completion-wrong-replace-range:typed-word-spells-a-keyword:{:?}", it.kind),
                            format!("the word being typed is `{kw}` at {:?}; item `{}` replaces {sr:?}", (h.range.0, end), it.label),
                            rp.clone(),
                        );
                        break;
                    }
                }
            }
        }
    }
    // accept-and-resolve for module accessors: the inserted text must be the accessor the
    // file knows the module by (its alias, if it has one) - judged through a qualified call
    for h in &ws.holes {
        if h.range == (0, 0) {
            continue;
        }
        let file = loaded.file_by_path(&ws.path_of(h.module)).unwrap();
        let Outcome::Ok(Ok(Some(items))) = panicmon::guard(|| an.completions(FilePos::new(file, TextSize::from(h.range.1 as u32)), None)) else { continue };
        for (label, target) in &h.accessors {
            if h.visible.contains_key(label) {
                continue; // a value of that spelling shadows the accessor at this hole
            }
            let Some(it) = items.iter().find(|i| i.label.as_str() == label.as_str() && i.kind == ide::CompletionItemKind::Module) else { continue };
            let Some(f) = ws.decls.iter().find(|d| d.module == *target && d.kind == SymKind::Function && d.public) else { continue };
            let text = loaded.text(file);
            let sr = (usize::from(it.source_range.start()), usize::from(it.source_range.end()));
            if sr.1 > text.len() || sr.0 > sr.1 {
                continue;
            }
            let t2 = format!("{}{}.{}{}", &text[..sr.0], it.replace, f.name, &text[sr.1..]);
            let mut files2 = files.clone();
            for fl in files2.iter_mut() {
                if fl.0 == ws.path_of(h.module) {
                    fl.1 = t2.clone();
                }
            }
            let l2 = ws::load_single(&files2);
            let an2 = l2.host.snapshot();
            let f2 = l2.file_by_path(&ws.path_of(h.module)).unwrap();
            let want_file = l2.file_by_path(&ws.path_of(*target)).unwrap().0;
            rep.count("accept_and_resolve_checks[module accessor]", 1);
            let aliased = !ws.path_of(*target).ends_with(&format!("/{label}.gleam"));
            if aliased {
                rep.count("accept_and_resolve_checks[aliased module accessor]", 1);
            }
            let mut rp = replay.clone();
            rp["hole"] = json!({"module": h.module, "range": [h.range.0, h.range.1], "name": h.name, "accessor": label});
            match sema::goto_at(&an2, f2, sr.0) {
                Goto::One(t) if t.file == want_file && t.focus == (0, 0) => {}
                Goto::Panicked(_) => {}
                other => {
                    rep.violate(
                        format!("completion-accepted-name-does-not-resolve:ModuleAccessor{}", if aliased { ":aliased" } else { "" }),
                        format!("accepting module accessor `{label}` at hole `{}` inserts {:?}; goto on it in `{}.{}` gives {:?}, expected the module file {want_file}", h.name, it.replace, it.replace, f.name, other),
                        rp,
                    );
                }
            }
        }
    }
    // dot completions at qualified uses and field accesses
    for (mi, p) in ws.printed.iter().enumerate() {
        let file = loaded.file_by_path(&ws.path_of(mi)).unwrap();
        for occ in &p.occs {
            let site = occ.ident.site;
            if site != "qualified-fn" && site != "qualified-ctor" && site != "qualified-const" {
                continue;
            }
            // the module is the qualifier right before: find it in occs (ends at range.0 - 1)
            let Some(q) = p.occs.iter().find(|o| o.range.1 + 1 == occ.range.0 && matches!(o.ident.bind, Bind::Module { .. })) else { continue };
            let Bind::Module { module, .. } = q.ident.bind else { continue };
            // asked the way editors ask: right behind the dot with the trigger character; and again while the member
            // name is being typed - no trigger character then, the cursor behind the dot or behind the letters typed
            // so far (filtering by prefix is the client's business: the same set is expected)
            for (at, trigger, how) in [(occ.range.0, Some('.'), ""), (occ.range.0, None, ":no-trigger-character"), (occ.range.1, None, ":no-trigger-character:behind-the-typed-prefix")] {
            rep.evaluations += 1;
            rep.see("dot_completion_requests", if how.is_empty() { "trigger-character" } else { &how[1..] });
            let out = panicmon::guard(|| an.completions(FilePos::new(file, TextSize::from(at as u32)), trigger));
            let items = match out {
                Outcome::Ok(Ok(Some(items))) => items,
                _ => continue,
            };
            let got: BTreeSet<String> = items.iter().filter(|i| i.kind != ide::CompletionItemKind::Keyword).map(|i| i.label.to_string()).collect();
            // expected: public functions and constructors of public, non-opaque types of that module
            let mut want: BTreeSet<String> = BTreeSet::new();
            let mut private: BTreeSet<String> = BTreeSet::new();
            for (di, d) in ws.decls.iter().enumerate() {
                if d.module != module {
                    continue;
                }
                let _ = di;
                match d.kind {
                    SymKind::Function => {
                        if d.public { want.insert(d.name.clone()); } else { private.insert(d.name.clone()); }
                    }
                    SymKind::Variant => {
                        if d.public { want.insert(d.name.clone()); } else { private.insert(d.name.clone()); }
                    }
                    _ => {}
                }
            }
            let mut rp = replay.clone();
            rp["dot"] = json!({"module": mi, "at": occ.range.0, "qualifier": q.ident.text});
            for leak in got.intersection(&private) {
                if want.contains(leak) {
                    continue;
                }
                rep.violate(format!("completion-dot-offers-private-item{how}"), format!("`{}.` offers `{leak}`, which is private (or a constructor of a private/opaque type) in that module", q.ident.text), rp.clone());
            }
            for m in want.difference(&got) {
                rep.violate(format!("completion-dot-missing-public-item{how}"), format!("`{}.` does not offer public `{m}`; offered {got:?}", q.ident.text), rp.clone());
            }
            for e in got.difference(&want) {
                if private.contains(e) {
                    continue;
                }
                rep.violate(format!("completion-dot-extra{how}"), format!("`{}.` offers `{e}` which is neither a public function nor a constructor of that module", q.ident.text), rp.clone());
            }
            }
            rep.count("dot_completion_checks", 1);
        }
    }
}

// ----------------------------------------------------------------------------------

/// Hand-built workspaces for C05: shapes whose meaning in Gleam is not in doubt but which the
/// scoped generator cannot compose (it keeps top-level names and module accessors apart,
/// because `name.x` in EXPRESSION position is ambiguous without types). `$0` marks the cursor;
/// the expected target is a module file (range 0..0) or the text of the declaration's name.
fn run_c05_fixed(rep: &mut Report) {
    enum Want {
        Module(&'static str),
        Name(&'static str, &'static str), // (file, text that the focus range must select: first occurrence after "decl:")
    }
    let lib = ("/ws/pkg/src/lib.gleam", "pub type Thing { Thing(a: Int) }\npub const x = 1\npub fn map(l, f) { f(l) }\n");
    let cases: Vec<(&str, &str, Want)> = vec![
        ("pattern-qualifier-with-a-parameter-of-that-name", "import lib\n\npub fn main(lib) {\n  case lib {\n    $0lib.Thing(a: b) -> b\n  }\n}\n", Want::Module("/ws/pkg/src/lib.gleam")),
        ("pattern-qualifier-with-a-let-of-that-name", "import lib\n\npub fn main(v) {\n  let lib = v\n  let $0lib.Thing(a: b) = lib\n  b\n}\n", Want::Module("/ws/pkg/src/lib.gleam")),
        ("constant-qualifier-with-a-function-of-that-name", "import lib\n\nfn lib() { 1 }\n\npub const y = $0lib.x\n", Want::Module("/ws/pkg/src/lib.gleam")),
        ("constant-qualifier-with-a-constant-of-that-name", "import lib\n\nconst lib = 2\n\npub const y = #($0lib.x, lib)\n", Want::Module("/ws/pkg/src/lib.gleam")),
        ("constant-qualified-constructor-with-a-function-of-that-name", "import lib\n\nfn lib() { 1 }\n\npub const y = $0lib.Thing(1)\n", Want::Module("/ws/pkg/src/lib.gleam")),
        ("aliased-pattern-qualifier-with-a-parameter-of-that-name", "import lib as l\n\npub fn main(l) {\n  case l {\n    $0l.Thing(a: b) -> b\n  }\n}\n", Want::Module("/ws/pkg/src/lib.gleam")),
        ("parameter-used-as-case-subject-next-to-a-qualifier", "import lib\n\npub fn main(lib) {\n  case $0lib {\n    lib.Thing(a: b) -> b\n  }\n}\n", Want::Name("/ws/pkg/src/main.gleam", "main(lib")),
    ];
    for (name, text, want) in cases {
        let at = text.find("$0").unwrap();
        let clean = text.replacen("$0", "", 1);
        let files = vec![(lib.0.to_string(), lib.1.to_string()), ("/ws/pkg/src/main.gleam".to_string(), clean.clone()), ("/ws/pkg/gleam.toml".to_string(), "name = \"pkg\"\n".to_string())];
        let loaded = ws::load_single(&files);
        let an = loaded.host.snapshot();
        let file = loaded.file_by_path("/ws/pkg/src/main.gleam").unwrap();
        rep.evaluations += 1;
        rep.see("fixed_cases", name);
        let got = sema::goto_at(&an, file, at);
        let replay = json!({"kind":"workspace","files":files_json(&files),"fixed_case":name,"cursor":at});
        let ok = match (&want, &got) {
            (Want::Module(path), Goto::One(t)) => t.file == loaded.file_by_path(path).unwrap().0 && t.focus == (0, 0),
            (Want::Name(path, ctx), Goto::One(t)) => {
                let f = loaded.file_by_path(path).unwrap();
                let src = loaded.text(f);
                // the declaration is the last identifier of `ctx`
                let pos = src.find(ctx).map(|p| p + ctx.rfind(|c: char| !c.is_alphanumeric() && c != '_').map(|i| i + 1).unwrap_or(0));
                t.file == f.0 && Some(t.focus.0) == pos
            }
            _ => false,
        };
        if !ok {
            rep.violate(format!("goto-wrong:fixed:{name}"), format!("goto at the marked position answers {got:?}"), replay.clone());
        }
        // a module is not renameable, whatever else carries its spelling
        if let Want::Module(_) = want {
            if let Outcome::Ok(Ok(Ok(_))) = panicmon::guard(|| an.prepare_rename(FilePos::new(file, TextSize::from(at as u32)))) {
                rep.violate(format!("rename-accepts:fixed:{name}"), "prepare_rename on a module qualifier accepts".to_string(), replay);
            }
        }
    }
}

fn run(args: Args) -> Report {
    let mut rep = Report::new(&args.prop, args.shard);
    let mut journal = Journal::open(&args.out, &args.prop, args.shard);
    let mut r = Rng::derive(args.seed, args.shard as u64, 20);
    let t0 = Instant::now();
    let mut n = 0u64;
    match args.prop.as_str() {
        "C05" => {
            if args.shard == 0 && args.only_case().is_none() {
                run_c05_fixed(&mut rep);
            }
            while t0.elapsed().as_secs_f64() < args.budget_s {
                let Some(case_seed) = args.next_case(&mut r) else { break };
                let mut cr = Rng::new(case_seed);
                let cfg = gen_cfg(&mut cr, false);
                let mut ws = gen::generate(&mut cr, &cfg);
                // one workspace in three spans two local packages (app -> lib)
                if cr.chance(1, 3) {
                    ws.split_packages(&mut cr);
                }
                rep.see("package_layouts", if ws.split.is_some() { "two local packages (app -> lib)" } else { "single package" });
                journal.begin("c05", files_json(&ws.files()).to_string().as_bytes());
                run_c05_case(&mut rep, &ws, case_seed);
                if rep.samples.len() < 3 && n % 41 == 0 {
                    rep.sample(json!({"case_seed": case_seed.to_string(), "module0": truncate_str(&ws.printed[0].text, 300)}));
                }
                n += 1;
            }
        }
        "C06" => {
            // corpus first
            let corpus = vh::corpus();
            for (ci, (name, text)) in corpus.iter().enumerate() {
                if ci % args.nshards != args.shard {
                    continue;
                }
                let t = if text.len() > 12_000 { let mut e = 12_000; while !text.is_char_boundary(e) { e -= 1 } &text[..e] } else { text.as_str() };
                let files = vec![("/ws/pkg/src/corpus.gleam".to_string(), t.to_string()), ("/ws/pkg/gleam.toml".to_string(), "name = \"pkg\"\n".into())];
                journal.begin("c06-corpus", files_json(&files).to_string().as_bytes());
                run_c06_case(&mut rep, &files, "corpus", json!({"kind":"workspace","files":files_json(&files),"origin":name}));
            }
            while t0.elapsed().as_secs_f64() < args.budget_s {
                let Some(case_seed) = args.next_case(&mut r) else { break };
                let mut cr = Rng::new(case_seed);
                let (files, origin) = if cr.chance(1, 3) {
                    let d = vh::damage::damaged_workspace(&mut cr);
                    (d.files, "generated+damaged")
                } else {
                    let cfg = gen_cfg(&mut cr, false);
                    let mut ws = gen::generate(&mut cr, &cfg);
                    // one workspace in three spans two local packages (app -> lib)
                    if cr.chance(1, 3) {
                        ws.split_packages(&mut cr);
                    }
                    rep.see("package_layouts", if ws.split.is_some() { "two local packages (app -> lib)" } else { "single package" });
                    (ws.files(), "generated")
                };
                journal.begin("c06", files_json(&files).to_string().as_bytes());
                run_c06_case(&mut rep, &files, origin, json!({"kind":"workspace","files":files_json(&files),"case_seed":case_seed.to_string()}));
                if rep.samples.len() < 3 && n % 41 == 0 {
                    rep.sample(json!({"case_seed": case_seed.to_string(), "origin": origin, "file0": truncate_str(&files[0].1, 300)}));
                }
                n += 1;
            }
        }
        "C07" => {
            let per_ws = if args.thorough() { 60 } else { 24 };
            while t0.elapsed().as_secs_f64() < args.budget_s {
                let Some(case_seed) = args.next_case(&mut r) else { break };
                let mut cr = Rng::new(case_seed);
                let cfg = gen_cfg(&mut cr, false);
                let mut ws = gen::generate(&mut cr, &cfg);
                // one workspace in three spans two local packages (app -> lib)
                if cr.chance(1, 3) {
                    ws.split_packages(&mut cr);
                }
                rep.see("package_layouts", if ws.split.is_some() { "two local packages (app -> lib)" } else { "single package" });
                journal.begin("c07", files_json(&ws.files()).to_string().as_bytes());
                run_c07_case(&mut rep, &ws, case_seed, &mut cr, per_ws);
                if rep.samples.len() < 3 && n % 17 == 0 {
                    rep.sample(json!({"case_seed": case_seed.to_string(), "module0": truncate_str(&ws.printed[0].text, 300)}));
                }
                n += 1;
            }
        }
        "C08" => {
            let per_ws = if args.thorough() { 80 } else { 30 };
            while t0.elapsed().as_secs_f64() < args.budget_s {
                let Some(case_seed) = args.next_case(&mut r) else { break };
                let mut cr = Rng::new(case_seed);
                let mut cfg = gen_cfg(&mut cr, false);
                cfg.modules = cr.range(2, 4);
                let ws = gen::generate(&mut cr, &cfg);
                journal.begin("c08", files_json(&ws.files()).to_string().as_bytes());
                run_c08_case(&mut rep, &ws, case_seed, &mut cr, per_ws);
                if rep.samples.len() < 3 && n % 17 == 0 {
                    rep.sample(json!({"case_seed": case_seed.to_string(), "names_tried": name_classes().len(), "module0": truncate_str(&ws.printed[0].text, 200)}));
                }
                n += 1;
            }
        }
        "C18" => {
            while t0.elapsed().as_secs_f64() < args.budget_s {
                let Some(case_seed) = args.next_case(&mut r) else { break };
                let mut cr = Rng::new(case_seed);
                let cfg = gen_cfg(&mut cr, true);
                let mut ws = gen::generate(&mut cr, &cfg);
                // one workspace in three spans two local packages (app -> lib)
                if cr.chance(1, 3) {
                    ws.split_packages(&mut cr);
                }
                rep.see("package_layouts", if ws.split.is_some() { "two local packages (app -> lib)" } else { "single package" });
                journal.begin("c18", files_json(&ws.files()).to_string().as_bytes());
                run_c18_case(&mut rep, &ws, case_seed);
                if rep.samples.len() < 3 && n % 17 == 0 && !ws.holes.is_empty() {
                    rep.sample(json!({"case_seed": case_seed.to_string(), "hole": ws.holes[0].name, "visible": ws.holes[0].visible.keys().collect::<Vec<_>>(), "module": truncate_str(&ws.printed[ws.holes[0].module].text, 300)}));
                }
                n += 1;
            }
        }
        p => panic!("m_sema does not serve {p}"),
    }
    journal.idle();
    rep.count("workspaces", n);
    rep
}

fn main() {
    // long function bodies (gen.rs) are generated for C05 only
    if std::env::args().any(|a| a == "C05") {
        std::env::set_var("VH_LONG_BODIES", "1");
    }
    panicmon::install();
    let args = Args::parse();
    let a2 = args.clone();
    let rep = panicmon::on_stack(16 << 20, move || run(a2));
    rep.write(&args.out);
    let _: Option<PkgSpec> = None;
}
