//! Syntax monitors for C01 (lossless tree) and C02 (parsing terminates without
//! panic/abort). One workload engine, two monitors selected by --prop.
//!
//!   m_syntax --prop C01|C02 --tier quick|thorough --seed S --shard i/n --out DIR --budget-s N
//!   m_syntax one --prop C02 --file PATH | --tower NAME:DEPTH:CLOSED | --chain NAME:N
//!
//! `one` mode parses a single input on a 2 MiB stack and exits 0 (returned), 3 (panicked;
//! JSON on stdout) — a signal death is observed by the parent.

use serde_json::json;
use std::collections::BTreeMap;
use std::time::Instant;
use syntax::parse_module;
use vh::panicmon::{self, Outcome};
use vh::report::{truncate_str, Args, Journal, Report};
use vh::rng::{fnv, Rng};
use vh::synmon;
use vh::textgen::{self, CHAINS, CONTEXTS, LEXEMES, LEXEMES_16, LEXEMES_40, SEPARATORS, TOWERS};

/// Per-case bound used only to flag hang suspects (decided by re-runs in the
/// orchestrator, see DESIGN §4.1). Far above anything a ≤1 MiB input needs.
const HANG_SUSPECT_S: f64 = 20.0;

struct Mon {
    prop: String,
    rep: Report,
    journal: Journal,
    max_parse_s: f64,
    slowest: String,
}

impl Mon {
    fn case(&mut self, phase: &str, text: &str) {
        self.journal.begin(phase, text.as_bytes());
        self.rep.evaluations += 1;
        let t0 = Instant::now();
        let out = panicmon::guard(|| parse_module(text));
        let dt = t0.elapsed().as_secs_f64();
        if dt > self.max_parse_s {
            self.max_parse_s = dt;
            self.slowest = format!("{phase}: {} bytes, {:.3}s", text.len(), dt);
        }
        let parse = match out {
            Outcome::Ok(p) => p,
            Outcome::Panicked(info) => {
                if self.prop == "C02" {
                    let sig = info.signature();
                    self.rep.violate(
                        sig,
                        format!("parse_module panicked at {} ({})", info.location, info.frame_loc),
                        json!({"kind":"text","phase":phase,"text":text}),
                    );
                } else {
                    // C01 cannot judge an input for which no tree exists.
                    self.rep.inconclusive += 1;
                    self.rep.count("no_tree_because_parser_panicked(C02's business)", 1);
                }
                return;
            }
        };
        if dt > HANG_SUSPECT_S && self.prop == "C02" {
            // it returned: slowness alone is inconclusive (a parse that never returns is
            // caught by the child-process / shard watchdogs, also as inconclusive)
            self.rep.inconclusive += 1;
            self.rep.notes.push(format!("slow parse (returned): {dt:.1}s for {} bytes in phase {phase}", text.len()));
        }
        self.rep.count(if parse.errors().is_empty() { "inputs_without_errors" } else { "inputs_with_errors" }, 1);
        if self.prop == "C01" {
            let mut bigrams: Vec<(syntax::SyntaxKind, syntax::SyntaxKind)> = Vec::new();
            let mut pairs: Vec<(syntax::SyntaxKind, syntax::SyntaxKind)> = Vec::new();
            let res = synmon::check_lossless(text, &parse, |a, b| bigrams.push((a, b)), |n, t| pairs.push((n, t)));
            match res {
                Ok(st) => {
                    for (a, b) in bigrams {
                        self.rep.see("token_bigrams", format!("{a:?}>{b:?}"));
                    }
                    for (n, t) in pairs {
                        self.rep.see("node_first_token", format!("{n:?}:{t:?}"));
                    }
                    for e in parse.errors() {
                        let k = format!("{:?}", e.kind);
                        let k = k.split('(').next().unwrap_or("").to_string();
                        self.rep.see("error_kinds", k);
                    }
                    if st.tokens >= 2 && (st.errors > 0 || st.nodes >= 3) {
                        self.rep.nontrivial(fnv(text.as_bytes()));
                    }
                }
                Err((sig, detail)) => {
                    self.rep.violate(
                        format!("lossless:{sig}"),
                        detail,
                        json!({"kind":"text","phase":phase,"text":text}),
                    );
                }
            }
        } else {
            // C02: non-trivial = malformed (errors reported) or structurally nested input.
            if !parse.errors().is_empty() || text.len() > 8 {
                self.rep.nontrivial(fnv(text.as_bytes()));
            }
            if let Err((sig, detail)) = synmon::check_error_ranges(text, &parse) {
                // An error list that cannot be rendered is not "a tree and an error list".
                self.rep.violate(format!("errors:{sig}"), detail, json!({"kind":"text","phase":phase,"text":text}));
            }
        }
        if self.rep.samples.len() < 6 && self.rep.evaluations % 9973 == 1 {
            self.rep.sample(json!({"phase": phase, "text": truncate_str(text, 200), "errors": parse.errors().len()}));
        }
    }
}

/// Chains nested through their LEFT-most operand: every level adds `links` tree levels on one path while
/// the parser recursion only grows by one.
fn left_deep_text(container: &str, link: &str, levels: usize, links: usize) -> String {
    let (open, close) = match container {
        "block" => ("{ ", " }"),
        "tuple" => ("#(", ", 1)"),
        "list" => ("[", "]"),
        _ => ("case 1 { _ -> ", " }"),
    };
    let link = match link {
        "plus" => " + a",
        "field" => ".b",
        "call" => "()",
        _ => " |> a",
    };
    let mut s = String::from("fn f() { ");
    s.push_str(&open.repeat(levels));
    s.push('a');
    for _ in 0..levels {
        s.push_str(&link.repeat(links));
        s.push_str(close);
    }
    s.push_str(&link.repeat(links));
    s.push_str(" }\n");
    s
}

fn one_mode(argv: &[String]) -> ! {
    let mut text = None;
    let mut i = 0;
    while i < argv.len() {
        match argv[i].as_str() {
            "--file" => text = Some(std::fs::read_to_string(&argv[i + 1]).expect("read")),
            "--tower" => {
                let p: Vec<&str> = argv[i + 1].split(':').collect();
                let t = TOWERS.iter().find(|t| t.name == p[0]).expect("tower");
                text = Some(textgen::tower_text(t, p[1].parse().unwrap(), p[2] == "1"));
            }
            "--chain" => {
                let p: Vec<&str> = argv[i + 1].split(':').collect();
                let c = CHAINS.iter().find(|c| c.name == p[0]).expect("chain");
                text = Some(textgen::chain_text(c, p[1].parse().unwrap()));
            }
            "--leftdeep" => {
                // CONTAINER:LINK:LEVELS:LINKS - a chain whose left-most operand is a container holding a chain
                // whose left-most operand is a container ... (`{ { a + a + .. } + a + .. } + a + ..`)
                let p: Vec<&str> = argv[i + 1].split(':').collect();
                text = Some(left_deep_text(p[0], p[1], p[2].parse().unwrap(), p[3].parse().unwrap()));
            }
            _ => {}
        }
        i += 1;
    }
    let text = text.expect("input");
    let stack = std::env::var("VH_STACK").ok().and_then(|s| s.parse().ok()).unwrap_or(panicmon::SERVER_STACK);
    let t0 = Instant::now();
    let res = panicmon::on_stack(stack, move || match panicmon::guard(|| parse_module(&text)) {
        Outcome::Ok(p) => Ok(p.errors().len()),
        Outcome::Panicked(i) => Err(i),
    });
    match res {
        Ok(n) => {
            println!("{}", json!({"outcome":"returned","errors":n,"secs":t0.elapsed().as_secs_f64()}));
            std::process::exit(0)
        }
        Err(i) => {
            println!("{}", json!({"outcome":"panicked","signature":i.signature(),"location":i.location,"frame":i.frame_loc}));
            std::process::exit(3)
        }
    }
}

/// Run one risky input in a child process; classify the outcome.
fn run_child(rep: &mut Report, kind: &str, spec: &str, shape: &str, timeout_s: u64) {
    use std::process::{Command, Stdio};
    rep.evaluations += 1;
    let exe = std::env::current_exe().unwrap();
    let mut child = Command::new(exe)
        .args(["one", kind, spec])
        .stdout(Stdio::piped())
        .stderr(Stdio::null())
        .spawn()
        .expect("spawn child");
    let t0 = Instant::now();
    let status = loop {
        match child.try_wait().expect("wait") {
            Some(s) => break Some(s),
            None => {
                if t0.elapsed().as_secs() > timeout_s {
                    let _ = child.kill();
                    let _ = child.wait();
                    break None;
                }
                std::thread::sleep(std::time::Duration::from_millis(2));
            }
        }
    };
    let replay = json!({"kind":"generated","gen":kind.trim_start_matches("--"),"spec":spec});
    let Some(status) = status else {
        // Time is never a verdict by itself here: the orchestrator would have to confirm;
        // we count it as inconclusive and name it.
        rep.inconclusive += 1;
        rep.notes.push(format!("child timed out after {timeout_s}s: {kind} {spec}"));
        return;
    };
    let mut out = String::new();
    if let Some(mut so) = child.stdout.take() {
        use std::io::Read;
        let _ = so.read_to_string(&mut out);
    }
    rep.nontrivial(fnv(format!("{kind}{spec}").as_bytes()));
    use std::os::unix::process::ExitStatusExt;
    if let Some(sig) = status.signal() {
        rep.violate(
            format!("abort:signal{sig}:parse:{shape}"),
            format!("parse_module on a 2 MiB stack died with signal {sig} ({kind} {spec})"),
            replay,
        );
        rep.count("children_killed_by_signal", 1);
        return;
    }
    match status.code() {
        Some(0) => rep.count("children_returned", 1),
        Some(3) => {
            let v: serde_json::Value = serde_json::from_str(out.trim()).unwrap_or(json!({}));
            let sig = v["signature"].as_str().unwrap_or("panic:unknown").to_string();
            rep.violate(sig, format!("{} ({kind} {spec})", v["location"].as_str().unwrap_or("")), replay);
            rep.count("children_panicked", 1);
        }
        c => {
            rep.inconclusive += 1;
            rep.notes.push(format!("child exit {c:?}: {kind} {spec}"));
        }
    }
}

/// `replay --prop C01|C02 --file <witness.json>`: judge the recorded input again (in a child
/// process, so a crash is observed and not suffered). Exit 1 = reproduced, 0 = not.
fn replay_mode(argv: &[String]) -> ! {
    let mut prop = String::new();
    let mut file = String::new();
    let mut i = 0;
    while i + 1 < argv.len() {
        match argv[i].as_str() {
            "--prop" => prop = argv[i + 1].clone(),
            "--file" => file = argv[i + 1].clone(),
            _ => {}
        }
        i += 2;
    }
    let w: serde_json::Value = serde_json::from_str(&std::fs::read_to_string(&file).expect("witness")).expect("json");
    let want = w["signature"].as_str().unwrap_or("").to_string();
    let rp = &w["replay"];
    let mut rep = Report::new(&prop, 0);
    let tmp = std::env::temp_dir().join(format!("m_syntax-replay-{}", std::process::id()));
    std::fs::create_dir_all(&tmp).unwrap();
    match rp["kind"].as_str() {
        Some("generated") => {
            let kind = format!("--{}", rp["gen"].as_str().unwrap_or("tower"));
            run_child(&mut rep, &kind, rp["spec"].as_str().unwrap_or(""), "replay", 120);
        }
        _ => {
            let text = rp["text"].as_str().expect("witness without text").to_string();
            if prop == "C02" {
                let f = tmp.join("input.gleam");
                std::fs::write(&f, &text).unwrap();
                run_child(&mut rep, "--file", &f.display().to_string(), "replay", 120);
            }
            if rep.violations.is_empty() {
                // the tree exists: run the in-process oracles on it
                let p2 = prop.clone();
                let t2 = text.clone();
                let out2 = tmp.clone();
                let r2 = panicmon::on_stack(panicmon::SERVER_STACK, move || {
                    let mut m = Mon { prop: p2.clone(), rep: Report::new(&p2, 0), journal: Journal::open(&out2, &p2, 0), max_parse_s: 0.0, slowest: String::new() };
                    m.case("replay", &t2);
                    m.rep
                });
                rep.violations.extend(r2.violations);
            }
        }
    }
    let _ = std::fs::remove_dir_all(&tmp);
    let hit = rep.violations.iter().any(|v| v.signature == want || want.is_empty());
    for v in &rep.violations {
        println!("{}: {} - {}", if v.signature == want { "reproduced" } else { "other violation" }, v.signature, truncate_str(&v.detail, 300));
    }
    if rep.violations.is_empty() {
        println!("not reproduced: the recorded input is judged fine on this tree");
    }
    std::process::exit(if hit && !rep.violations.is_empty() { 1 } else { 0 })
}

fn main() {
    let argv: Vec<String> = std::env::args().skip(1).collect();
    if argv.first().map(|s| s == "one").unwrap_or(false) {
        one_mode(&argv[1..]);
    }
    if argv.first().map(|s| s == "replay").unwrap_or(false) {
        replay_mode(&argv[1..]);
    }
    let args = Args::parse();
    assert!(args.prop == "C01" || args.prop == "C02", "m_syntax serves C01 and C02");
    panicmon::install();
    let a2 = args.clone();
    // The whole shard runs on a 2 MiB stack: that is what a parse inside the server gets.
    let rep = panicmon::on_stack(panicmon::SERVER_STACK, move || run(a2));
    rep.write(&args.out);
}

fn run(args: Args) -> Report {
    let mut m = Mon {
        prop: args.prop.clone(),
        rep: Report::new(&args.prop, args.shard),
        journal: Journal::open(&args.out, &args.prop, args.shard),
        max_parse_s: 0.0,
        slowest: String::new(),
    };
    let thorough = args.thorough();
    let mut buf = String::new();

    // W1: exhaustive lexeme sequences.
    let mut plan: Vec<(&'static [&'static str], usize, &str)> = vec![(LEXEMES, 1, "L"), (LEXEMES, 2, "L"), (LEXEMES, 3, "L")];
    if thorough {
        plan.push((LEXEMES_40, 4, "L40"));
        plan.push((LEXEMES_16, 5, "L16"));
        plan.push((LEXEMES_16, 6, "L16"));
    }
    let mut space: BTreeMap<String, u64> = BTreeMap::new();
    for (alpha, len, aname) in &plan {
        let phase = format!("exhaustive:{aname}^{len}");
        let mut n = 0u64;
        textgen::for_each_sequence(alpha.len(), *len, args.shard, args.nshards, |idx| {
            let lex: Vec<&str> = idx.iter().map(|&i| alpha[i]).collect();
            for ctx in CONTEXTS {
                for sep in SEPARATORS {
                    if *len == 1 && *sep != "" {
                        continue;
                    }
                    textgen::splice(&mut buf, *ctx, sep, &lex);
                    m.case(&phase, &buf);
                    n += 1;
                }
            }
        });
        space.insert(phase, n);
    }
    for (k, v) in &space {
        m.rep.count(&format!("cases[{k}]"), *v);
    }
    m.rep.exhaustive = Some(true);

    // W2: corpus prefixes and mutants.
    let corpus = vh::corpus();
    m.rep.count("corpus_files", if args.shard == 0 { corpus.len() as u64 } else { 0 });
    let step = if thorough { 1 } else { 7 };
    let mut k = 0usize;
    for (_name, text) in &corpus {
        for p in textgen::prefixes(text, step) {
            if p.len() > 12_000 && !thorough && k % 5 != 0 {
                k += 1;
                continue; // quick: thin out the long tail of the big file
            }
            if k % args.nshards == args.shard {
                m.case("corpus-prefix", p);
            }
            k += 1;
        }
    }
    let budget = args.budget_s;
    let t_w3 = Instant::now();
    let mut r = Rng::derive(args.seed, args.shard as u64, 1);
    let mut case_no = 0u64;
    while t_w3.elapsed().as_secs_f64() < budget * 0.45 {
        let (_n, base) = r.pick(&corpus);
        // mutate a window of the file so that cost stays bounded
        let base: &str = if base.len() > 4000 {
            let mut a = r.below(base.len() - 3000);
            while !base.is_char_boundary(a) {
                a -= 1;
            }
            let mut b = a + 3000;
            while !base.is_char_boundary(b) {
                b -= 1;
            }
            &base[a..b]
        } else {
            base
        };
        let mut t = base.to_string();
        for _ in 0..r.range(1, 4) {
            t = textgen::mutate(&mut r, &t);
        }
        m.case("corpus-mutant", &t);
        case_no += 1;
    }
    m.rep.count("cases[corpus-mutant]", case_no);

    // W3: random UTF-8 and keyword soup.
    let t_w4 = Instant::now();
    let mut n3 = 0u64;
    while t_w4.elapsed().as_secs_f64() < budget * 0.45 {
        let t = if r.chance(1, 5) {
            let n = r.range(1, 200);
            textgen::keyword_soup(&mut r, n)
        } else {
            let cap = *r.pick(&[8usize, 32, 128, 512, 4096]);
            textgen::random_text(&mut r, cap)
        };
        m.case("random", &t);
        n3 += 1;
    }
    m.rep.count("cases[random]", n3);
    // W3b: towers around the parser's nesting limit and long chains, in-process, each
    // followed by an untouched definition (both monitors; the deep ones run in child
    // processes below for C02 because a stack overflow would take the shard down).
    {
        let depths: &[usize] = &[60, 100, 126, 127, 128, 129, 130, 200, 300, 600];
        let mut k = 0usize;
        for t in TOWERS {
            for &d in depths {
                for closed in [true, false] {
                    k += 1;
                    if k % args.nshards != args.shard {
                        continue;
                    }
                    let mut text = textgen::tower_text(t, d, closed);
                    text.push_str("\n\npub fn after(a) { a }\n");
                    m.case("tower-inproc", &text);
                }
            }
        }
        // W3c: nesting-bound sweep: every recursion unit x every depth around the bound x
        // every tail lexeme (and none), unclosed; plus towers of randomly mixed units.
        {
            let mut tails: Vec<&str> = vec![""];
            tails.extend(LEXEMES_40.iter().copied());
            let mut n = 0u64;
            for (ui, (prefix, unit)) in textgen::RECURSION_UNITS.iter().enumerate() {
                for d in 118usize..=134 {
                    k += 1;
                    if k % args.nshards != args.shard {
                        continue;
                    }
                    let mut base = String::with_capacity(prefix.len() + unit.len() * d + 8);
                    base.push_str(prefix);
                    for _ in 0..d {
                        base.push_str(unit);
                    }
                    for tail in &tails {
                        let text = format!("{base}{tail}");
                        m.case("bound-sweep", &text);
                        n += 1;
                    }
                    m.rep.see("bound_sweep_units", format!("{}:{}", ui, unit.trim()));
                }
            }
            let mixed = if args.thorough() { 20_000 } else { 1_500 };
            for _ in 0..mixed {
                let d = r.range(110, 140);
                let (prefix, _) = textgen::RECURSION_UNITS[r.below(36)];
                let mut text = String::from(prefix);
                for _ in 0..d {
                    // stay within the expression/pattern units of the `fn f() { ` context
                    text.push_str(textgen::RECURSION_UNITS[r.below(36)].1);
                }
                text.push_str(tails[r.below(tails.len())]);
                m.case("bound-sweep-mixed", &text);
                n += 1;
            }
            m.rep.count("cases[bound-sweep]", n);
        }
        for c in CHAINS {
            // lengths below, around and beyond the parser's chain bound (2048 links); a chain may be the
            // first thing in the file or follow a comment / another definition (what the tree builder has
            // already emitted matters when a construct is abandoned half-way)
            for n in [10usize, 130, 1000, 2040, 2047, 2048, 2049, 2050, 2100, 3000, 4100] {
                k += 1;
                if k % args.nshards != args.shard {
                    continue;
                }
                let text = textgen::chain_text(c, n);
                m.case("chain-inproc", &text);
                if n >= 2040 {
                    for lead in ["// lead\n", "pub type Lead { Lead }\n\n", "/// doc\n", "const lead = 1\n", "  \n"] {
                        m.case("chain-inproc-after-lead", &format!("{lead}{text}"));
                        m.case("chain-inproc-before-tail", &format!("{text}\nfn tail() {{ 1 }}\n"));
                    }
                }
            }
        }
    }
    m.journal.idle();

    // W4 (C02): towers and chains, each in a child process (a stack overflow must not
    // take the shard down with it).
    if args.prop == "C02" {
        let depths: &[usize] = if thorough {
            &[16, 64, 100, 170, 200, 256, 512, 1024, 2048, 4096, 8192, 16384, 65536]
        } else {
            &[16, 64, 170, 256, 1024, 4096, 16384]
        };
        let mut jobs: Vec<(String, String, String)> = Vec::new();
        for t in TOWERS {
            for &d in depths {
                for closed in [true, false] {
                    if !closed && t.close.is_empty() {
                        continue;
                    }
                    let class = if d < 200 { "shallow" } else if d < 2000 { "mid" } else { "deep" };
                    jobs.push((
                        "--tower".into(),
                        format!("{}:{}:{}", t.name, d, closed as u8),
                        format!("tower:{}:{}:{}", t.name, if closed { "closed" } else { "unclosed" }, class),
                    ));
                }
            }
        }
        // dropping the tree of a long left-nested chain recurses too: go well beyond the point (~30 000
        // links) where that overflowed a 2 MiB stack on the pinned tree
        let lens: &[usize] = if thorough { &[100, 1000, 10_000, 50_000, 200_000] } else { &[100, 1000, 10_000, 50_000] };
        for c in CHAINS {
            for &n in lens {
                jobs.push(("--chain".into(), format!("{}:{}", c.name, n), format!("chain:{}", c.name)));
            }
        }
        // chains nested through their left-most operand (a by-product report of the ninth round: the chain bound
        // counted the links of the chains that are OPEN while a sub-expression is parsed; the left-most operand
        // is complete before its chain takes the first link)
        let nest: &[(usize, usize)] = if thorough { &[(2, 1000), (3, 2000), (5, 2000), (10, 2000), (40, 2000), (100, 2000), (120, 500)] } else { &[(2, 1000), (3, 2000), (10, 2000), (40, 2000), (100, 1000)] };
        for container in ["block", "tuple", "list", "case"] {
            for link in ["plus", "field", "call", "pipe"] {
                for &(l, c) in nest {
                    jobs.push(("--leftdeep".into(), format!("{container}:{link}:{l}:{c}"), format!("left-deep:{container}:{link}")));
                }
            }
        }
        for (i, (kind, spec, shape)) in jobs.iter().enumerate() {
            if i % args.nshards != args.shard {
                continue;
            }
            run_child(&mut m.rep, kind, spec, shape, 120);
            m.rep.see("risky_shapes", shape.clone());
        }
    }
    m.rep.notes.push(format!("slowest parse: {}", m.slowest));
    m.rep.count("max_parse_ms", 0);
    m.rep.counters.insert("max_parse_ms".into(), (m.max_parse_s * 1000.0) as u64);
    m.rep
}
