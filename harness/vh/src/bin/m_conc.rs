//! C12: snapshots are isolated from later changes; changes cancel, never block.
//!
//! A main thread owns the AnalysisHost (as the server's main loop does), hands tagged
//! snapshots to reader threads and applies changes; readers sweep queries until they
//! are cancelled. Everything is recorded at the API boundary; afterwards every answer is
//! compared with a fresh analysis of the version the snapshot was taken at.

use ide::{AnalysisHost, Change, FileId};
use serde_json::json;
use std::sync::atomic::{AtomicBool, AtomicU64, Ordering};
use std::sync::mpsc::{channel, Receiver, Sender};
use std::sync::{Arc, Mutex};
use std::time::{Duration, Instant};
use vh::gen::{self, GenCfg};
use vh::modelws::{FileEntry, ModelWs, Pkg};
use vh::panicmon::{self, Outcome};
use vh::prog::Trivia;
use vh::queries::{self, Q};
use vh::report::{Args, Report};
use vh::rng::{fnv, fnv_mix, Rng};

/// A query that starts this long after the change was requested and still returns an
/// answer means cancellation did not reach the snapshot (scheduling slack included).
const LATE_OK_MS: u128 = 700;
/// Readers never sweep longer than this on one snapshot.
const READER_CAP_MS: u128 = 2500;

/// "Never block", as bounded progress: an `apply_change` that has not returned after
/// max(60 s, 500 x the time a fresh host needs to answer the scenario's whole probe set)
/// is reported as a violation by a watchdog thread (the main thread cannot: it is the one
/// that is stuck). Readers give up their snapshot after READER_CAP_MS at the latest and a
/// single query takes milliseconds, so no load this machine can be under explains that.
static APPLY_STARTED_MS: AtomicU64 = AtomicU64::new(0);
static APPLY_LIMIT_MS: AtomicU64 = AtomicU64::new(60_000);
static CURRENT_CASE: AtomicU64 = AtomicU64::new(0);
static CURRENT_KIND: Mutex<String> = Mutex::new(String::new());

fn now_ms() -> u64 {
    use std::sync::OnceLock;
    static T0: OnceLock<Instant> = OnceLock::new();
    T0.get_or_init(Instant::now).elapsed().as_millis() as u64 + 1
}

fn guarded_apply(host: &mut AnalysisHost, change: Change, kind: &str) {
    *CURRENT_KIND.lock().unwrap() = kind.to_string();
    APPLY_STARTED_MS.store(now_ms(), Ordering::SeqCst);
    host.apply_change(change);
    APPLY_STARTED_MS.store(0, Ordering::SeqCst);
}

fn spawn_block_watchdog(args: &Args) {
    let (out, shard) = (args.out.clone(), args.shard);
    std::thread::spawn(move || loop {
        std::thread::sleep(Duration::from_millis(500));
        let started = APPLY_STARTED_MS.load(Ordering::SeqCst);
        let limit = APPLY_LIMIT_MS.load(Ordering::SeqCst);
        if started != 0 && now_ms().saturating_sub(started) > limit {
            let kind = CURRENT_KIND.lock().map(|k| k.clone()).unwrap_or_default();
            let case = CURRENT_CASE.load(Ordering::SeqCst);
            let mut rep = Report::new("C12", shard);
            rep.evaluations = 1;
            rep.violate(
                format!("apply-change-blocked:never-returned:{kind}"),
                format!("apply_change ({kind}) has not returned after {} s while readers hold snapshots taken before it: the change neither cancelled them nor went ahead (limit = max(60 s, 500 x the sequential cost of the probe set))", limit / 1000),
                json!({"kind":"concurrent-scenario","case_seed":case.to_string()}),
            );
            rep.notes.push("this shard's report holds only the blocked change: the thread that owns the full report is the one that is stuck".into());
            rep.write(&out);
            std::process::exit(0);
        }
    });
}

#[derive(Clone, Debug)]
struct Rec {
    reader: usize,
    tag: usize,
    probe: usize,
    /// ms since scenario start at which the query started
    start_ms: u128,
    outcome: RecOutcome,
}

#[derive(Clone, Debug)]
enum RecOutcome {
    Ok(u64, String),
    Cancelled,
    Panicked(String),
}

struct Job {
    an: ide::Analysis,
    tag: usize,
}

fn probes_for(ws: &ModelWs, r: &mut Rng, n: usize) -> Vec<(Q, u32, u32)> {
    let mut out = Vec::new();
    let files: Vec<&FileEntry> = ws.files.iter().filter(|f| f.path.ends_with(".gleam")).collect();
    for _ in 0..n {
        let f = files[r.below(files.len())];
        let tt = vh::ws::token_table(&f.text);
        let bounds: Vec<usize> = tt.bounds.iter().copied().collect();
        let b = bounds[r.below(bounds.len())];
        let q = match r.below(9) {
            8 => {
                // range-restricted highlight (any sub-range, also one reaching past the end)
                let a = r.below(f.text.len() + 1) as u32;
                let e = a + r.below(f.text.len() + 8) as u32;
                Q::HlRange(a, e)
            }
            0 => Q::Hover,
            1 => Q::Goto,
            2 => Q::Refs,
            3 => Q::Compl(None),
            4 => Q::HlFull,
            5 => Q::Diags,
            6 => Q::SigHelp,
            _ => Q::Highlight,
        };
        out.push((q, f.id, b as u32));
    }
    out
}

/// A long session on a file whose analysis takes long enough for a change to arrive in the middle of it: 250-400
/// functions each calling the next; every version puts one more declaration in front (all offsets and the
/// module's declarations change, so everything is inferred again). Readers are inside inference when they are
/// cancelled, round after round, on the same threads.
fn long_session_workspaces(r: &mut Rng, k: usize) -> (Vec<ModelWs>, Vec<&'static str>) {
    let n = r.range(250, 400);
    // the LAST function of the chain changes with every version - its number, and the type of its second
    // component every other time - so every function above it has to be inferred again (not merely re-validated)
    let chain = |v: usize| -> String {
        let mut body = String::new();
        for i in 0..n {
            if i + 1 < n {
                body.push_str(&format!("pub fn f{i}(x) {{ let y = f{}(x) #(y.0 + 1, y.1) }}\n", i + 1));
            } else {
                body.push_str(&format!("pub fn f{i}(x) {{ #(x * {}, {}) }}\n", v + 2, if v % 2 == 0 { "\"s\"" } else { "1.5" }));
            }
        }
        body
    };
    let pkgs = vec![Pkg { root: "/ws/root".into(), name: "root".into(), is_local: true, deps: vec![] }];
    let mut versions = Vec::new();
    let mut kinds = vec!["initial"];
    for v in 0..=k {
        let mut head = String::new();
        for j in 0..v {
            head.push_str(&format!("const c{j} = {j}\n"));
        }
        versions.push(ModelWs {
            pkgs: pkgs.clone(),
            files: vec![
                FileEntry { id: 0, pkg: 0, path: "/ws/root/gleam.toml".into(), text: "name = \"root\"\n".into() },
                FileEntry { id: 1, pkg: 0, path: "/ws/root/src/chain.gleam".into(), text: format!("{head}{}", chain(v)) },
            ],
        });
        if v > 0 {
            kinds.push("declaration-prepended-to-a-call-chain");
        }
    }
    (versions, kinds)
}

fn version_workspaces(r: &mut Rng, k: usize) -> (Vec<ModelWs>, Vec<&'static str>) {
    let cfg = GenCfg { modules: r.range(2, 3), max_items: r.range(4, 9), max_depth: r.range(2, 3), holes: false, non_core: true, trivia: Trivia::Plain, non_ascii: false };
    let g = gen::generate(r, &cfg);
    let pkgs = vec![
        Pkg { root: "/ws/root".into(), name: "root".into(), is_local: true, deps: vec![] },
        Pkg { root: "/ws/root/build/packages/dep".into(), name: "dep".into(), is_local: false, deps: vec![] },
    ];
    let mut files = vec![
        FileEntry { id: 0, pkg: 0, path: "/ws/root/gleam.toml".into(), text: "name = \"root\"\n".into() },
        FileEntry { id: 1, pkg: 1, path: "/ws/root/build/packages/dep/gleam.toml".into(), text: "name = \"dep\"\n".into() },
    ];
    for (mi, m) in g.modules.iter().enumerate() {
        let pi = if mi == 0 { 1 } else { 0 };
        files.push(FileEntry { id: 2 + mi as u32, pkg: pi, path: format!("{}/src/{}.gleam", pkgs[pi].root, m.name), text: g.printed[mi].text.clone() });
    }
    let mut ws = ModelWs { pkgs, files };
    // start without the dependency edge in half of the scenarios so that a graph-only
    // change later changes answers
    if r.chance(1, 2) {
        ws.pkgs[0].deps.push(1);
    }
    let mut versions = vec![ws.clone()];
    let mut kinds = vec!["initial"];
    for _ in 0..k {
        let mut w = versions.last().unwrap().clone();
        match r.below(6) {
            0 => {
                if w.pkgs[0].deps.is_empty() {
                    w.pkgs[0].deps.push(1);
                } else {
                    w.pkgs[0].deps.clear();
                }
                kinds.push("package-graph-only");
            }
            1 => {
                let id = w.files.iter().map(|f| f.id).max().unwrap() + 1;
                w.files.push(FileEntry { id, pkg: 0, path: format!("/ws/root/src/added{id}.gleam"), text: "pub fn added(x) { x }\n".into() });
                kinds.push("add-file");
            }
            _ => {
                let gl: Vec<usize> = w.files.iter().enumerate().filter(|(_, f)| f.path.ends_with(".gleam")).map(|(i, _)| i).collect();
                let fi = gl[r.below(gl.len())];
                let name = *r.pick(&["a", "b", "c", "f", "g", "x", "y"]);
                let t = match r.below(3) {
                    0 => format!("pub fn {name}(p) {{ p }}\n{}", w.files[fi].text),
                    1 => format!("{}\npub fn {name}(p, q) {{ #(q, p) }}\n", w.files[fi].text),
                    _ => vh::textgen::mutate(r, &w.files[fi].text),
                };
                w.files[fi].text = t;
                kinds.push("file-edit");
            }
        }
        versions.push(w);
    }
    (versions, kinds)
}

/// The change from version a to version b. One edited file in three gets its texts batched:
/// an intermediate draft first, the final text last (a didChange with several content
/// changes does that); the second member says whether that happened.
fn change_between(a: &ModelWs, b: &ModelWs) -> (Change, bool) {
    let mut c = Change::default();
    let mut structural = false;
    let mut batched = false;
    for f in &b.files {
        match a.files.iter().find(|x| x.id == f.id) {
            Some(old) if old.text == f.text => {}
            Some(old) => {
                if fnv(f.text.as_bytes()) % 3 == 0 {
                    let draft = format!("{}\n// draft that never was a version\npub fn draft_only() {{ 0 }}\n", old.text);
                    c.change_file(FileId(f.id), Arc::from(draft.as_str()));
                    batched = true;
                }
                c.change_file(FileId(f.id), Arc::from(f.text.as_str()))
            }
            None => {
                c.change_file(FileId(f.id), Arc::from(f.text.as_str()));
                structural = true;
            }
        }
    }
    if structural {
        c.set_roots(b.roots());
    }
    let deps_a: Vec<&Vec<usize>> = a.pkgs.iter().map(|p| &p.deps).collect();
    let deps_b: Vec<&Vec<usize>> = b.pkgs.iter().map(|p| &p.deps).collect();
    if deps_a != deps_b {
        c.set_package_graph(b.graph());
    }
    (c, batched)
}

fn run_scenario(rep: &mut Report, case_seed: u64) {
    CURRENT_CASE.store(case_seed, Ordering::SeqCst);
    let mut r = Rng::new(case_seed);
    // one scenario in ten is a long session: 30-60 changes served by the same reader threads (a server's worker
    // threads live as long as the server: whatever a cancelled query leaves behind on its thread adds up there)
    let long_session = r.chance(1, 10);
    let k = if long_session { r.range(30, 60) } else { r.range(1, 6) };
    if long_session {
        rep.count("long_sessions", 1);
    }
    let n_readers = r.range(1, 4);
    // half of the long sessions run on the call-chain file (cancellations land inside inference), half on an
    // ordinary generated workspace
    let (versions, kinds) = if long_session && r.chance(1, 2) { long_session_workspaces(&mut r, k) } else { version_workspaces(&mut r, k) };
    // probes are fixed per scenario and valid for every version (offsets may exceed a
    // shrunken file: then both sides answer the same way, that is part of the comparison)
    let probes = Arc::new(probes_for(&versions[0], &mut r, 24));
    // expected answers per version, sequentially, fresh hosts (timed: the bound on a blocked
    // change is a multiple of this)
    let t_seq = Instant::now();
    let expected: Vec<Vec<String>> = versions
        .iter()
        .map(|w| {
            let h = w.fresh();
            let an = h.snapshot();
            probes
                .iter()
                .map(|p| match panicmon::guard(|| queries::run_query(&an, &p.0, FileId(p.1), p.2)) {
                    Outcome::Ok(Ok(a)) => a.nf,
                    Outcome::Ok(Err(_)) => "<cancelled>".into(),
                    Outcome::Panicked(i) => format!("<panic {}>", i.signature()),
                })
                .collect()
        })
        .collect();

    let seq_ms = (t_seq.elapsed().as_millis() as u64 / versions.len() as u64).max(1);
    APPLY_LIMIT_MS.store((500 * seq_ms).max(60_000), Ordering::SeqCst);
    let t0 = Instant::now();
    let recs: Arc<Mutex<Vec<Rec>>> = Arc::new(Mutex::new(Vec::new()));
    let stop = Arc::new(AtomicBool::new(false));
    let seq = Arc::new(AtomicU64::new(0));
    let mut txs: Vec<Sender<Job>> = Vec::new();
    let mut handles = Vec::new();
    for ri in 0..n_readers {
        let (tx, rx): (Sender<Job>, Receiver<Job>) = channel();
        txs.push(tx);
        let probes = probes.clone();
        let recs = recs.clone();
        let seq = seq.clone();
        let delay_seed = r.next_u64();
        handles.push(std::thread::spawn(move || {
            let mut dr = Rng::new(delay_seed);
            while let Ok(job) = rx.recv() {
                let started = Instant::now();
                let mut i = dr.below(probes.len());
                let mut after_cancel = 0usize;
                let extra_after_cancel = dr.below(3);
                'sweep: loop {
                    if started.elapsed().as_millis() > READER_CAP_MS {
                        break;
                    }
                    let p = &probes[i % probes.len()];
                    if dr.chance(1, 6) {
                        std::thread::sleep(Duration::from_micros(dr.below(800) as u64));
                    } else if dr.chance(1, 4) {
                        std::thread::yield_now();
                    }
                    let start_ms = t0.elapsed().as_millis();
                    let out = panicmon::guard(|| queries::run_query(&job.an, &p.0, FileId(p.1), p.2));
                    let outcome = match out {
                        Outcome::Ok(Ok(a)) => RecOutcome::Ok(seq.fetch_add(1, Ordering::SeqCst), a.nf),
                        Outcome::Ok(Err(_)) => RecOutcome::Cancelled,
                        Outcome::Panicked(info) => RecOutcome::Panicked(info.signature()),
                    };
                    let cancelled = matches!(outcome, RecOutcome::Cancelled);
                    recs.lock().unwrap().push(Rec { reader: ri, tag: job.tag, probe: i % probes.len(), start_ms, outcome });
                    if cancelled {
                        // A task does not always notice at once: one or two more queries are
                        // ENTERED on the cancelled snapshot (they must report cancellation or
                        // answer for the snapshot's version like any other) before it is let go.
                        after_cancel += 1;
                        if after_cancel > extra_after_cancel {
                            break 'sweep;
                        }
                    }
                    i += 1;
                }
                drop(job);
            }
        }));
    }
    // main thread: owns the host, never holds a snapshot while applying a change
    let mut host = AnalysisHost::new();
    guarded_apply(&mut host, versions[0].full_change(), "initial-load");
    let mut batched_changes = 0u64;
    let mut req_ms: Vec<u128> = vec![0];
    let mut apply_us: Vec<u128> = vec![0];
    for v in 0..versions.len() {
        for tx in &txs {
            let an = host.snapshot();
            let _ = tx.send(Job { an, tag: v });
            if r.chance(1, 3) {
                std::thread::sleep(Duration::from_micros(r.below(400) as u64));
            }
        }
        if v + 1 == versions.len() {
            break;
        }
        std::thread::sleep(Duration::from_micros(r.below(3000) as u64));
        let (change, batched) = change_between(&versions[v], &versions[v + 1]);
        if batched {
            batched_changes += 1;
        }
        let t_req = t0.elapsed().as_millis();
        let ta = Instant::now();
        guarded_apply(&mut host, change, kinds.get(v + 1).copied().unwrap_or("change"));
        apply_us.push(ta.elapsed().as_micros());
        req_ms.push(t_req);
    }
    // let the last snapshots be swept a little, then end: dropping the senders ends readers
    std::thread::sleep(Duration::from_millis(2));
    stop.store(true, Ordering::SeqCst);
    // a final empty change cancels the last sweeps (as the server would on the next edit)
    guarded_apply(&mut host, Change::default(), "empty-change");
    rep.count("changes_with_several_texts_of_one_file", batched_changes);
    drop(txs);
    for h in handles {
        let _ = h.join();
    }
    let recs = recs.lock().unwrap().clone();
    // what the schedule looked like from the API boundary: per snapshot version, how many
    // queries answered and how many were cancelled (bucketed) - the distinct shapes seen are
    // reported as evidence of interleaving diversity
    {
        let bucket = |n: usize| match n { 0 => "0", 1 => "1", 2..=3 => "2-3", 4..=7 => "4-7", 8..=31 => "8-31", _ => "32+" };
        let mut shape = format!("r{n_readers}");
        for v in 0..versions.len() {
            let a = recs.iter().filter(|r| r.tag == v && matches!(r.outcome, RecOutcome::Ok(..))).count();
            let c = recs.iter().filter(|r| r.tag == v && matches!(r.outcome, RecOutcome::Cancelled)).count();
            shape.push_str(&format!("|a{}c{}", bucket(a), bucket(c)));
        }
        rep.see("interleaving_shapes(per version: answered/cancelled, bucketed)", shape);
    }

    let replay = json!({"kind":"concurrent-scenario","case_seed":case_seed.to_string(),"readers":n_readers,"changes":kinds,"versions":versions.iter().map(|w| w.to_json()).collect::<Vec<_>>()});
    let mut n_ok = 0u64;
    let mut n_cancel = 0u64;
    let mut order_sig = 0xC12u64;
    for rec in &recs {
        rep.evaluations += 1;
        match &rec.outcome {
            RecOutcome::Ok(s, nf) => {
                n_ok += 1;
                order_sig = fnv_mix(order_sig, format!("{}:{}:{}", s, rec.reader, rec.tag).as_bytes());
                let want = &expected[rec.tag][rec.probe];
                if want.starts_with("<panic") {
                    continue; // C10's business; the fresh analysis panics as well
                }
                if nf != want {
                    // which other version does it equal, if any?
                    let other = expected.iter().position(|e| &e[rec.probe] == nf);
                    let what = match other {
                        Some(o) if o > rec.tag => "answer-of-a-later-version",
                        Some(_) => "answer-of-an-earlier-version",
                        None => "mixture-of-versions",
                    };
                    let p = &probes[rec.probe];
                    rep.violate(
                        format!("snapshot-not-isolated:{what}:{}:change={}", p.0.name(), kinds.get(rec.tag + 1).copied().unwrap_or("none")),
                        format!("reader {} on the snapshot of version {}: {} at file {} offset {} answered {} but that version's answer is {}", rec.reader, rec.tag, p.0.name(), p.1, p.2, vh::report::truncate_str(nf, 300), vh::report::truncate_str(want, 300)),
                        replay.clone(),
                    );
                }
                // promptness: started long after the next change was requested
                if rec.tag + 1 < req_ms.len() {
                    let t_req = req_ms[rec.tag + 1];
                    if rec.start_ms > t_req + LATE_OK_MS {
                        rep.violate(
                            format!("change-does-not-cancel:{}", kinds[rec.tag + 1]),
                            format!("a query on the snapshot of version {} started {} ms after the change to version {} was requested and still returned an answer", rec.tag, rec.start_ms - t_req, rec.tag + 1),
                            replay.clone(),
                        );
                    }
                }
            }
            RecOutcome::Cancelled => {
                n_cancel += 1;
            }
            RecOutcome::Panicked(sig) => {
                let want = &expected[rec.tag][rec.probe];
                if want.starts_with("<panic") {
                    rep.count("panics_also_in_sequential_analysis(C10's business)", 1);
                } else {
                    rep.violate(format!("panic-on-snapshot:{sig}"), format!("query on a snapshot panicked ({sig}) although the sequential analysis of that version answers"), replay.clone());
                }
            }
        }
    }
    for (i, us) in apply_us.iter().enumerate().skip(1) {
        if *us > (READER_CAP_MS * 1000) {
            rep.violate(
                format!("apply-change-blocked:{}", kinds[i]),
                format!("apply_change to version {i} took {} ms: it waited for whole sweeps instead of cancelling them", us / 1000),
                replay.clone(),
            );
        }
        let b = if *us < 1000 { "<1ms" } else if *us < 10_000 { "1-10ms" } else if *us < 100_000 { "10-100ms" } else { ">=100ms" };
        rep.see("apply_change_latency", b);
    }
    rep.count("answers_checked_against_their_version", n_ok);
    rep.count("queries_cancelled", n_cancel);
    for k in &kinds {
        rep.see("change_kinds", k.to_string());
    }
    rep.see("readers", n_readers.to_string());
    if n_ok > 0 && n_cancel > 0 {
        // non-trivial: at least one query was cancelled by a change and one answered
        rep.nontrivial(order_sig ^ fnv(case_seed.to_string().as_bytes()));
    }
    if rep.samples.len() < 4 {
        rep.sample(json!({"case_seed": case_seed.to_string(), "readers": n_readers, "changes": kinds, "ok": n_ok, "cancelled": n_cancel, "apply_us": apply_us}));
    }
}

fn main() {
    panicmon::install();
    let args = Args::parse();
    let mut rep = Report::new("C12", args.shard);
    let mut r = Rng::derive(args.seed, args.shard as u64, 12);
    spawn_block_watchdog(&args);
    let t0 = Instant::now();
    let mut n = 0u64;
    while t0.elapsed().as_secs_f64() < args.budget_s {
        let Some(case_seed) = args.next_case(&mut r) else { break };
        run_scenario(&mut rep, case_seed);
        n += 1;
    }
    rep.count("scenarios", n);
    rep.write(&args.out);
}
