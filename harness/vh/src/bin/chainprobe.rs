//! Debug helper: chainprobe <n> [op|use|list|alt] — IDE queries on a long construct, on a 2 MiB stack.
use ide::FilePos;
use syntax::TextSize;
fn main() {
    let n: usize = std::env::args().nth(1).unwrap().parse().unwrap();
    let op = std::env::args().nth(2).unwrap_or("+".into());
    let mut text = String::from("pub fn f(a) {\n  ");
    if let Some(path) = op.strip_prefix("file:") {
        text = std::fs::read_to_string(path).unwrap();
        text.truncate(text.trim_end().len() - 1); // the closing brace is re-added below
    }
    match op.as_str() {
        f if f.starts_with("file:") => {}
        "use" => {
            for _ in 0..n {
                text.push_str("use x <- a\n  ");
            }
            text.push('a');
        }
        "list" => {
            text.push('[');
            for _ in 0..n {
                text.push_str("a, ");
            }
            text.push(']');
        }
        "alt" => {
            text.push_str("case a { 1");
            for _ in 0..n {
                text.push_str(" | 1");
            }
            text.push_str(" -> a }");
        }
        "clauses" => {
            text.push_str("case a {");
            for _ in 0..n {
                text.push_str(" 1 -> a\n");
            }
            text.push_str(" }");
        }
        "lets" => {
            for _ in 0..n {
                text.push_str("let a = a\n  ");
            }
            text.push('a');
        }
        _ => {
            text.push('a');
            for _ in 0..n {
                text.push_str(&format!(" {op} a"));
            }
        }
    }
    text.push_str("\n}\n");
    let files = vec![("/ws/pkg/src/m.gleam".to_string(), text), ("/ws/pkg/gleam.toml".to_string(), "name = \"pkg\"\n".to_string())];
    let r = std::thread::Builder::new().stack_size(2 << 20).spawn(move || {
        let loaded = vh::ws::load_single(&files);
        let an = loaded.host.snapshot();
        let f = loaded.file_by_path("/ws/pkg/src/m.gleam").unwrap();
        let h = an.hover(FilePos::new(f, TextSize::from(7))).unwrap().map(|h| h.markup);
        let d = an.diagnostics(f).unwrap().len();
        let hl = an.syntax_highlight(f, None).unwrap().len();
        println!("hover {h:?} diags {d} hl {hl}");
        drop(an);
        drop(loaded);
    }).unwrap().join();
    println!("joined {:?}", r.is_ok());
}
