//! Small helpers for the orchestrator.
//!   vh_tool merge-hashes <files...>   -> number of distinct u64 values over all files
//!   vh_tool journal <file>            -> JSON {phase,text,full_len} of a write-ahead journal
use std::io::Read;

fn main() {
    let argv: Vec<String> = std::env::args().skip(1).collect();
    match argv.first().map(|s| s.as_str()) {
        Some("merge-hashes") => {
            let mut all: Vec<u64> = Vec::new();
            for f in &argv[1..] {
                let mut b = Vec::new();
                if let Ok(mut fh) = std::fs::File::open(f) {
                    let _ = fh.read_to_end(&mut b);
                }
                for c in b.chunks_exact(8) {
                    all.push(u64::from_le_bytes(c.try_into().unwrap()));
                }
            }
            all.sort_unstable();
            all.dedup();
            println!("{}", all.len());
        }
        Some("journal") => {
            if let Some((phase, body, full)) = vh::report::read_journal(std::path::Path::new(&argv[1])) {
                println!(
                    "{}",
                    serde_json::json!({"phase": phase, "text": String::from_utf8_lossy(&body), "full_len": full})
                );
            }
        }
        _ => {
            eprintln!("usage: vh_tool merge-hashes <files..> | journal <file>");
            std::process::exit(2);
        }
    }
}
