//! C12 under Miri: the smallest snapshot / cancel scenario, interpreted, so that a data
//! race or undefined behaviour in the snapshot machinery as glas drives it (salsa
//! snapshots, `Cancelled` unwinding through `with_db`, Arc'd syntax trees shared between
//! threads) stops the interpreter with a report; the schedule varies with `-Zmiri-seed`.
//! The C12 oracles run on what the threads observed:
//!   * a query on the old snapshot answers exactly the old version's answer or `Cancelled`;
//!   * `apply_change` returns (the reader drops its snapshot when cancelled);
//!   * a snapshot taken afterwards answers the new version's answer.
//!
//!   cargo +nightly miri run -p vh --bin mi_conc -- --prop C12 --seed S --shard i/n --out DIR
//!
//! Also runs natively (same scenario).

use ide::FilePos;
use serde_json::json;
use std::sync::atomic::{AtomicBool, AtomicUsize, Ordering};
use std::sync::Arc;
use syntax::TextSize;
use vh::report::{Args, Report};
use vh::rng::{fnv, Rng};
use vh::ws;

const A0: &str = "pub fn f(x) { x + 1 }\n\npub fn g() { f(2) }\n";
const A1: &str = "pub fn f(x, y) { x <> y }\n\npub fn g() { f(\"a\", \"b\") }\n";
const B: &str = "import a\n\npub fn h() { a.g() }\n";

fn files(a: &str) -> Vec<(String, String)> {
    vec![
        ("/ws/pkg/src/a.gleam".into(), a.to_string()),
        ("/ws/pkg/src/b.gleam".into(), B.to_string()),
        ("/ws/pkg/gleam.toml".into(), "name = \"pkg\"\n".into()),
    ]
}

/// (file index, offset) probes: `f` and `g` in a.gleam, `g` in b.gleam
const PROBES: &[(usize, u32)] = &[(0, 7), (0, 30), (1, 25)];

fn hover_nf(an: &ide::Analysis, loaded: &ws::Loaded, paths: &[String], probe: (usize, u32)) -> Result<String, ()> {
    let file = loaded.file_by_path(&paths[probe.0]).unwrap();
    match an.hover(FilePos::new(file, TextSize::from(probe.1))) {
        Ok(Some(h)) => Ok(format!("{:?} {}", h.range, h.markup)),
        Ok(None) => Ok("none".into()),
        Err(_) => Err(()),
    }
}

fn main() {
    let args = Args::parse();
    let mut rep = Report::new(&args.prop, args.shard);
    let mut r = Rng::derive(args.seed, args.shard as u64, 1212);
    let paths: Vec<String> = files(A0).iter().map(|f| f.0.clone()).collect();

    // reference answers from fresh hosts
    let fresh = |a: &str| -> Vec<String> {
        let l = ws::load_single(&files(a));
        let an = l.host.snapshot();
        PROBES.iter().map(|p| hover_nf(&an, &l, &paths, *p).expect("fresh host is never cancelled")).collect()
    };
    let want0 = fresh(A0);
    let want1 = fresh(A1);
    assert_ne!(want0[0], want1[0], "the two versions must differ in what the probes see");

    let rounds = args.get("rounds").and_then(|s| s.parse().ok()).unwrap_or(2usize);
    for round in 0..rounds {
        rep.evaluations += 1;
        let mut loaded = ws::load_single(&files(A0));
        let a_file = loaded.file_by_path(&paths[0]).unwrap();
        let snap = loaded.host.snapshot();
        let stop = Arc::new(AtomicBool::new(false));
        let stop2 = stop.clone();
        let paths2 = paths.clone();
        // the reader gets only what it needs: the snapshot and the file ids
        let ids: Vec<ide::FileId> = paths.iter().map(|p| loaded.file_by_path(p).unwrap()).collect();
        let order: Vec<usize> = {
            let mut o: Vec<usize> = (0..PROBES.len()).collect();
            r.shuffle(&mut o);
            o
        };
        let warm = r.chance(1, 2);
        if warm {
            // warm cache: the reader's queries may finish from memoised values
            let _ = snap.hover(FilePos::new(ids[0], TextSize::from(PROBES[0].1)));
        }
        // the writer lets the reader finish `head_start` queries first (0 = race from the start)
        let head_start = r.below(3);
        let progress = Arc::new(AtomicUsize::new(0));
        let progress2 = progress.clone();
        let reader = std::thread::spawn(move || {
            let _ = &paths2;
            let mut seen: Vec<(usize, Result<String, ()>)> = Vec::new();
            'outer: for _sweep in 0..3 {
                for &pi in &order {
                    let (fi, off) = PROBES[pi];
                    let res = match snap.hover(FilePos::new(ids[fi], TextSize::from(off))) {
                        Ok(Some(h)) => Ok(format!("{:?} {}", h.range, h.markup)),
                        Ok(None) => Ok("none".into()),
                        Err(_) => Err(()),
                    };
                    let cancelled = res.is_err();
                    seen.push((pi, res));
                    progress2.fetch_add(1, Ordering::SeqCst);
                    if cancelled || stop2.load(Ordering::SeqCst) {
                        break 'outer;
                    }
                }
            }
            drop(snap); // a cancelled reader lets go of its snapshot: the writer can proceed
            seen
        });
        // the writer: one change while the reader is (probably) busy
        while progress.load(Ordering::SeqCst) < head_start {
            std::thread::yield_now();
        }
        let mut change = ide::Change::default();
        change.change_file(a_file, Arc::from(A1));
        loaded.host.apply_change(change);
        stop.store(true, Ordering::SeqCst);
        rep.count("apply_change_returned", 1);
        let seen = reader.join().expect("reader thread must not unwind");
        let mut oks = 0;
        let mut cancels = 0;
        for (pi, res) in &seen {
            match res {
                Ok(s) => {
                    oks += 1;
                    if s != &want0[*pi] {
                        let what = if s == &want1[*pi] { "answer-of-the-later-version" } else { "answer-of-no-version" };
                        rep.violate(
                            format!("snapshot-not-isolated:{what}:hover"),
                            format!("old snapshot answered {s:?}; version 0 answers {:?}, version 1 answers {:?}", want0[*pi], want1[*pi]),
                            json!({"kind":"mi_conc","round":round,"probe":pi,"warm":warm}),
                        );
                    }
                }
                Err(()) => cancels += 1,
            }
        }
        rep.count("old_snapshot_answers", oks);
        rep.count("old_snapshot_cancellations", cancels);
        rep.see("reader_outcomes", format!("{oks} answers, {cancels} cancelled, cache {}, head start {head_start}", if warm { "warm" } else { "cold" }));
        // afterwards: the new version
        let an1 = loaded.host.snapshot();
        for (pi, p) in PROBES.iter().enumerate() {
            let file = loaded.file_by_path(&paths[p.0]).unwrap();
            let got = match an1.hover(FilePos::new(file, TextSize::from(p.1))) {
                Ok(Some(h)) => format!("{:?} {}", h.range, h.markup),
                Ok(None) => "none".into(),
                Err(_) => "cancelled".into(),
            };
            rep.count("new_snapshot_answers", 1);
            if got != want1[pi] {
                rep.violate(
                    "later-snapshot-does-not-see-the-change:hover",
                    format!("snapshot taken after apply_change answers {got:?}, a fresh analysis of the new text answers {:?}", want1[pi]),
                    json!({"kind":"mi_conc","round":round,"probe":pi}),
                );
            }
        }
        rep.nontrivial(fnv(format!("{}:{}:{round}:{oks}:{cancels}:{warm}", args.seed, args.shard).as_bytes()));
    }
    rep.count("interpreted_under_miri", if cfg!(miri) { 1 } else { 0 });
    rep.write(&args.out);
}
