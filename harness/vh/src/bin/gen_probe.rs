use vh::gen::*; use vh::rng::Rng;
fn main(){
    let seed: u64 = std::env::args().nth(1).and_then(|s| s.parse().ok()).unwrap_or(1);
    let mut r = Rng::new(seed);
    let cfg = GenCfg{ modules: 2, ..Default::default() };
    let ws = generate(&mut r, &cfg);
    for (i,p) in ws.printed.iter().enumerate(){
        println!("=== {} ===\n{}", ws.path_of(i), p.text);
        let parse = syntax::parse_module(&p.text);
        println!("--- errors: {:?}", parse.errors());
        let want = vh::prog::sexp_module(&ws.modules[i]);
        let got = vh::cstread::read_module(&parse.root());
        if want != got { for (a,b) in want.lines().zip(got.lines()) { if a!=b { println!("WANT {a}\nGOT  {b}"); } } }
        for c in vh::cstread::accessor_checks(&parse.syntax_node()) { println!("ACC {:?}", c); }
    }
}
