//! Self-test of the sanitizer tiers: a monitor that cannot fire is a broken monitor.
//! `san_selftest race` runs an unsynchronised read-modify-write from two threads (ThreadSanitizer
//! must report a data race); `san_selftest uaf` reads a freed heap block (AddressSanitizer must
//! report heap-use-after-free). The orchestrator runs the one matching the tier's sanitizer before
//! the workload and refuses to call a sanitizer run "held" when the self-test stayed silent.
use std::thread;

static mut COUNTER: u64 = 0;

fn race() {
    let hs: Vec<_> = (0..2)
        .map(|_| {
            thread::spawn(|| {
                for _ in 0..10_000 {
                    unsafe {
                        let p = std::ptr::addr_of_mut!(COUNTER);
                        p.write_volatile(p.read_volatile() + 1);
                    }
                }
            })
        })
        .collect();
    for h in hs {
        h.join().unwrap();
    }
    println!("counter {}", unsafe { std::ptr::addr_of!(COUNTER).read_volatile() });
}

fn uaf() {
    let b = Box::new([7u8; 64]);
    let p = Box::into_raw(b);
    unsafe {
        drop(Box::from_raw(p));
        println!("freed byte {}", (p as *const u8).add(3).read_volatile());
    }
}

fn main() {
    match std::env::args().nth(1).as_deref() {
        Some("race") => race(),
        Some("uaf") => uaf(),
        _ => {
            eprintln!("usage: san_selftest race|uaf");
            std::process::exit(2)
        }
    }
}
