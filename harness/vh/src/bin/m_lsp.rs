//! Black-box monitors driving the real `glas` binary over stdio.
//!   C15 no message sequence takes the server down; exactly-once answers; an edit that
//!       cannot be applied is dropped or the document forgotten, never applied elsewhere
//!   C13 (black-box half) the server's text tracks the editor's through didChange
//!       notifications with several changes each

use serde_json::{json, Value};
use std::collections::{BTreeMap, BTreeSet};
use std::path::{Path, PathBuf};
use std::time::{Duration, Instant};
use vh::lspclient::{file_uri, Server};
use vh::lspmodel::{Doc, Pos};
use vh::report::{truncate_str, Args, Report};
use vh::rng::{fnv, Rng};
use vh::synmon;

struct Env {
    bin: PathBuf,
    root: PathBuf,
    proj: PathBuf,
    disk: BTreeMap<String, String>,
}

const A_SRC: &str = "import b\n\npub fn main() {\n  let x = b.helper(1)\n  x\n}\n";
const B_SRC: &str = "pub fn helper(n) {\n  n + 1\n}\n\npub type Thing {\n  Thing(name: String)\n}\n";

fn setup_env(args: &Args, tag: &str) -> Env {
    let bin = PathBuf::from(args.get("glas-bin").expect("--glas-bin"));
    let root = args.out.join(format!("{tag}-shard{}", args.shard));
    let _ = std::fs::remove_dir_all(&root);
    let proj = root.join("proj");
    std::fs::create_dir_all(proj.join("src/sub")).unwrap();
    std::fs::create_dir_all(root.join("loose")).unwrap();
    let mut disk = BTreeMap::new();
    let mut put = |p: PathBuf, t: &str| {
        std::fs::write(&p, t).unwrap();
        disk.insert(p.display().to_string(), t.to_string());
    };
    if tag == "c15" {
        // the hostile-sequence project has a path dependency that depends back on it: a cycle of path dependencies is
        // a mistake in the project, whatever is opened or edited the server has to live with it
        std::fs::create_dir_all(root.join("cyc/src")).unwrap();
        std::fs::write(root.join("cyc/gleam.toml"), "name = \"cyc\"\nversion = \"1.0.0\"\n\n[dependencies]\nproj = { path = \"../proj\" }\ncyc = { path = \".\" }\n").unwrap();
        std::fs::write(root.join("cyc/src/cyc.gleam"), "pub fn cyc() { 1 }\n").unwrap();
        put(proj.join("gleam.toml"), "name = \"proj\"\n\n[dependencies]\ncyc = { path = \"../cyc\" }\n");
    } else {
        put(proj.join("gleam.toml"), "name = \"proj\"\n");
    }
    put(proj.join("src/a.gleam"), A_SRC);
    put(proj.join("src/b.gleam"), B_SRC);
    put(root.join("loose/free.gleam"), "fn free() { 1 }\n");
    // a directory named like a module and a FIFO
    std::fs::create_dir_all(proj.join("src/adir.gleam")).unwrap();
    let _ = std::process::Command::new("mkfifo").arg(proj.join("src/fifo.gleam")).status();
    Env { bin, root, proj, disk }
}

// ----------------------------------------------------------------------------------
// Operations

#[derive(Clone, Debug)]
struct Change {
    /// None = full replacement
    range: Option<((u32, u32), (u32, u32))>,
    text: String,
    class: &'static str,
    /// the deprecated `rangeLength` some editors still send (UTF-16 units of the replaced
    /// text as the EDITOR sees it); `range` is authoritative
    range_length: Option<u32>,
}

#[derive(Clone, Debug)]
enum Op {
    Open { uri: String, text: String },
    Change { uri: String, changes: Vec<Change> },
    Close { uri: String },
    Save { uri: String },
    Watched { events: Vec<(String, u32)> },
    Request { method: &'static str, params: Value, class: String },
    /// a notification the server registers no handler for
    Stray { method: &'static str, params: Value },
}

impl Op {
    fn class(&self) -> String {
        match self {
            Op::Open { uri, .. } => format!("didOpen:{}", uri_class(uri)),
            Op::Change { changes, uri } => format!("didChange:{}:{}", uri_class(uri), changes.iter().map(|c| c.class).collect::<Vec<_>>().join("+")),
            Op::Close { .. } => "didClose".into(),
            Op::Save { .. } => "didSave".into(),
            Op::Stray { method, .. } => format!("unhandled-notification:{method}"),
            Op::Watched { events } => if events.iter().all(|e| (1..=3).contains(&e.1)) { "didChangeWatchedFiles".into() } else { "didChangeWatchedFiles:type-out-of-protocol".into() },
            Op::Request { class, .. } => class.clone(),
        }
    }
}

fn uri_class(u: &str) -> &'static str {
    if u.starts_with("untitled:") {
        "untitled"
    } else if u.starts_with("git:") {
        "git"
    } else if !u.starts_with("file:///") {
        "odd-scheme"
    } else if u.contains("/nest/") || u.ends_with("/loose") {
        "nested-document-path"
    } else if u.contains("/loose/") {
        "loose-file"
    } else if u.ends_with("gleam.toml") {
        "gleam-toml"
    } else {
        "project-file"
    }
}

fn send_op(s: &mut Server, op: &Op, version: &mut i64) -> Option<i64> {
    match op {
        Op::Open { uri, text } => {
            *version += 1;
            s.notify("textDocument/didOpen", json!({"textDocument":{"uri":uri,"languageId":"gleam","version":*version,"text":text}}));
            None
        }
        Op::Change { uri, changes } => {
            *version += 1;
            let cs: Vec<Value> = changes
                .iter()
                .map(|c| match c.range {
                    None => json!({"text": c.text}),
                    Some(((l1, c1), (l2, c2))) => {
                        let mut v = json!({"range":{"start":{"line":l1,"character":c1},"end":{"line":l2,"character":c2}},"text":c.text});
                        // values no u32 can hold: the notification as a whole does not deserialize
                        match c.class {
                            "end-column-beyond-u32" => v["range"]["end"]["character"] = json!(4294967296u64),
                            "end-line-negative" => v["range"]["end"]["line"] = json!(-1),
                            "end-column-huge-float" => v["range"]["end"]["character"] = json!(1e20),
                            _ => {}
                        }
                        if let Some(n) = c.range_length {
                            v["rangeLength"] = json!(n);
                        }
                        v
                    }
                })
                .collect();
            s.notify("textDocument/didChange", json!({"textDocument":{"uri":uri,"version":*version},"contentChanges":cs}));
            None
        }
        Op::Close { uri } => {
            s.notify("textDocument/didClose", json!({"textDocument":{"uri":uri}}));
            None
        }
        Op::Stray { method, params } => {
            s.notify(method, params.clone());
            None
        }
        Op::Save { uri } => {
            s.notify("textDocument/didSave", json!({"textDocument":{"uri":uri}}));
            None
        }
        Op::Watched { events } => {
            let ev: Vec<Value> = events.iter().map(|(u, t)| json!({"uri":u,"type":t})).collect();
            s.notify("workspace/didChangeWatchedFiles", json!({"changes":ev}));
            None
        }
        Op::Request { method, params, .. } => Some(s.request(method, params.clone())),
    }
}

// ----------------------------------------------------------------------------------
// Model of acceptable server states

#[derive(Clone, Debug, PartialEq, Eq, PartialOrd, Ord)]
enum St {
    Forgotten,
    Text(String),
    /// More acceptable states than the model is willing to track (long histories of
    /// inapplicable edits on closed documents): the document is not judged until a full
    /// replacement or a didOpen pins its text again.
    Any,
}

fn clamp_candidates(doc: &Doc, p: (u32, u32)) -> Vec<usize> {
    // LSP: a column beyond the line end defaults back to the line end. Lines beyond the
    // document: end of document. Inside a surrogate pair: either side.
    let lines = doc.lines();
    let (line, col) = p;
    if (line as usize) >= lines.len() {
        return vec![doc.text.len()];
    }
    let (a, b) = lines[line as usize];
    let mut u = 0u32;
    let mut out = Vec::new();
    for (i, c) in doc.text[a..b].char_indices() {
        if u == col {
            return vec![a + i];
        }
        let w = c.len_utf16() as u32;
        if col > u && col < u + w {
            out.push(a + i);
            out.push(a + i + c.len_utf8());
            return out;
        }
        u += w;
    }
    vec![b]
}

fn apply_to_states(states: &BTreeSet<St>, ch: &Change) -> BTreeSet<St> {
    let mut out = BTreeSet::new();
    for st in states {
        match st {
            St::Forgotten => {
                out.insert(St::Forgotten);
            }
            St::Any => {
                match ch.range {
                    None => {
                        // "any" includes "forgotten", which a full replacement does not undo
                        out.insert(St::Text(ch.text.replace('\r', "")));
                        out.insert(St::Forgotten);
                    }
                    Some(_) => {
                        out.insert(St::Any);
                    }
                }
            }
            St::Text(t) => {
                let doc = Doc::new(t.clone());
                match ch.range {
                    None => {
                        out.insert(St::Text(ch.text.replace('\r', "")));
                    }
                    Some((s, e)) => {
                        let a = doc.offset_of(Pos { line: s.0, col: s.1 });
                        let b = doc.offset_of(Pos { line: e.0, col: e.1 });
                        match (a, b) {
                            (Ok(a), Ok(b)) if a <= b => {
                                let mut n = String::new();
                                n.push_str(&t[..a]);
                                n.push_str(&ch.text);
                                n.push_str(&t[b..]);
                                out.insert(St::Text(n.replace('\r', "")));
                            }
                            _ => {
                                // not applicable as stated: forgotten, dropped, or the
                                // spec-clamped application
                                out.insert(St::Forgotten);
                                out.insert(St::Text(t.clone()));
                                for a in clamp_candidates(&doc, s) {
                                    for b in clamp_candidates(&doc, e) {
                                        if a <= b {
                                            let mut n = String::new();
                                            n.push_str(&t[..a]);
                                            n.push_str(&ch.text);
                                            n.push_str(&t[b..]);
                                            out.insert(St::Text(n.replace('\r', "")));
                                        }
                                    }
                                }
                            }
                        }
                    }
                }
            }
        }
    }
    // Bound the set soundly: dropping members would turn acceptable behaviour into alarms, so
    // an overfull set collapses to "not judged".
    if out.len() > 64 {
        out.clear();
        out.insert(St::Any);
    }
    out
}

struct Model {
    states: BTreeMap<String, BTreeSet<St>>,
    open: BTreeSet<String>,
    disk: BTreeMap<String, String>,
}

fn uri_path(u: &str) -> Option<String> {
    u.strip_prefix("file://").map(|s| s.to_string())
}

impl Model {
    fn initial_for(&self, uri: &str) -> BTreeSet<St> {
        let mut s = BTreeSet::new();
        s.insert(St::Forgotten);
        if let Some(p) = uri_path(uri) {
            if let Some(t) = self.disk.get(&p) {
                s.insert(St::Text(t.replace('\r', "")));
            }
        }
        s
    }
    fn get(&mut self, uri: &str) -> BTreeSet<St> {
        if !self.states.contains_key(uri) {
            let i = self.initial_for(uri);
            self.states.insert(uri.to_string(), i);
        }
        self.states[uri].clone()
    }
    fn step(&mut self, op: &Op) {
        match op {
            Op::Open { uri, text } => {
                let mut s = BTreeSet::new();
                s.insert(St::Text(text.replace('\r', "")));
                if uri_class(uri) != "project-file" && uri_class(uri) != "loose-file" && uri_class(uri) != "gleam-toml" {
                    // non-file URIs: tracking them is optional
                    s.insert(St::Forgotten);
                }
                self.states.insert(uri.clone(), s);
                self.open.insert(uri.clone());
                // Opening a document may make the server discover (and load from disk) the
                // package or directory around it. Documents the client maintains keep their
                // text; one the server has (possibly) forgotten after an inapplicable edit, or
                // that the client closed, is a file on disk like any other and may be read.
                let others: Vec<String> = self.states.keys().filter(|u| *u != uri).cloned().collect();
                for o in others {
                    let cur = self.get(&o);
                    if !self.open.contains(&o) || cur.contains(&St::Forgotten) {
                        if let Some(t) = uri_path(&o).and_then(|p| self.disk.get(&p)) {
                            let mut cur = cur;
                            cur.insert(St::Text(t.replace('\r', "")));
                            self.states.insert(o, cur);
                        }
                    }
                }
            }
            Op::Change { uri, changes } => {
                let mut cur = self.get(uri);
                let before = cur.clone();
                for c in changes {
                    cur = apply_to_states(&cur, c);
                }
                if changes.iter().any(|c| matches!(c.class, "end-column-beyond-u32" | "end-line-negative" | "end-column-huge-float")) {
                    // a notification that does not even deserialize cannot be processed change by change:
                    // dropping it as a whole (text as before the notification) and forgetting the document
                    // is what "an edit it cannot apply is dropped" means for it
                    cur.extend(before.clone());
                    cur.insert(St::Forgotten);
                }
                if !self.open.contains(uri) {
                    // a change for a closed / never opened document may as well be ignored
                    cur.extend(before);
                }
                self.states.insert(uri.clone(), cur);
            }
            Op::Close { uri } => {
                self.open.remove(uri);
            }
            Op::Save { .. } => {}
            Op::Stray { .. } => {}
            Op::Watched { events } => {
                for (uri, typ) in events {
                    // one file, whatever the spelling of its URI
                    let uri = &uri.replace("%61", "a").replace("%62", "b");
                    let mut cur = self.get(uri);
                    // Files the client maintains are not reloaded - unless the server has
                    // (possibly) forgotten the document after an inapplicable edit, in which
                    // case it treats the file like any other file on disk.
                    if self.open.contains(uri) && !cur.contains(&St::Forgotten) {
                        continue;
                    }
                    match typ {
                        3 => {
                            cur.insert(St::Forgotten);
                        }
                        t if !(1..=3).contains(t) => {
                            // not a change type of the protocol: ignoring the event, reloading
                            // the file and dropping it are all acceptable
                            cur.insert(St::Forgotten);
                            if let Some(t) = uri_path(uri).and_then(|p| self.disk.get(&p)) {
                                cur.insert(St::Text(t.replace('\r', "")));
                            }
                        }
                        _ => {
                            if let Some(p) = uri_path(uri) {
                                match self.disk.get(&p) {
                                    Some(t) => {
                                        cur.insert(St::Text(t.replace('\r', "")));
                                    }
                                    None => {
                                        cur.insert(St::Forgotten);
                                    }
                                }
                            }
                        }
                    }
                    self.states.insert(uri.clone(), cur);
                }
            }
            Op::Request { .. } => {}
        }
    }
}

// ----------------------------------------------------------------------------------
// Sequence generation

fn invalid_position(r: &mut Rng, doc: &Doc) -> ((u32, u32), &'static str) {
    let lines = doc.lines();
    let nl = lines.len() as u32;
    let li = r.below(lines.len());
    let (a, b) = lines[li];
    let len16 = vh::lspmodel::utf16_len(&doc.text[a..b]);
    match r.below(7) {
        0 => ((nl, 0), "line-beyond-eof"),
        1 => ((nl + r.range(1, 50) as u32, r.below(5) as u32), "line-far-beyond-eof"),
        2 => ((li as u32, len16 + 1), "column-beyond-line-by-one"),
        3 => ((li as u32, len16 + r.range(2, 400) as u32), "column-far-beyond-line"),
        4 => ((u32::MAX, u32::MAX), "u32-max"),
        5 => ((li as u32, u32::MAX), "column-u32-max"),
        _ => {
            // inside a surrogate pair, if the document has an astral character
            for (l, &(a, b)) in lines.iter().enumerate() {
                let mut u = 0u32;
                for c in doc.text[a..b].chars() {
                    if c.len_utf16() == 2 {
                        return ((l as u32, u + 1), "inside-surrogate-pair");
                    }
                    u += c.len_utf16() as u32;
                }
            }
            ((nl, 0), "line-beyond-eof")
        }
    }
}

fn valid_positions(doc: &Doc) -> Vec<Pos> {
    doc.all_positions()
}

fn gen_change(r: &mut Rng, doc: &Doc, hostile: bool) -> Change {
    const TEXTS: &[&str] = &["", "a", "xy", "\n", "\r\n", "ß", "💣", " fn g() { 1 }\n", "a\r\nß", "(", "\"", "// c"];
    let text = TEXTS[r.below(TEXTS.len())].to_string();
    let ps = valid_positions(doc);
    let i = r.below(ps.len());
    let j = i + r.below((ps.len() - i).min(10));
    let (s, e) = (ps[i], ps[j]);
    if !hostile || r.chance(1, 2) {
        if r.chance(1, 10) {
            let t = if r.chance(1, 2) { "fn main() {\n  1\n}\n".to_string() } else { "let 💣 = \"ß\"\r\nfn x() { x }".to_string() };
            return Change { range: None, text: t, class: "full", range_length: None };
        }
        // one valid change in three carries the deprecated rangeLength: what an editor that
        // keeps CRLF line ends would count (one more unit per line break crossed), or plainly
        // the UTF-16 length of the replaced text
        let range_length = if r.chance(1, 3) {
            let (a, b) = (doc.offset_of(s).unwrap_or(0), doc.offset_of(e).unwrap_or(0));
            let replaced = &doc.text[a.min(b)..b.max(a)];
            let crlf = if r.chance(1, 2) { replaced.matches('\n').count() as u32 } else { 0 };
            Some(vh::lspmodel::utf16_len(replaced) + crlf)
        } else {
            None
        };
        return Change { range: Some(((s.line, s.col), (e.line, e.col))), text, class: if range_length.is_some() { "valid+rangeLength" } else { "valid" }, range_length };
    }
    if r.chance(1, 8) {
        // "huge values" that are not even a u32 (model: an invalid edit like any other - dropped, document forgotten)
        let class = *r.pick(&["end-column-beyond-u32", "end-line-negative", "end-column-huge-float"]);
        return Change { range: Some(((s.line, s.col), (u32::MAX, u32::MAX))), text, class, range_length: None };
    }
    match r.below(4) {
        0 if i != j => Change { range: Some(((e.line, e.col), (s.line, s.col))), text, class: "reversed", range_length: None },
        1 => {
            let (p, cls) = invalid_position(r, doc);
            Change { range: Some(((s.line, s.col), p)), text, class: cls, range_length: if r.chance(1, 4) { Some(r.below(20) as u32) } else { None } }
        }
        2 => {
            let (p, cls) = invalid_position(r, doc);
            Change { range: Some((p, p)), text, class: cls, range_length: None }
        }
        _ => {
            let (p, cls) = invalid_position(r, doc);
            let (q, _) = invalid_position(r, doc);
            Change { range: Some((p, q)), text, class: cls, range_length: None }
        }
    }
}

fn gen_request(r: &mut Rng, uri: &str, doc: &Doc, hostile: bool) -> Op {
    let ps = valid_positions(doc);
    let p = ps[r.below(ps.len())];
    let (mut line, mut col) = (p.line, p.col);
    let mut pclass = "valid-pos";
    if hostile && r.chance(1, 3) {
        let (q, c) = invalid_position(r, doc);
        line = q.0;
        col = q.1;
        pclass = c;
    }
    let td = json!({"uri": uri});
    let pos = json!({"line": line, "character": col});
    let (method, params): (&'static str, Value) = match r.below(13) {
        0 => ("textDocument/hover", json!({"textDocument":td,"position":pos})),
        1 => ("textDocument/definition", json!({"textDocument":td,"position":pos})),
        2 => ("textDocument/references", json!({"textDocument":td,"position":pos,"context":{"includeDeclaration":true}})),
        3 => ("textDocument/documentHighlight", json!({"textDocument":td,"position":pos})),
        4 => ("textDocument/completion", json!({"textDocument":td,"position":pos})),
        5 => ("textDocument/completion", json!({"textDocument":td,"position":pos,"context":{"triggerKind":2,"triggerCharacter":"."}})),
        6 => ("textDocument/signatureHelp", json!({"textDocument":td,"position":pos})),
        7 => ("textDocument/prepareRename", json!({"textDocument":td,"position":pos})),
        8 => ("textDocument/rename", json!({"textDocument":td,"position":pos,"newName": *r.pick(&["renamed", "Renamed", "fn", "a b", "", "ß"])})),
        9 => ("textDocument/semanticTokens/full", json!({"textDocument":td})),
        10 => {
            let q = ps[r.below(ps.len())];
            let (s, e) = if (p.line, p.col) <= (q.line, q.col) { (p, q) } else { (q, p) };
            let mut range = json!({"start":{"line":s.line,"character":s.col},"end":{"line":e.line,"character":e.col}});
            if hostile && r.chance(1, 3) {
                range = json!({"start":{"line":e.line,"character":e.col + 1},"end":{"line":s.line,"character":s.col}});
                pclass = "reversed-or-beyond-range";
            }
            ("textDocument/semanticTokens/range", json!({"textDocument":td,"range":range}))
        }
        11 => ("glas/syntaxTree", json!({"textDocument":td})),
        _ => ("textDocument/formatting", json!({"textDocument":td,"options":{"tabSize":2,"insertSpaces":true}})),
    };
    Op::Request { method, params, class: format!("{method}:{}:{pclass}", uri_class(uri)) }
}

fn gen_sequence(r: &mut Rng, env: &Env, hostile: bool) -> Vec<Op> {
    let p = |s: &str| file_uri(&env.proj.join(s).display().to_string());
    let mut uris: Vec<String> = vec![p("src/a.gleam"), p("src/b.gleam"), p("src/sub/c.gleam"), file_uri(&env.root.join("loose/free.gleam").display().to_string())];
    if hostile {
        uris.push("untitled:Untitled-1".into());
        uris.push("git:/proj/src/a.gleam?ref=HEAD".into());
        uris.push(p("gleam.toml"));
        uris.push(p("src/never_opened.gleam"));
        // percent-encoded paths: a space, a non-ASCII name, and bytes that are not UTF-8 at all
        uris.push(format!("{}/src/a%20b.gleam", file_uri(&env.proj.display().to_string())));
        uris.push(format!("{}/src/%E2%82%AC.gleam", file_uri(&env.proj.display().to_string())));
        uris.push(format!("{}/src/%FF%FE.gleam", file_uri(&env.proj.display().to_string())));
    }
    let ndocs = r.range(1, 3);
    r.shuffle(&mut uris);
    let mut docs: Vec<String> = uris[..ndocs.min(uris.len())].to_vec();
    if hostile && r.chance(1, 6) {
        // document paths nested in one another: a document whose path is a proper ancestor
        // of another document's path (nothing of it exists on disk), or an existing directory
        let outer = file_uri(&env.root.join("nest/doc.gleam").display().to_string());
        let inner = file_uri(&env.root.join("nest/doc.gleam/inner.gleam").display().to_string());
        let dir = file_uri(&env.root.join("loose").display().to_string());
        docs = match r.below(3) {
            0 => vec![inner, outer],
            1 => vec![outer, inner],
            _ => vec![file_uri(&env.root.join("loose/free.gleam").display().to_string()), dir],
        };
        if r.chance(1, 2) {
            docs.push(p("src/a.gleam"));
        }
    }
    // the generator's own belief of each document's text (to aim positions at)
    let mut belief: BTreeMap<String, Doc> = BTreeMap::new();
    let mut ops = Vec::new();
    let n = r.range(5, 60);
    const TEXTS: &[&str] = &[A_SRC, B_SRC, "", "fn f() { 💣 }", "pub type T {\r\n  A\r\n  B(x: Int)\r\n}\r\n", "import b\nfn g(x) { b.helper(x) |> b.helper }\n", "ßßß ℝ 💣💣\n\n\nx"];
    for _ in 0..n {
        let uri = docs[r.below(docs.len())].clone();
        let doc = belief.get(&uri).cloned().unwrap_or_else(|| Doc::new(""));
        let k = r.below(20);
        if k < 3 || !belief.contains_key(&uri) && k < 12 {
            let text = TEXTS[r.below(TEXTS.len())].to_string();
            belief.insert(uri.clone(), Doc::new(text.replace('\r', "")));
            ops.push(Op::Open { uri, text });
        } else if k < 11 {
            let nchanges = if r.chance(1, 3) { r.range(2, 4) } else { 1 };
            let mut d = doc.clone();
            let mut changes = Vec::new();
            for _ in 0..nchanges {
                let c = gen_change(r, &d, hostile);
                // the generator follows the spec-valid path in its belief
                let mut m = Doc::new(d.text.clone());
                if m.apply(c.range.map(|(s, e)| (Pos { line: s.0, col: s.1 }, Pos { line: e.0, col: e.1 })), &c.text).is_ok() {
                    d = Doc::new(m.text.replace('\r', ""));
                }
                changes.push(c);
            }
            belief.insert(uri.clone(), d);
            ops.push(Op::Change { uri, changes });
        } else if k < 12 {
            ops.push(Op::Close { uri });
        } else if k < 13 {
            ops.push(Op::Save { uri });
        } else if k < 14 && hostile {
            // `src/%61.gleam` is another spelling of `src/a.gleam`: a watcher that percent-encodes differently than the editor
            let targets = [p("src/a.gleam"), p("src/b.gleam"), p("src/gone.gleam"), p("src/adir.gleam"), p("src/fifo.gleam"), p("gleam.toml"), "untitled:x".to_string(), p("src/%61.gleam"), p("src/%62.gleam")];
            let ne = r.range(1, 3);
            // FileChangeType is 1 (created), 2 (changed) or 3 (deleted); a client may send anything
            let events = (0..ne).map(|_| (targets[r.below(targets.len())].clone(), if r.chance(1, 5) { *r.pick(&[0u32, 4, 7, 2147483647]) } else { r.range(1, 3) as u32 })).collect();
            ops.push(Op::Watched { events });
        } else if hostile && r.chance(1, 12) {
            // notifications of the protocol this server registers no handler for: to be ignored
            let (method, params): (&'static str, Value) = match r.below(5) {
                0 => ("workspace/didChangeWorkspaceFolders", json!({"event":{"added":[],"removed":[]}})),
                1 => ("textDocument/willSave", json!({"textDocument":{"uri":uri},"reason":1})),
                2 => ("window/workDoneProgress/cancel", json!({"token":"t"})),
                3 => ("workspace/didCreateFiles", json!({"files":[{"uri":uri}]})),
                _ => ("$/setTrace", json!({"value":"off"})),
            };
            ops.push(Op::Stray { method, params });
        } else {
            ops.push(gen_request(r, &uri, &doc, hostile));
        }
    }
    ops
}

// ----------------------------------------------------------------------------------
// Execution

#[derive(Debug, Default)]
struct RunResult {
    died_after: Option<(usize, String)>,
    exit: String,
    missing: Vec<(i64, String)>,
    duplicated: Vec<(i64, String, usize)>,
    observed: BTreeMap<String, Result<String, String>>,
    hang: Option<String>,
    n_requests: usize,
    n_errors: usize,
    n_results: usize,
}

fn cpu_ticks(pid: u32) -> u64 {
    let mut total = 0;
    if let Ok(rd) = std::fs::read_dir(format!("/proc/{pid}/task")) {
        for e in rd.flatten() {
            if let Ok(s) = std::fs::read_to_string(e.path().join("stat")) {
                if let Some(rest) = s.rsplit(')').next() {
                    let f: Vec<&str> = rest.split_whitespace().collect();
                    if f.len() > 13 {
                        total += f[11].parse::<u64>().unwrap_or(0) + f[12].parse::<u64>().unwrap_or(0);
                    }
                }
            }
        }
    }
    total
}

fn exit_string(s: &mut Server) -> String {
    use std::os::unix::process::ExitStatusExt;
    for _ in 0..100 {
        if let Some(st) = s.exit_status() {
            return match (st.code(), st.signal()) {
                (Some(c), _) => format!("exit={c}"),
                (_, Some(sig)) => format!("signal={sig}"),
                _ => "exit=?".into(),
            };
        }
        std::thread::sleep(Duration::from_millis(10));
    }
    "stdout-closed-but-process-running".into()
}

fn run_sequence(env: &Env, ops: &[Op], stepwise: bool, probe_uris: &[String], stderr: Option<&Path>, profile: Option<&vh::lspclient::ClientProfile>) -> RunResult {
    let mut res = RunResult::default();
    let mut s = match Server::spawn(&env.bin, &[], stderr) {
        Ok(s) => s,
        Err(e) => {
            res.hang = Some(format!("spawn failed: {e}"));
            return res;
        }
    };
    let root_uri = file_uri(&env.proj.display().to_string());
    let init = match profile {
        Some(p) => s.initialize_with(Some(&root_uri), p.capabilities.clone(), p.client_info.clone(), Duration::from_secs(20)),
        None => s.initialize(Some(&root_uri), Duration::from_secs(20)),
    };
    if init.is_none() {
        if !s.alive() {
            res.died_after = Some((0, "initialize".into()));
            res.exit = exit_string(&mut s);
            return res;
        }
        res.hang = Some("no initialize response".into());
        return res;
    }
    let mut version = 0i64;
    for (i, op) in ops.iter().enumerate() {
        let id = send_op(&mut s, op, &mut version);
        if stepwise {
            // a cheap round trip after every message attributes a death to that message
            let pid = match id {
                Some(id) => id,
                None => s.request("glas/syntaxTree", json!({"textDocument":{"uri":"file:///nonexistent/probe.gleam"}})),
            };
            let got = s.wait_response(pid, Duration::from_secs(20));
            if got.is_none() && !s.alive() {
                res.died_after = Some((i, op.class()));
                res.exit = exit_string(&mut s);
                return res;
            }
        } else {
            s.pump_until(Duration::from_millis(0), |_| true);
        }
        if s.eof {
            res.died_after = Some((i, op.class()));
            res.exit = exit_string(&mut s);
            return res;
        }
    }
    // final probes: one syntaxTree per document
    let mut probe_ids = Vec::new();
    for u in probe_uris {
        let id = s.request("glas/syntaxTree", json!({"textDocument":{"uri":u}}));
        probe_ids.push((u.clone(), id));
    }
    let all_ids: Vec<(i64, String)> = s.sent_requests.clone();
    let done = s.pump_until(Duration::from_secs(25), |s| all_ids.iter().all(|(id, _)| s.responses.contains_key(id)));
    if !done {
        if !s.alive() || s.eof {
            res.died_after = Some((ops.len(), "after-sequence".into()));
            res.exit = exit_string(&mut s);
            return res;
        }
        // alive but silent: deadlock or very slow?
        let pid = s.child.id();
        let c1 = cpu_ticks(pid);
        std::thread::sleep(Duration::from_secs(2));
        let c2 = cpu_ticks(pid);
        let probe = s.request("glas/syntaxTree", json!({"textDocument":{"uri":"file:///nonexistent/probe2.gleam"}}));
        let answered = s.wait_response(probe, Duration::from_secs(8)).is_some();
        if !answered && c2 <= c1 + 1 {
            res.hang = Some(format!("deadlock: {} requests unanswered, main loop does not answer a probe, CPU flat ({c1}->{c2} ticks)", all_ids.iter().filter(|(id, _)| !s.responses.contains_key(id)).count()));
        } else if !answered {
            res.hang = Some("inconclusive: unanswered requests but the process is burning CPU".into());
        }
    }
    s.drain(Duration::from_millis(120));
    for (id, m) in &s.sent_requests {
        match s.responses.get(id).map(|v| v.len()).unwrap_or(0) {
            0 => res.missing.push((*id, m.clone())),
            1 => {}
            n => res.duplicated.push((*id, m.clone(), n)),
        }
    }
    res.n_requests = s.sent_requests.len();
    for v in s.responses.values() {
        if v[0].get("error").is_some() {
            res.n_errors += 1;
        } else {
            res.n_results += 1;
        }
    }
    for (u, id) in probe_ids {
        if let Some(v) = s.responses.get(&id).and_then(|v| v.first()) {
            if let Some(r) = v.get("result").and_then(|r| r.as_str()) {
                res.observed.insert(u, Ok(r.to_string()));
            } else {
                res.observed.insert(u, Err(v["error"]["message"].as_str().unwrap_or("error").chars().take(80).collect()));
            }
        }
    }
    s.shutdown();
    res
}

fn ops_json(ops: &[Op]) -> Value {
    json!(ops
        .iter()
        .map(|op| match op {
            Op::Open { uri, text } => json!({"op":"didOpen","uri":uri,"text":text}),
            Op::Change { uri, changes } => json!({"op":"didChange","uri":uri,"changes":changes.iter().map(|c| json!({"range":c.range.map(|(s,e)| json!([[s.0,s.1],[e.0,e.1]])),"text":c.text,"class":c.class,"rangeLength":c.range_length})).collect::<Vec<_>>()}),
            Op::Close { uri } => json!({"op":"didClose","uri":uri}),
            Op::Save { uri } => json!({"op":"didSave","uri":uri}),
            Op::Stray { method, params } => json!({"op":"notification-without-a-handler","method":method,"params":params}),
            Op::Watched { events } => json!({"op":"didChangeWatchedFiles","events":events}),
            Op::Request { method, params, class } => json!({"op":"request","method":method,"params":params,"class":class}),
        })
        .collect::<Vec<_>>())
}

fn judge(rep: &mut Report, prop: &str, env: &Env, ops: &[Op], res: &RunResult, stepwise: bool, replay: &Value) -> bool {
    let mode = if stepwise { "stepwise" } else { "pipelined" };
    if let Some((i, cls)) = &res.died_after {
        if prop == "C15" {
            rep.violate(format!("server-died:{}:after={}", res.exit, cls), format!("server process gone ({}) after message {i} ({cls}), {mode}", res.exit), replay.clone());
        } else {
            rep.count("server_died(C15's business)", 1);
        }
        return false;
    }
    if let Some(h) = &res.hang {
        if h.starts_with("deadlock") && prop == "C15" {
            rep.violate(format!("hang:deadlock:{mode}"), h.clone(), replay.clone());
        } else {
            rep.inconclusive += 1;
            rep.notes.push(h.clone());
        }
        return false;
    }
    if prop == "C15" {
        for (id, m) in &res.missing {
            rep.violate(format!("no-response:{m}"), format!("request {id} ({m}) never answered although the server is alive ({mode})"), replay.clone());
        }
        for (id, m, n) in &res.duplicated {
            rep.violate(format!("response-duplicated:{m}"), format!("request {id} ({m}) answered {n} times"), replay.clone());
        }
    }
    // final state of every document in the acceptable set
    let mut model = Model { states: BTreeMap::new(), open: BTreeSet::new(), disk: env.disk.clone() };
    for op in ops {
        model.step(op);
    }
    let mut ok = true;
    for (uri, obs) in &res.observed {
        if uri_class(uri) == "gleam-toml" {
            // The loader re-reads the manifest from disk whenever a package is (re)discovered,
            // by design; the stored text of an open gleam.toml is not a Gleam document the
            // server analyses and is not judged (liveness and exactly-once still are).
            rep.count("gleam_toml_documents_not_judged", 1);
            continue;
        }
        let states = model.get(uri);
        if states.contains(&St::Any) {
            rep.count("documents_not_judged(more than 64 acceptable states)", 1);
            continue;
        }
        let matches = match obs {
            Err(_) => states.contains(&St::Forgotten),
            Ok(dump) => states.iter().any(|s| matches!(s, St::Text(t) if synmon::dump_matches_text(dump, t).is_ok())),
        };
        rep.count("documents_probed", 1);
        if !matches {
            ok = false;
            // which change classes were involved
            let classes: BTreeSet<&str> = ops.iter().filter_map(|o| match o { Op::Change { uri: u, changes } if u == uri => Some(changes.iter().map(|c| c.class).collect::<Vec<_>>()), _ => None }).flatten().collect();
            let only_valid = classes.iter().all(|c| *c == "valid" || *c == "valid+rangeLength" || *c == "full");
            let shown = match obs {
                Ok(d) => {
                    let leaves = synmon::dump_leaves(d).unwrap_or_default();
                    let t: String = leaves.iter().map(|l| l.text.clone()).collect();
                    format!("server text ~{:?}", truncate_str(&t, 200))
                }
                Err(e) => format!("server answers error: {e}"),
            };
            let want: Vec<String> = states.iter().map(|s| match s { St::Forgotten => "<forgotten>".into(), St::Text(t) => format!("{:?}", truncate_str(t, 120)), St::Any => "<any>".into() }).take(4).collect();
            if only_valid {
                rep.violate(
                    format!("doc-desync:{}:{}", uri_class(uri), mode),
                    format!("{uri}: {shown}; acceptable: {want:?}"),
                    replay.clone(),
                );
            } else if prop == "C15" {
                rep.see("invalid_edit_classes_in_desynced_histories", classes.iter().filter(|c| **c != "valid" && **c != "valid+rangeLength" && **c != "full").cloned().collect::<Vec<_>>().join("+"));
                rep.violate(
                    format!("edit-applied-elsewhere:{}", uri_class(uri)),
                    format!("{uri}: {shown}; acceptable after the invalid edit(s): {want:?}"),
                    replay.clone(),
                );
            }
        }
    }
    ok
}

fn run_c15(args: &Args) -> Report {
    let mut rep = Report::new("C15", args.shard);
    let env = setup_env(args, "c15");
    let mut r = Rng::derive(args.seed, args.shard as u64, 15);
    let t0 = Instant::now();
    let mut n = 0u64;
    while t0.elapsed().as_secs_f64() < args.budget_s {
        let Some(case_seed) = args.next_case(&mut r) else { break };
        let mut cr = Rng::new(case_seed);
        let ops = gen_sequence(&mut cr, &env, true);
        let stepwise = cr.chance(1, 2);
        // what the client says about itself at initialize differs from editor to editor
        let profile = vh::lspclient::client_profile(&mut cr);
        rep.see("client_profiles", profile.descr.clone());
        let probe_uris: Vec<String> = ops.iter().filter_map(|o| match o { Op::Open { uri, .. } | Op::Change { uri, .. } => Some(uri.clone()), _ => None }).collect::<BTreeSet<_>>().into_iter().collect();
        let replay = json!({"kind":"lsp-sequence","ops":ops_json(&ops),"stepwise":stepwise,"case_seed":case_seed.to_string(),"client":profile.descr});
        rep.evaluations += 1;
        let mut res = run_sequence(&env, &ops, stepwise, &probe_uris, None, Some(&profile));
        // a death in pipelined mode is re-run stepwise for attribution
        let mut sw = stepwise;
        if res.died_after.is_some() && !stepwise {
            let res2 = run_sequence(&env, &ops, true, &probe_uris, None, Some(&profile));
            if res2.died_after.is_some() {
                res = res2;
                sw = true;
            }
        }
        for op in &ops {
            rep.see("message_classes", op.class());
        }
        rep.count("requests_sent", res.n_requests as u64);
        rep.count("responses_with_result", res.n_results as u64);
        rep.count("responses_with_error", res.n_errors as u64);
        judge(&mut rep, "C15", &env, &ops, &res, sw, &replay);
        let hostile_msgs = ops.iter().filter(|o| { let c = o.class(); !(c.ends_with(":valid") || c.ends_with(":valid+rangeLength") || c.ends_with("valid-pos") || c == "didClose" || c == "didSave") }).count();
        if hostile_msgs >= 1 {
            rep.nontrivial(fnv(ops_json(&ops).to_string().as_bytes()));
        }
        if rep.samples.len() < 3 && n % 11 == 0 {
            rep.sample(json!({"stepwise": stepwise, "classes": ops.iter().map(|o| o.class()).take(14).collect::<Vec<_>>()}));
        }
        n += 1;
    }
    rep.count("sequences", n);
    let _ = std::fs::remove_dir_all(&env.root);
    rep
}

/// C13 black-box half: valid edits only, several changes per notification; after every
/// notification the server's text (via glas/syntaxTree) must equal the editor's.
fn run_c13bb(args: &Args) -> Report {
    let mut rep = Report::new("C13", args.shard);
    let env = setup_env(args, "c13");
    let mut r = Rng::derive(args.seed, args.shard as u64, 131);
    let t0 = Instant::now();
    let mut n = 0u64;
    let uri = file_uri(&env.proj.join("src/a.gleam").display().to_string());
    let mut s = Server::spawn(&env.bin, &[], None).expect("spawn");
    s.initialize(Some(&file_uri(&env.proj.display().to_string())), Duration::from_secs(20)).expect("init");
    let mut version = 0i64;
    while t0.elapsed().as_secs_f64() < args.budget_s {
        // words stay shorter than 25 bytes so the syntax-tree dump shows every byte
        let alpha = ["a", "b1", " ", "\n", "\r\n", "ß", "ℝ", "💣", "fn", "(", ")", "x", ","];
        let mut text = String::new();
        for _ in 0..r.below(40) {
            text.push_str(alpha[r.below(alpha.len())]);
        }
        // one document in six starts with a byte-order mark: a character like any other for the protocol
        // (one UTF-16 unit in column 0 of line 0)
        if r.chance(1, 6) {
            text.insert(0, '\u{feff}');
        }
        let mut client = Doc::new(text.clone());
        let mut log: Vec<Value> = vec![json!({"open": text})];
        version += 1;
        s.notify("textDocument/didOpen", json!({"textDocument":{"uri":uri,"languageId":"gleam","version":version,"text":text}}));
        let nnotes = r.range(1, 6);
        let mut ok = true;
        // one history in three comes from an editor that still sends rangeLength
        let cr_len = r.chance(1, 3);
        for _ in 0..nnotes {
            let nch = r.range(1, 4);
            let mut cs = Vec::new();
            for _ in 0..nch {
                let ps = client.all_positions();
                let i = r.below(ps.len());
                let j = i + r.below((ps.len() - i).min(8));
                let ins = alpha[r.below(alpha.len())].repeat(r.below(3));
                if r.chance(1, 10) {
                    cs.push(json!({"text": ins}));
                    client.apply(None, &ins).unwrap();
                } else {
                    let mut c = json!({"range":{"start":{"line":ps[i].line,"character":ps[i].col},"end":{"line":ps[j].line,"character":ps[j].col}},"text":ins});
                    if cr_len {
                        // the deprecated rangeLength, as editors that still send it count it:
                        // UTF-16 units of the replaced text, carriage returns included
                        let (a, b) = (client.offset_of(ps[i]).unwrap(), client.offset_of(ps[j]).unwrap());
                        c["rangeLength"] = json!(vh::lspmodel::utf16_len(&client.text[a..b]));
                        rep.count("bb_changes_with_rangeLength", 1);
                    }
                    cs.push(c);
                    client.apply(Some((ps[i], ps[j])), &ins).unwrap();
                }
            }
            log.push(json!({"didChange": cs}));
            version += 1;
            s.notify("textDocument/didChange", json!({"textDocument":{"uri":uri,"version":version},"contentChanges":cs}));
            let id = s.request("glas/syntaxTree", json!({"textDocument":{"uri":uri}}));
            rep.evaluations += 1;
            let replay = json!({"kind":"c13-history","history":log});
            let Some(resp) = s.wait_response(id, Duration::from_secs(20)) else {
                if !s.alive() {
                    rep.count("bb_server_died(C15's business)", 1);
                    s = Server::spawn(&env.bin, &[], None).expect("spawn");
                    s.initialize(Some(&file_uri(&env.proj.display().to_string())), Duration::from_secs(20)).expect("init");
                } else {
                    rep.inconclusive += 1;
                }
                ok = false;
                break;
            };
            s.forget();
            let want = client.server_view();
            match resp.get("result").and_then(|r| r.as_str()) {
                Some(dump) => {
                    if let Err(e) = synmon::dump_matches_text(dump, &want) {
                        rep.violate(
                            format!("bb-doc-desync:changes-per-notification={}", if nch > 1 { "many" } else { "one" }),
                            format!("{e}; editor text without CR: {:?}", truncate_str(&want, 200)),
                            replay,
                        );
                        ok = false;
                        break;
                    }
                    rep.count("bb_notifications_checked", 1);
                    if nch > 1 {
                        rep.count("bb_multi_change_notifications_checked", 1);
                    }
                }
                None => {
                    rep.violate("bb-valid-history-document-forgotten", format!("after valid edits the server answers {:?}", resp.get("error")), replay);
                    ok = false;
                    break;
                }
            }
        }
        // The last word of one history in four is a full replacement whose text has carriage returns that are not
        // part of a CRLF (a bare CR, CR CR LF): "the editor's text with carriage returns removed" holds for those
        // too. Nothing is edited afterwards (what a bare CR means for later positions is outside this property).
        if ok && r.chance(1, 4) {
            let fin = *r.pick(&["a\rb", "x\r\r\ny", "\rfn f() { 1 }\r", "ß\r💣\r\nz\r"]);
            log.push(json!({"didChange": [{"text": fin}]}));
            version += 1;
            s.notify("textDocument/didChange", json!({"textDocument":{"uri":uri,"version":version},"contentChanges":[{"text":fin}]}));
            let id = s.request("glas/syntaxTree", json!({"textDocument":{"uri":uri}}));
            rep.evaluations += 1;
            if let Some(resp) = s.wait_response(id, Duration::from_secs(20)) {
                s.forget();
                let want = fin.replace('\r', "");
                if let Some(dump) = resp.get("result").and_then(|r| r.as_str()) {
                    rep.count("bb_final_replacements_with_a_bare_cr_checked", 1);
                    if let Err(e) = synmon::dump_matches_text(dump, &want) {
                        rep.violate("bb-doc-desync:full-replacement-with-a-bare-carriage-return", format!("{e}; editor text without CR: {want:?}"), json!({"kind":"c13-history","history":log}));
                    }
                }
            }
        }
        if ok && client.text.chars().any(|c| c.len_utf8() > 1 || c == '\r') {
            rep.nontrivial(fnv(format!("{log:?}").as_bytes()));
        }
        if rep.samples.len() < 3 && n % 17 == 0 {
            rep.sample(json!({"history": log.iter().take(3).collect::<Vec<_>>()}));
        }
        n += 1;
    }
    s.shutdown();
    rep.count("bb_histories", n);
    let _ = std::fs::remove_dir_all(&env.root);
    rep
}

// ----------------------------------------------------------------------------------
// C16: edits racing with requests

fn norm_json(v: &Value) -> String {
    // order-insensitive normal form for arrays of locations / highlights / completion items /
    // edits: arrays of objects are sorted by their serialisation
    fn norm(v: &Value) -> Value {
        match v {
            Value::Array(a) => {
                let mut xs: Vec<Value> = a.iter().map(norm).collect();
                if xs.iter().all(|x| x.is_object()) {
                    xs.sort_by_key(|x| x.to_string());
                }
                Value::Array(xs)
            }
            Value::Object(o) => {
                let mut m = serde_json::Map::new();
                let mut keys: Vec<&String> = o.keys().collect();
                keys.sort();
                for k in keys {
                    // sortText / preselect depend only on relevance, keep; nothing volatile
                    m.insert(k.clone(), norm(&o[k]));
                }
                Value::Object(m)
            }
            x => x.clone(),
        }
    }
    norm(v).to_string()
}

#[derive(Clone, Debug)]
struct ReqT {
    method: &'static str,
    params: Value,
    doc: usize,
}

fn gen_race_request(r: &mut Rng, uri: &str, doc: &Doc, di: usize) -> ReqT {
    let ps = doc.all_positions();
    let p = ps[r.below(ps.len())];
    let td = json!({"uri": uri});
    let pos = json!({"line": p.line, "character": p.col});
    // every request kind the server routes to a snapshot task
    let (method, params): (&'static str, Value) = match r.below(14) {
        10 | 11 => {
            // signature help has a non-null answer only inside a call's argument list:
            // aim at the character after a `(` or `,` half of the time
            let mut q = p;
            if r.chance(1, 2) {
                let cands: Vec<Pos> = ps.iter().copied().filter(|c| {
                    let off = doc.offset_of(*c).unwrap_or(0);
                    off > 0 && matches!(doc.text.as_bytes()[off - 1], b'(' | b',')
                }).collect();
                if !cands.is_empty() {
                    q = cands[r.below(cands.len())];
                }
            }
            ("textDocument/signatureHelp", json!({"textDocument":td,"position":{"line": q.line, "character": q.col}}))
        }
        12 => ("glas/syntaxTree", json!({"textDocument":td})),
        13 => {
            let a = ps[r.below(ps.len())];
            let (s0, e0) = if (a.line, a.col) <= (p.line, p.col) { (a, p) } else { (p, a) };
            ("textDocument/semanticTokens/range", json!({"textDocument":td,"range":{"start":{"line":s0.line,"character":s0.col},"end":{"line":e0.line,"character":e0.col}}}))
        }
        0 => ("textDocument/hover", json!({"textDocument":td,"position":pos})),
        1 | 2 => ("textDocument/definition", json!({"textDocument":td,"position":pos})),
        3 | 4 => ("textDocument/references", json!({"textDocument":td,"position":pos,"context":{"includeDeclaration":true}})),
        5 => ("textDocument/documentHighlight", json!({"textDocument":td,"position":pos})),
        6 => ("textDocument/completion", json!({"textDocument":td,"position":pos})),
        7 => ("textDocument/rename", json!({"textDocument":td,"position":pos,"newName":"renamed_zz"})),
        8 => ("textDocument/semanticTokens/full", json!({"textDocument":td})),
        _ => ("textDocument/prepareRename", json!({"textDocument":td,"position":pos})),
    };
    ReqT { method, params, doc: di }
}

fn big_module(r: &mut Rng) -> String {
    let cfg = vh::gen::GenCfg { modules: 1, max_items: r.range(8, 24), max_depth: r.range(2, 3), holes: false, non_core: true, trivia: vh::prog::Trivia::Plain, non_ascii: true };
    let g = vh::gen::generate(r, &cfg);
    g.printed[0].text.clone()
}

fn line_edit(r: &mut Rng, doc: &Doc) -> (Value, Doc) {
    // edits that change the line structure (so that a stale line map is visible): insert or
    // delete whole lines, or insert text with newlines / astral characters
    let lines = doc.lines();
    let li = r.below(lines.len());
    let mut d = doc.clone();
    let (range, text): (((u32, u32), (u32, u32)), String) = match r.below(4) {
        0 => (((li as u32, 0), (li as u32, 0)), "// inserted 💣 line\n\n".to_string()),
        1 if lines.len() > 2 && li + 1 < lines.len() => (((li as u32, 0), (li as u32 + 1, 0)), String::new()),
        2 => (((li as u32, 0), (li as u32, 0)), format!("fn race_{}(x) {{ x }}\n", r.below(1000))),
        _ => {
            let (a, b) = lines[li];
            let len = vh::lspmodel::utf16_len(&doc.text[a..b]);
            (((li as u32, len), (li as u32, len)), " // 💣💣 tail".to_string())
        }
    };
    d.apply(Some((Pos { line: range.0 .0, col: range.0 .1 }, Pos { line: range.1 .0, col: range.1 .1 })), &text).expect("valid line edit");
    (json!({"range":{"start":{"line":range.0 .0,"character":range.0 .1},"end":{"line":range.1 .0,"character":range.1 .1}},"text":text}), d)
}

fn expected_diagnostics(text: &str) -> Vec<String> {
    let doc = Doc::new(text.to_string());
    let parse = syntax::parse_module(text);
    let mut out: Vec<String> = parse
        .errors()
        .iter()
        .take(128)
        .map(|e| {
            let s = doc.position_of(usize::from(e.range.start()));
            let t = doc.position_of(usize::from(e.range.end()));
            format!("{}:{}-{}:{} {}", s.line, s.col, t.line, t.col, e.kind)
        })
        .collect();
    out.sort();
    out
}

fn diag_nf(params: &Value) -> Vec<String> {
    let mut out: Vec<String> = params["diagnostics"]
        .as_array()
        .cloned()
        .unwrap_or_default()
        .iter()
        .map(|d| {
            format!(
                "{}:{}-{}:{} {}",
                d["range"]["start"]["line"], d["range"]["start"]["character"], d["range"]["end"]["line"], d["range"]["end"]["character"],
                d["message"].as_str().unwrap_or("")
            )
        })
        .collect();
    out.sort();
    out
}

/// "The main loop keeps accepting messages" under a pile-up: one edit that invalidates a large
/// document and, in the same write, more requests than any fixed small bound on in-flight
/// requests (70-260). All of them wait on one recomputation, so they ARE in flight together.
/// Judged: every request answered exactly once, a later probe answered, final text equal.
fn run_burst(rep: &mut Report, env: &Env, bin: &Path, cr: &mut Rng, case_seed: u64) {
    let nfun = cr.range(1500, 3000);
    let mut text = String::from("pub fn f0(x) { x }\n");
    for i in 1..nfun {
        text.push_str(&format!("pub fn f{i}(x) {{ f{}(x) + {i} }}\n", i - 1));
    }
    let nreq = cr.range(70, 260);
    let replay = json!({"kind":"burst","case_seed":case_seed.to_string(),"functions":nfun,"requests":nreq});
    rep.count("bursts", 1);
    let root_uri = file_uri(&env.proj.display().to_string());
    let uri = file_uri(&env.proj.join("src/a.gleam").display().to_string());
    let mut s = match Server::spawn(bin, &[], None) { Ok(s) => s, Err(_) => { rep.inconclusive += 1; return; } };
    if s.initialize(Some(&root_uri), Duration::from_secs(20)).is_none() { rep.inconclusive += 1; return; }
    s.notify("textDocument/didOpen", json!({"textDocument":{"uri":uri,"languageId":"gleam","version":1,"text":text}}));
    // warm: the first analysis is done when its diagnostics arrive
    s.pump_until(Duration::from_secs(60), |s| s.notifications.iter().any(|(m, _)| m == "textDocument/publishDiagnostics"));
    let mut bytes: Vec<u8> = Vec::new();
    bytes.extend(vh::lspclient::frame(&json!({"jsonrpc":"2.0","method":"textDocument/didChange","params":{"textDocument":{"uri":uri,"version":2},"contentChanges":[{"range":{"start":{"line":0,"character":0},"end":{"line":0,"character":0}},"text":"// burst\n"}]}})));
    let mut ids = Vec::new();
    for q in 0..nreq {
        let line = 1 + cr.below(nfun);
        let pos = json!({"line": line, "character": 8});
        let (m, p): (&str, Value) = match q % 10 {
            0 => ("textDocument/semanticTokens/full", json!({"textDocument":{"uri":uri}})),
            1 | 2 => ("textDocument/documentHighlight", json!({"textDocument":{"uri":uri},"position":pos})),
            3 => ("textDocument/definition", json!({"textDocument":{"uri":uri},"position":pos})),
            _ => ("textDocument/hover", json!({"textDocument":{"uri":uri},"position":pos})),
        };
        let (id, msg) = s.make_request(m, p);
        bytes.extend(vh::lspclient::frame(&msg));
        ids.push(id);
    }
    if !s.write_bytes(&bytes) {
        rep.violate("burst:server-died:write-failed", "the server closed its input during the burst".to_string(), replay);
        return;
    }
    let t_b = Instant::now();
    let done = s.pump_until(Duration::from_secs(120), |s| ids.iter().all(|id| s.responses.contains_key(id)));
    if !done {
        if !s.alive() {
            let ex = exit_string(&mut s);
            rep.violate(format!("burst:server-died:{ex}"), "server process gone during the burst".to_string(), replay);
            return;
        }
        let pid = s.child.id();
        let c1 = cpu_ticks(pid);
        std::thread::sleep(Duration::from_secs(2));
        let c2 = cpu_ticks(pid);
        let probe = s.request("glas/syntaxTree", json!({"textDocument":{"uri":"file:///nonexistent/probe.gleam"}}));
        let answered = s.wait_response(probe, Duration::from_secs(8)).is_some();
        let missing = ids.iter().filter(|id| !s.responses.contains_key(id)).count();
        if !answered && c2 <= c1 + 1 {
            let bt = std::process::Command::new("gdb").args(["-p", &pid.to_string(), "-batch", "-ex", "thread apply all bt 12"]).output().map(|o| String::from_utf8_lossy(&o.stdout).to_string()).unwrap_or_default();
            let mut rp = replay.clone();
            rp["gdb"] = json!(truncate_str(&bt, 6000));
            rep.violate("burst:main-loop-stopped", format!("{missing} of {nreq} requests unanswered 120 s after a burst on a {nfun}-function document, the main loop does not answer a probe, CPU flat ({c1}->{c2} ticks)"), rp);
        } else if answered {
            rep.violate("burst:request-never-answered", format!("{missing} of {nreq} requests unanswered 120 s after the burst although the main loop answers probes"), replay);
        } else {
            rep.inconclusive += 1;
            rep.notes.push("burst: unanswered requests but CPU busy: inconclusive".into());
        }
        return;
    }
    rep.see("burst_answer_time", match t_b.elapsed().as_secs() { 0..=1 => "<2s", 2..=9 => "2-10s", 10..=29 => "10-30s", _ => ">=30s" });
    rep.count("burst_requests_answered", nreq as u64);
    s.drain(Duration::from_millis(200));
    for id in &ids {
        let n = s.responses.get(id).map(|v| v.len()).unwrap_or(0);
        if n != 1 {
            rep.violate(format!("burst:response-count-{n}"), format!("request {id} answered {n} times"), replay.clone());
        }
    }
    let cancelled = ids.iter().filter(|id| s.responses[id][0]["error"]["code"].as_i64() == Some(-32800)).count();
    rep.count("burst_requests_cancelled", cancelled as u64);
    let probe = s.request("glas/syntaxTree", json!({"textDocument":{"uri":uri}}));
    match s.wait_response(probe, Duration::from_secs(60)).as_ref().and_then(|t| t.get("result")).and_then(|r| r.as_str()) {
        Some(dump) => {
            if let Err(e) = synmon::dump_matches_text(dump, &format!("// burst\n{text}")) {
                rep.violate("burst:final-text-differs", e, replay);
            }
        }
        None => rep.violate("burst:final-probe-unanswered-or-error", "syntax tree of the document after the burst".to_string(), replay),
    }
    s.shutdown();
}

fn run_c16(args: &Args) -> Report {
    let mut rep = Report::new("C16", args.shard);
    let env = setup_env(args, "c16");
    let verif_bin = PathBuf::from(args.get("glas-verif-bin").unwrap_or(args.get("glas-bin").unwrap()));
    let has_hook = args.get("glas-verif-bin").is_some();
    let mut r = Rng::derive(args.seed, args.shard as u64, 16);
    let t0 = Instant::now();
    let mut n = 0u64;
    let root_uri = file_uri(&env.proj.display().to_string());
    let uris = [file_uri(&env.proj.join("src/a.gleam").display().to_string()), file_uri(&env.proj.join("src/b.gleam").display().to_string())];
    let mut cases = 0u64;
    while t0.elapsed().as_secs_f64() < args.budget_s {
        let Some(case_seed) = args.next_case(&mut r) else { break };
        // one case in 25 is a pile-up burst (decided by the seed alone, so that a replay
        // sees the same); the first case of every shard is made one
        cases += 1;
        let case_seed = if cases == 1 && args.only_case().is_none() { case_seed - case_seed % 25 } else { case_seed };
        let mut cr = Rng::new(case_seed);
        if case_seed % 25 == 0 {
            rep.evaluations += 1;
            run_burst(&mut rep, &env, &env.bin, &mut cr, case_seed);
            n += 1;
            continue;
        }
        let ndocs = cr.range(1, 2);
        // One two-document race in three opens the second document LATE: as the very last message, behind the
        // last edit of the first and the requests that follow it, in the same stream. Opening a document changes the
        // workspace too - it cancels whatever is still being computed for the first document - and the
        // first document's last diagnostics must all the same be those of its final text. Its text ends
        // in a line that is a syntax error, so that "no diagnostics" is not the right answer.
        let open_late = ndocs == 2 && cr.chance(1, 3);
        if open_late {
            rep.count("races_with_a_document_opened_late", 1);
        }
        // versions[d][v] = text of doc d at global step v
        let mut cur: Vec<Doc> = (0..ndocs).map(|d| Doc::new(if open_late && d == 0 { format!("{}\nbla = bla\n", big_module(&mut cr)) } else { big_module(&mut cr) })).collect();
        let edited_docs = if open_late { 1 } else { ndocs };
        let k = cr.range(2, 7);
        let mut steps: Vec<(usize, Value)> = Vec::new(); // (doc, change)
        let mut texts: Vec<Vec<Doc>> = vec![cur.clone()];
        // requests per step (issued after the step's change): templates
        let mut reqs: Vec<Vec<ReqT>> = Vec::new();
        {
            let mut v0 = Vec::new();
            for _ in 0..cr.range(1, 6) {
                let di = cr.below(edited_docs);
                v0.push(gen_race_request(&mut cr, &uris[di], &cur[di], di));
            }
            reqs.push(v0);
        }
        for _ in 0..k {
            let di = cr.below(edited_docs);
            // one notification carries 1-3 content changes, each relative to the document as
            // the previous one left it
            let nch = if cr.chance(1, 3) { cr.range(2, 3) } else { 1 };
            let mut chs = Vec::new();
            for _ in 0..nch {
                let (ch, nd) = line_edit(&mut cr, &cur[di]);
                cur[di] = nd;
                chs.push(ch);
            }
            if nch > 1 {
                rep.count("race_notifications_with_several_changes", 1);
            }
            steps.push((di, Value::Array(chs)));
            texts.push(cur.clone());
            let mut rv = Vec::new();
            for _ in 0..cr.range(1, 16) {
                let dj = cr.below(edited_docs);
                rv.push(gen_race_request(&mut cr, &uris[dj], &cur[dj], dj));
            }
            reqs.push(rv);
        }
        let replay = json!({"kind":"race","case_seed":case_seed.to_string(),"second_document_opened_last":open_late,"docs":texts[0].iter().map(|d| d.text.clone()).collect::<Vec<_>>(),"steps":steps.iter().map(|(d,c)| json!([d,c])).collect::<Vec<_>>(),
            "requests":reqs.iter().map(|v| v.iter().map(|q| json!([q.method,q.params])).collect::<Vec<_>>()).collect::<Vec<_>>()});
        rep.evaluations += 1;

        // ---- sequential reference: every request template at every version
        let mut refsrv = match Server::spawn(&env.bin, &[], None) {
            Ok(s) => s,
            Err(_) => { rep.inconclusive += 1; continue; }
        };
        if refsrv.initialize(Some(&root_uri), Duration::from_secs(20)).is_none() { rep.inconclusive += 1; continue; }
        let mut version = 0i64;
        for d in 0..edited_docs {
            version += 1;
            refsrv.notify("textDocument/didOpen", json!({"textDocument":{"uri":uris[d],"languageId":"gleam","version":version,"text":texts[0][d].text}}));
        }
        let all_templates: Vec<&ReqT> = reqs.iter().flatten().collect();
        // ref_ans[template index][version] = Some(normal form of result) | None (error)
        let mut ref_ans: Vec<Vec<Option<String>>> = vec![Vec::new(); all_templates.len()];
        let mut ref_ok = true;
        for v in 0..=k {
            if v > 0 {
                let (di, ch) = &steps[v - 1];
                version += 1;
                // the reference server gets the same changes one notification each: same meaning,
                // different code path than the batched form the raced server receives
                for one in ch.as_array().unwrap() {
                    refsrv.notify("textDocument/didChange", json!({"textDocument":{"uri":uris[*di],"version":version},"contentChanges":[one]}));
                    version += 1;
                }
                version -= 1;
            }
            for (ti, t) in all_templates.iter().enumerate() {
                let id = refsrv.request(t.method, t.params.clone());
                match refsrv.wait_response(id, Duration::from_secs(20)) {
                    Some(resp) => ref_ans[ti].push(resp.get("result").map(norm_json)),
                    None => { ref_ok = false; break; }
                }
            }
            if !ref_ok { break; }
        }
        refsrv.shutdown();
        if !ref_ok {
            rep.inconclusive += 1;
            rep.count("reference_run_failed(C15's business)", 1);
            continue;
        }

        // ---- concurrent run
        let sched = format!("{}:{}:{}", cr.next_u64() % 1_000_000, cr.range(100, 700), cr.range(50, 3000));
        let log_path = env.root.join("sched.log");
        let _ = std::fs::remove_file(&log_path);
        let envs = vec![("GLAS_VERIF_SCHED".to_string(), sched.clone()), ("GLAS_VERIF_SCHED_LOG".to_string(), log_path.display().to_string())];
        let mut s = match Server::spawn(&verif_bin, &envs, None) { Ok(s) => s, Err(_) => { rep.inconclusive += 1; continue; } };
        if s.initialize(Some(&root_uri), Duration::from_secs(20)).is_none() { rep.inconclusive += 1; continue; }
        let mut bytes: Vec<u8> = Vec::new();
        let mut version = 0i64;
        for d in 0..edited_docs {
            version += 1;
            bytes.extend(vh::lspclient::frame(&json!({"jsonrpc":"2.0","method":"textDocument/didOpen","params":{"textDocument":{"uri":uris[d],"languageId":"gleam","version":version,"text":texts[0][d].text}}})));
        }
        // (id, template index, issue version)
        let mut issued: Vec<(i64, usize, usize)> = Vec::new();
        let mut ti = 0usize;
        for v in 0..=k {
            if v > 0 {
                let (di, ch) = &steps[v - 1];
                version += 1;
                bytes.extend(vh::lspclient::frame(&json!({"jsonrpc":"2.0","method":"textDocument/didChange","params":{"textDocument":{"uri":uris[*di],"version":version},"contentChanges":ch}})));
            }
            for t in &reqs[v] {
                let (id, m) = s.make_request(t.method, t.params.clone());
                bytes.extend(vh::lspclient::frame(&m));
                issued.push((id, ti, v));
                ti += 1;
            }
        }
        if open_late {
            version += 1;
            bytes.extend(vh::lspclient::frame(&json!({"jsonrpc":"2.0","method":"textDocument/didOpen","params":{"textDocument":{"uri":uris[1],"languageId":"gleam","version":version,"text":texts[0][1].text}}})));
            // half of these sessions also close the first document and open it again with the text it has:
            // it is an open document at the end, and what the editor shows for it must be the diagnostics of that text
            if cr.chance(1, 2) {
                rep.count("races_ending_with_close_and_reopen", 1);
                bytes.extend(vh::lspclient::frame(&json!({"jsonrpc":"2.0","method":"textDocument/didClose","params":{"textDocument":{"uri":uris[0]}}})));
                version += 1;
                bytes.extend(vh::lspclient::frame(&json!({"jsonrpc":"2.0","method":"textDocument/didOpen","params":{"textDocument":{"uri":uris[0],"languageId":"gleam","version":version,"text":texts[k][0].text}}})));
            }
        }
        // seeded batching: split the byte stream at random points, tiny pauses now and then
        let mut off = 0;
        while off < bytes.len() {
            let chunk = match cr.below(4) { 0 => cr.range(1, 64), 1 => cr.range(64, 2048), _ => cr.range(2048, 65536) };
            let end = (off + chunk).min(bytes.len());
            if !s.write_bytes(&bytes[off..end]) { break; }
            off = end;
            if cr.chance(1, 5) { std::thread::sleep(Duration::from_micros(cr.below(1500) as u64)); }
            s.pump_until(Duration::from_millis(0), |_| true);
        }
        // barrier: all answered
        let ids: Vec<i64> = issued.iter().map(|x| x.0).collect();
        let done = s.pump_until(Duration::from_secs(30), |s| ids.iter().all(|id| s.responses.contains_key(id)));
        if !done {
            if !s.alive() {
                let ex = exit_string(&mut s);
                rep.violate(format!("race:server-died:{ex}"), "server process gone during the burst".to_string(), replay.clone());
                continue;
            }
            let pid = s.child.id();
            let c1 = cpu_ticks(pid);
            std::thread::sleep(Duration::from_secs(2));
            let c2 = cpu_ticks(pid);
            let probe = s.request("glas/syntaxTree", json!({"textDocument":{"uri":"file:///nonexistent/probe.gleam"}}));
            let answered = s.wait_response(probe, Duration::from_secs(8)).is_some();
            let missing = ids.iter().filter(|id| !s.responses.contains_key(id)).count();
            if !answered && c2 <= c1 + 1 {
                // gdb stack dump as witness
                let bt = std::process::Command::new("gdb").args(["-p", &pid.to_string(), "-batch", "-ex", "thread apply all bt 12"]).output().map(|o| String::from_utf8_lossy(&o.stdout).to_string()).unwrap_or_default();
                let mut rp = replay.clone();
                rp["gdb"] = json!(truncate_str(&bt, 6000));
                rep.violate("race:deadlock", format!("{missing} requests unanswered, main loop does not answer a probe, CPU flat ({c1}->{c2} ticks), sched {sched}"), rp);
            } else if answered {
                rep.violate("race:request-never-answered", format!("{missing} requests unanswered 30 s after the burst although the main loop answers probes"), replay.clone());
            } else {
                rep.inconclusive += 1;
                rep.notes.push("unanswered requests but CPU busy: inconclusive".into());
            }
            continue;
        }
        // (b) the main loop still accepts
        let probe = s.request("glas/syntaxTree", json!({"textDocument":{"uri":uris[0]}}));
        let final_tree0 = s.wait_response(probe, Duration::from_secs(20));
        // quiescence: no traffic for 300 ms (bounded)
        let tq = Instant::now();
        let mut last = s.arrival.len();
        let mut quiet_since = Instant::now();
        while tq.elapsed() < Duration::from_secs(10) {
            s.drain(Duration::from_millis(50));
            if s.arrival.len() != last { last = s.arrival.len(); quiet_since = Instant::now(); }
            if quiet_since.elapsed() > Duration::from_millis(300) { break; }
        }
        // (a) exactly once
        for (id, ti, _v) in &issued {
            let n = s.responses.get(id).map(|v| v.len()).unwrap_or(0);
            if n != 1 {
                rep.violate(format!("race:response-count-{n}:{}", all_templates[*ti].method), format!("request {id} answered {n} times"), replay.clone());
            }
        }
        // (c) version consistency
        let mut n_result = 0u64; let mut n_cancelled = 0u64; let mut n_error = 0u64;
        for (id, ti, v) in &issued {
            let Some(resp) = s.responses.get(id).and_then(|x| x.first()) else { continue };
            let t = all_templates[*ti];
            if let Some(e) = resp.get("error") {
                if e["code"].as_i64() == Some(-32800) { n_cancelled += 1; } else { n_error += 1; rep.see("race_error_messages", e["message"].as_str().unwrap_or("").chars().take(50).collect::<String>()); }
                continue;
            }
            n_result += 1;
            let got = norm_json(&resp["result"]);
            let want = &ref_ans[*ti][*v];
            rep.see("race_cells", format!("{}:lag={}", t.method, k - *v));
            if want.as_deref() == Some(got.as_str()) { continue; }
            let other = ref_ans[*ti].iter().position(|a| a.as_deref() == Some(got.as_str()));
            let what = match other { Some(o) if o > *v => "answer-of-a-newer-version", Some(_) => "answer-of-an-older-version", None => "mixture" };
            let mut rp = replay.clone();
            rp["request"] = json!({"method": t.method, "params": t.params, "issued_at_version": v});
            rep.violate(
                format!("race:{what}:{}", t.method),
                format!("{} issued at version {v}: got {} ; sequential answer at that version {}", t.method, truncate_str(&got, 300), truncate_str(want.as_deref().unwrap_or("<error>"), 300)),
                rp,
            );
        }
        rep.count("race_results", n_result); rep.count("race_cancelled", n_cancelled); rep.count("race_errors", n_error);
        // (d) convergence
        for d in 0..ndocs {
            let want_text = texts[k][d].server_view();
            let tree = if d == 0 { final_tree0.clone() } else { let id = s.request("glas/syntaxTree", json!({"textDocument":{"uri":uris[d]}})); s.wait_response(id, Duration::from_secs(20)) };
            match tree.as_ref().and_then(|t| t.get("result")).and_then(|r| r.as_str()) {
                Some(dump) => if let Err(e) = synmon::dump_matches_text(dump, &want_text) {
                    rep.violate("race:final-text-differs", format!("doc {d}: {e}"), replay.clone());
                },
                None => rep.violate("race:final-probe-unanswered-or-error", format!("doc {d}: {:?}", tree.as_ref().map(|t| t.get("error").cloned())), replay.clone()),
            }
            let last_diag = s.notifications.iter().rev().find(|(m, p)| m == "textDocument/publishDiagnostics" && p["uri"].as_str() == Some(uris[d].as_str()));
            match last_diag {
                Some((_, p)) => {
                    let got = diag_nf(p);
                    let want = expected_diagnostics(&want_text);
                    if got != want {
                        // which version's diagnostics are they?
                        let older = (0..k).rev().find(|v| expected_diagnostics(&texts[*v][d].server_view()) == got);
                        rep.violate(
                            format!("race:last-diagnostics-not-of-final-text:{}{}", if older.is_some() { "of-an-older-version" } else if got.is_empty() { "empty" } else { "other" }, if open_late { ":another-document-opened-last" } else { "" }),
                            format!("doc {d}: last published {:?} expected {:?}; all publications for this document in order (matching version or ?): {:?}", got.iter().take(4).collect::<Vec<_>>(), want.iter().take(4).collect::<Vec<_>>(),
                                s.notifications.iter().filter(|(m, p)| m == "textDocument/publishDiagnostics" && p["uri"].as_str() == Some(uris[d].as_str())).map(|(_, p)| { let g = diag_nf(p); (0..=k).filter(|v| expected_diagnostics(&texts[*v][d].server_view()) == g).map(|v| v.to_string()).collect::<Vec<_>>().join("|") }).collect::<Vec<_>>()),
                            replay.clone(),
                        );
                    }
                    rep.count("convergence_diagnostics_checked", 1);
                }
                None => rep.violate("race:no-diagnostics-published", format!("doc {d}"), replay.clone()),
            }
        }
        // coverage: yield points and interleaving signature
        if let Ok(l) = std::fs::read_to_string(&log_path) {
            for line in l.lines() {
                let f: Vec<&str> = line.split_whitespace().collect();
                if f.len() == 3 { rep.count(&format!("yield[{}]", f[0]), f[1].parse().unwrap_or(0)); rep.count(&format!("yield_slept[{}]", f[0]), f[2].parse().unwrap_or(0)); }
            }
        } else if has_hook {
            rep.count("sched_log_missing", 1);
        }
        let sig = fnv(s.arrival.join(",").as_bytes());
        if n_cancelled + n_error > 0 || n_result > 0 { rep.nontrivial(sig); }
        if rep.samples.len() < 3 { rep.sample(json!({"case_seed":case_seed.to_string(),"docs":ndocs,"changes":k,"requests":issued.len(),"results":n_result,"cancelled":n_cancelled,"errors":n_error,"sched":sched})); }
        s.shutdown();
        n += 1;
    }
    rep.count("races", n);
    let _ = std::fs::remove_dir_all(&env.root);
    rep
}

// ----------------------------------------------------------------------------------
// C17: project layout

#[derive(Clone, Debug)]
struct TPkg {
    /// unique within a tree (`name`, or `name@pathdep` for the path dependency's private copy)
    key: String,
    name: String,
    dir: PathBuf,
    local: bool,
    /// names of direct dependencies as written in gleam.toml
    deps: Vec<String>,
    path_deps: Vec<String>,
    /// (module name, "src"|"test")
    modules: Vec<(String, &'static str)>,
}

fn ident_of(module: &str) -> String {
    module.rsplit('/').next().unwrap().to_string()
}

fn module_text(module: &str, imports: &[(String, String)]) -> (String, Vec<(String, u32, u32)>) {
    // returns text and, per import, (module name, line, column of the `_fn` use)
    let b = ident_of(module);
    let mut t = String::new();
    let mut uses = Vec::new();
    for (i, (m, _)) in imports.iter().enumerate() {
        t.push_str(&format!("import {m} as q{i}\n"));
    }
    let up: String = b.chars().next().unwrap().to_uppercase().collect::<String>() + &b[1..];
    t.push_str(&format!("\npub fn {b}_fn() {{ 1 }}\n\npub type {up}T {{ {up}C }}\n\nfn {b}_private() {{ 2 }}\n\npub fn {b}_main() {{\n"));
    let mut line = t.lines().count() as u32;
    for (i, (m, _)) in imports.iter().enumerate() {
        let l = format!("  let _ = q{i}.{}_fn()\n", ident_of(m));
        let col = l.find(&format!("{}_fn", ident_of(m))).unwrap() as u32;
        uses.push((m.clone(), line, col));
        t.push_str(&l);
        line += 1;
    }
    t.push_str("  Nil\n}\n");
    (t, uses)
}

fn run_c17(args: &Args) -> Report {
    let mut rep = Report::new("C17", args.shard);
    let bin = PathBuf::from(args.get("glas-bin").expect("--glas-bin"));
    let base = args.out.join(format!("c17-shard{}", args.shard));
    let mut r = Rng::derive(args.seed, args.shard as u64, 17);
    let t0 = Instant::now();
    let mut n = 0u64;
    // directories below src/ and test/ may themselves be called `test` or `src` (`src/test/helpers.gleam` is module `test/helpers`)
    const MODS: &[&str] = &["alpha", "beta", "shared", "util/helpers", "deep/er/mod", "core", "app/main", "zeta", "test/helpers", "src/inner"];
    while t0.elapsed().as_secs_f64() < args.budget_s {
        let Some(case_seed) = args.next_case(&mut r) else { break };
        let mut cr = Rng::new(case_seed);
        let _ = std::fs::remove_dir_all(&base);
        let root = base.join("ws/root");
        // packages: root, 1-3 registry deps, optional path dep
        let nreg = cr.range(1, 3);
        let has_path = cr.chance(1, 2);
        let reg_names: Vec<String> = ["rega", "regb", "regc"].iter().take(nreg).map(|s| s.to_string()).collect();
        let mut pkgs: Vec<TPkg> = Vec::new();
        // Every registry package is in the dependency closure of the root (build/packages
        // holds nothing else): it is either listed by the root, or only by an earlier
        // registry package (then it is transitive-only for the root). Extra edges among
        // registry packages give diamonds.
        let mut root_deps: Vec<String> = Vec::new();
        let mut reg_deps: Vec<Vec<String>> = vec![Vec::new(); reg_names.len()];
        for (i, rn) in reg_names.iter().enumerate() {
            if i == 0 || cr.chance(1, 2) {
                root_deps.push(rn.clone());
                if i > 0 && cr.chance(1, 2) {
                    reg_deps[cr.below(i)].push(rn.clone()); // also reachable through another one: diamond
                }
            } else {
                reg_deps[cr.below(i)].push(rn.clone());
            }
        }
        pkgs.push(TPkg { key: "app".into(), name: "app".into(), dir: root.clone(), local: true, deps: root_deps, path_deps: if has_path { vec!["pathdep".into()] } else { vec![] }, modules: vec![] });
        for (i, rn) in reg_names.iter().enumerate() {
            let mut deps = reg_deps[i].clone();
            deps.dedup();
            pkgs.push(TPkg { key: rn.clone(), name: rn.clone(), dir: root.join("build/packages").join(rn), local: false, deps, path_deps: vec![], modules: vec![] });
        }
        // The path dependency may have been built on its own: it then has a private
        // build/packages with a package of the SAME NAME as one of the root's registry
        // packages (another copy, other modules).
        // A path dependency has registry dependencies of its own (the usual monorepo: app and
        // lib both use the same library; everything is fetched into the ROOT's build/packages).
        // the path dependency lives beside the root (`../pathdep`) or inside it (`libs/pathdep`:
        // its files are then under two package roots and belong to the innermost one)
        let nested_path = has_path && cr.chance(1, 2);
        let pathdep_dir = if nested_path { root.join("libs/pathdep") } else { base.join("ws/pathdep") };
        if nested_path {
            rep.see("layouts", "path-dependency-nested-inside-the-root-package");
        }
        let private_copy = has_path && cr.chance(1, 3);
        if has_path {
            let mut deps: Vec<String> = reg_names.iter().filter(|_| cr.chance(1, 2)).cloned().collect();
            if private_copy && !deps.contains(&reg_names[0]) {
                deps.push(reg_names[0].clone());
            }
            if !deps.is_empty() {
                rep.see("layouts", "path-dependency-with-registry-dependencies");
            }
            // one path dependency in three has a path dependency of its own, a sibling directory (`../pathdep2` as seen
            // from the path dependency - which, when that one sits in the root's libs/, is NOT `../pathdep2` as seen from the root)
            let second_level = cr.chance(1, 3);
            pkgs.push(TPkg { key: "pathdep".into(), name: "pathdep".into(), dir: pathdep_dir.clone(), local: true, deps, path_deps: if second_level { vec!["pathdep2".into()] } else { vec![] }, modules: vec![] });
            if second_level {
                rep.see("layouts", if nested_path { "path-dependency-of-a-path-dependency:inside-the-root" } else { "path-dependency-of-a-path-dependency:beside-the-root" });
                // ... which, one time in three, depends back on the first (a cycle of path dependencies is a mistake in
                // the project, not a reason for the server to stop)
                let cyclic = cr.chance(1, 3);
                if cyclic {
                    rep.see("layouts", "path-dependencies-in-a-cycle");
                }
                pkgs.push(TPkg { key: "pathdep2".into(), name: "pathdep2".into(), dir: pathdep_dir.parent().unwrap().join("pathdep2"), local: true, deps: vec![], path_deps: if cyclic { vec!["pathdep".into()] } else { vec![] }, modules: vec![] });
            }
            if private_copy {
                rep.see("layouts", "path-dependency-with-private-copy-of-a-registry-package");
                pkgs.push(TPkg { key: format!("{}@pathdep", reg_names[0]), name: reg_names[0].clone(), dir: pathdep_dir.join("build/packages").join(&reg_names[0]), local: false, deps: vec![], path_deps: vec![], modules: vec![] });
            }
        }
        // modules: 1-3 per package from a small pool (equal names across packages happen), root gets a test/ module too
        for (pi, p) in pkgs.iter_mut().enumerate() {
            let k = cr.range(1, 3);
            let mut pool: Vec<&str> = MODS.to_vec();
            cr.shuffle(&mut pool);
            for m in pool.into_iter().take(k) {
                p.modules.push((m.to_string(), "src"));
            }
            if pi == 0 {
                p.modules.push(("app_test".into(), "test"));
            }
            p.modules.push((format!("{}_entry", p.key.replace('@', "_at_")), "src"));
        }
        // the model: which packages does P see
        // keys of the packages P sees: itself and its direct dependencies. A dependency is
        // named, not located: for the path dependency (which may be analysed as a dependency
        // of the root or as a root of its own) either copy of a twice-present package is
        // accepted; packages under the root only ever see the root's copies.
        let keys_by_name: Vec<(String, String)> = pkgs.iter().map(|q| (q.name.clone(), q.key.clone())).collect();
        // `private`: resolve twice-present packages to the path dependency's private copy
        // where there is one (only meaningful for importers under the path dependency).
        let sees_with = |p: &TPkg, private: bool| -> Vec<String> {
            let mut v = vec![p.key.clone()];
            for d in p.deps.iter().chain(p.path_deps.iter()) {
                let copies: Vec<&String> = keys_by_name.iter().filter(|(n, _)| n == d).map(|(_, k)| k).collect();
                let has_private = copies.iter().any(|k| k.ends_with("@pathdep"));
                for k in copies {
                    let is_private = k.ends_with("@pathdep");
                    if (private && has_private && is_private) || (!(private && has_private) && !is_private) {
                        v.push(k.clone());
                    }
                }
            }
            v
        };
        let all_modules: Vec<(String, String)> = pkgs.iter().flat_map(|p| p.modules.iter().map(move |(m, _)| (m.clone(), p.key.clone()))).collect();
        // write the tree; the entry module of each package imports a sample of module names
        let mut file_of: BTreeMap<(String, String), PathBuf> = BTreeMap::new(); // (pkg, module) -> path
        let mut uses_of: BTreeMap<String, (PathBuf, String, Vec<(String, u32, u32)>)> = BTreeMap::new(); // pkg -> entry file, text, uses
        let mut test_uses: Option<(PathBuf, String, Vec<(String, u32, u32)>)> = None; // the root's test/ module
        // One tree in four has a dependency that is FETCHED LATE: the root's manifest may list
        // it from the start, but build/packages/latedep appears on disk only after the server
        // has answered its first queries (`gleam add` / `gleam deps download` next to a running
        // editor).
        let late = cr.chance(1, 4);
        let late_listed = late && cr.chance(1, 2);
        let devdep = cr.chance(1, 3);
        const DEVONLY_TEXT: &str = "pub fn run() { helper() }\n\nfn helper() { 1 }\n";
        for p in &pkgs {
            std::fs::create_dir_all(p.dir.join("src")).unwrap();
            let mut toml = format!("name = \"{}\"\nversion = \"1.0.0\"\n\n[dependencies]\n", p.name);
            for d in &p.deps {
                toml.push_str(&format!("{d} = \"~> 1.0\"\n"));
            }
            if late_listed && p.key == "app" {
                toml.push_str("latedep = \"~> 1.0\"\n");
            }
            for d in &p.path_deps {
                // relative to the package that declares it
                toml.push_str(&format!("{d} = {{ path = \"{}{d}\" }}\n", if p.key == "app" && nested_path { "libs/" } else { "../" }));
            }
            if devdep && p.key == "app" {
                // a package that is ONLY a dev-dependency (the test runner of practically every project): fetched
                // into build/packages like the others, external like the others
                toml.push_str("nameless = \"~> 1.0\"\n\n[dev-dependencies]\ndevonly = \"~> 1.0\"\n");
                let ddir = p.dir.join("build/packages/devonly");
                std::fs::create_dir_all(ddir.join("src")).unwrap();
                std::fs::write(ddir.join("gleam.toml"), "name = \"devonly\"\nversion = \"1.0.0\"\n\n[dependencies]\n").unwrap();
                std::fs::write(ddir.join("src/devonly.gleam"), DEVONLY_TEXT).unwrap();
                // ... and a STALE package: still in build/packages, listed by nobody any more
                let sdir = p.dir.join("build/packages/stale");
                std::fs::create_dir_all(sdir.join("src")).unwrap();
                std::fs::write(sdir.join("gleam.toml"), "name = \"stale\"\nversion = \"1.0.0\"\n\n[dependencies]\n").unwrap();
                std::fs::write(sdir.join("src/stale.gleam"), DEVONLY_TEXT).unwrap();
                // ... and a package whose manifest has lost its name (listed by the root all the same)
                let ndir = p.dir.join("build/packages/nameless");
                std::fs::create_dir_all(ndir.join("src")).unwrap();
                std::fs::write(ndir.join("gleam.toml"), "version = \"1.0.0\"\n\n[dependencies]\n").unwrap();
                std::fs::write(ndir.join("src/nameless.gleam"), DEVONLY_TEXT).unwrap();
            }
            std::fs::write(p.dir.join("gleam.toml"), toml).unwrap();
            for (m, dirname) in &p.modules {
                let path = p.dir.join(dirname).join(format!("{m}.gleam"));
                std::fs::create_dir_all(path.parent().unwrap()).unwrap();
                let is_entry = *m == format!("{}_entry", p.key.replace('@', "_at_"));
                // the root's test/ module imports too: `<pkg>/test/a.gleam` is a module of its
                // package like any other, also when it is the first document opened
                let is_test_module = *dirname == "test";
                let imports: Vec<(String, String)> = if is_entry || is_test_module {
                    let mut cands = all_modules.clone();
                    cr.shuffle(&mut cands);
                    let mut seen = BTreeSet::new();
                    cands.into_iter().filter(|(mm, _)| mm != m && seen.insert(mm.clone())).take(5).collect()
                } else {
                    vec![]
                };
                let (text, uses) = module_text(m, &imports);
                std::fs::write(&path, &text).unwrap();
                file_of.insert((p.key.clone(), m.clone()), path.clone());
                if is_entry {
                    uses_of.insert(p.key.clone(), (path, text, uses));
                } else if is_test_module {
                    test_uses = Some((path, text, uses));
                }
            }
        }
        // One tree in three keeps a fixture project below the root's test/ directory - a project of its own
        // (own gleam.toml), not a dependency of anything. Its files belong to IT (the innermost root containing
        // them), whenever they are opened: `import fixmod` inside it means its own src/fixmod.gleam.
        let fixture = if cr.chance(1, 3) { Some(root.join("test/fixtures/inner")) } else { None };
        if let Some(fx) = &fixture {
            std::fs::create_dir_all(fx.join("src")).unwrap();
            std::fs::write(fx.join("gleam.toml"), "name = \"inner\"\nversion = \"1.0.0\"\n").unwrap();
            std::fs::write(fx.join("src/fixmod.gleam"), "pub fn fixfn() { 1 }\n").unwrap();
            std::fs::write(fx.join("src/fixuser.gleam"), "import fixmod\n\npub fn g() { fixmod.fixfn() }\n").unwrap();
            rep.see("layouts", "fixture-project-below-the-roots-test-directory");
        }
        std::fs::create_dir_all(base.join("ws/loose")).unwrap();
        let free = base.join("ws/loose/free.gleam");
        std::fs::write(&free, "pub fn free_fn() { 1 }\n\npub fn caller() { free_fn() }\n").unwrap();

        let replay = json!({"kind":"project-tree","case_seed":case_seed.to_string(),"fixture_project_below_test":fixture.is_some(),"dev_dependency":devdep,"packages":pkgs.iter().map(|p| json!({"key":p.key,"name":p.name,"dir":p.dir.display().to_string(),"local":p.local,"deps":p.deps,"path_deps":p.path_deps,"modules":p.modules.iter().map(|(m,d)| format!("{d}/{m}")).collect::<Vec<_>>()})).collect::<Vec<_>>()});
        rep.evaluations += 1;
        let mut s = match Server::spawn(&bin, &[], None) { Ok(s) => s, Err(_) => { rep.inconclusive += 1; continue; } };
        if s.initialize(Some(&file_uri(&root.display().to_string())), Duration::from_secs(20)).is_none() { rep.inconclusive += 1; continue; }
        // opening order
        let order = cr.below(4);
        let order_name = ["root-first", "dependency-first", "free-standing-first", "test-module-first"][order];
        rep.see("opening_orders", order_name);
        let mut to_open: Vec<(PathBuf, String)> = Vec::new();
        for p in &pkgs {
            // The private copy is only ever a possible target: whether anything in the session
            // depends on it hinges on which project was discovered first, so documents inside
            // it are neither opened nor judged as importers.
            if p.key.ends_with("@pathdep") {
                continue;
            }
            if let Some((path, text, _)) = uses_of.get(&p.key) {
                to_open.push((path.clone(), text.clone()));
            }
        }
        let free_item = (free.clone(), std::fs::read_to_string(&free).unwrap());
        if order == 1 {
            to_open.reverse();
        }
        if let Some((tp, tt, _)) = &test_uses {
            // the test module is a document of the session too: first of all in one order, last otherwise
            if order == 3 {
                to_open.insert(0, (tp.clone(), tt.clone()));
            } else {
                to_open.push((tp.clone(), tt.clone()));
            }
        }
        // Opening the free-standing file re-assembles the package graph; in half of the trees
        // it is therefore opened only AFTER the import queries, so that what they see is the
        // graph as the project documents alone left it.
        let free_early = order == 2 || cr.chance(1, 2);
        rep.see("layouts", if free_early { "free-standing-file-opened-before-the-queries" } else { "free-standing-file-opened-after-the-queries" });
        match order {
            3 | 0 => {
                if free_early {
                    to_open.push(free_item.clone());
                }
            }
            1 => {
                if free_early {
                    to_open.push(free_item.clone());
                }
            }
            _ => { to_open.insert(0, free_item.clone()); }
        }
        let mut version = 0;
        for (path, text) in &to_open {
            version += 1;
            s.notify("textDocument/didOpen", json!({"textDocument":{"uri":file_uri(&path.display().to_string()),"languageId":"gleam","version":version,"text":text}}));
        }
        // queries
        let mut died = false;
        let mut importers: Vec<(&TPkg, &PathBuf, &Vec<(String, u32, u32)>)> = Vec::new();
        for p in &pkgs {
            if p.key.ends_with("@pathdep") {
                continue;
            }
            if let Some((path, _text, uses)) = uses_of.get(&p.key) {
                importers.push((p, path, uses));
            }
        }
        if let Some((tp, _tt, tu)) = &test_uses {
            importers.push((&pkgs[0], tp, tu));
        }
        for (p, path, uses) in importers {
            let under_pathdep = p.key == "pathdep" || p.key.ends_with("@pathdep");
            let visible = sees_with(p, false);
            let visible_private = if under_pathdep { Some(sees_with(p, true)) } else { None };
            for (m, line, col) in uses {
                let uri = file_uri(&path.display().to_string());
                let id = s.request("textDocument/definition", json!({"textDocument":{"uri":uri},"position":{"line":line,"character":col + 1}}));
                let Some(resp) = s.wait_response(id, Duration::from_secs(20)) else { died = true; break; };
                let cands: Vec<String> = pkgs.iter().filter(|q| visible.contains(&q.key)).filter_map(|q| file_of.get(&(q.key.clone(), m.clone()))).map(|f| vh::lspclient::normalise_uri(&file_uri(&f.display().to_string()))).collect();
                let got: Vec<String> = match resp.get("result") {
                    Some(Value::Array(a)) => a.iter().filter_map(|l| l["uri"].as_str()).map(vh::lspclient::normalise_uri).collect(),
                    Some(Value::Object(o)) => o.get("uri").and_then(|u| u.as_str()).map(|u| vec![vh::lspclient::normalise_uri(u)]).unwrap_or_default(),
                    _ => vec![],
                };
                // the alternative reading for importers under the path dependency
                let cands_private: Option<Vec<String>> = visible_private.as_ref().map(|vis| pkgs.iter().filter(|q| vis.contains(&q.key)).filter_map(|q| file_of.get(&(q.key.clone(), m.clone()))).map(|f| vh::lspclient::normalise_uri(&file_uri(&f.display().to_string()))).collect());
                let exists_somewhere = all_modules.iter().any(|(mm, _)| mm == m);
                let class = if !cands.is_empty() { if cands.len() > 1 { "ambiguous-direct" } else { "direct" } } else if exists_somewhere { "transitive-or-unrelated-only" } else { "nonexistent" };
                rep.see("import_cells", format!("{}:{}:{}", if p.local { if p.name == "app" { "from-root" } else { "from-path-dep" } } else { "from-registry-dep" }, class, order_name));
                rep.count("definition_queries", 1);
                let mut rp = replay.clone();
                rp["query"] = json!({"from_package": p.name, "module": m, "line": line, "col": col, "opening_order": order_name});
                let accepted_by_private_reading = cands_private.as_ref().map(|c| if c.is_empty() { got.is_empty() } else { !got.is_empty() && got.iter().all(|g| c.contains(g)) }).unwrap_or(false);
                if accepted_by_private_reading && cands_private.as_ref() != Some(&cands) {
                    rep.count("answers_consistent_with_the_private_copy_reading", 1);
                } else if cands.is_empty() {
                    if !got.is_empty() {
                        rep.violate(
                            format!("resolves-to-package-not-depended-on:{}:{}", if p.local { "local-importer" } else { "registry-importer" }, class),
                            format!("package `{}` imports `{m}`, which exists only in a package it does not directly depend on, yet definition answers {got:?} ({order_name})", p.name),
                            rp,
                        );
                    }
                } else if got.is_empty() {
                    rep.violate(
                        format!("import-does-not-resolve:{}:{}:{}", if p.local { if p.name == "app" { "from-root" } else { "from-path-dep" } } else { "from-registry-dep" }, class, order_name),
                        format!("package `{}` imports `{m}` available in {cands:?} but definition answers nothing ({order_name})", p.name),
                        rp,
                    );
                } else if !got.iter().all(|g| cands.contains(g)) {
                    rep.violate(
                        format!("import-resolves-elsewhere:{order_name}"),
                        format!("package `{}` imports `{m}`: definition answers {got:?}, candidates {cands:?}", p.name),
                        rp,
                    );
                } else {
                    // prepareRename: editable iff the target's package is local
                    let target_pkg = pkgs.iter().find(|q| file_of.get(&(q.key.clone(), m.clone())).map(|f| vh::lspclient::normalise_uri(&file_uri(&f.display().to_string()))) == Some(got[0].clone()));
                    if let Some(tp) = target_pkg {
                        let id = s.request("textDocument/prepareRename", json!({"textDocument":{"uri":uri},"position":{"line":line,"character":col + 1}}));
                        if let Some(pr) = s.wait_response(id, Duration::from_secs(20)) {
                            let ok = pr.get("result").map(|r| !r.is_null()).unwrap_or(false);
                            rep.count("prepare_rename_queries", 1);
                            if ok != tp.local {
                                rep.violate(
                                    format!("external-package-editability:{}:{order_name}", if tp.local { "local-refused" } else { "build-packages-accepted" }),
                                    format!("symbol of `{m}` in package `{}` (local={}) : prepareRename {}", tp.name, tp.local, if ok { "accepts" } else { "refuses" }),
                                    rp,
                                );
                            }
                        }
                    }
                }
            }
            if died { break; }
        }
        if died || !s.alive() {
            rep.count("server_died(C15's business)", 1);
            continue;
        }
        // Manifest edit: a registry dependency is removed from the root's gleam.toml on disk
        // and the server is told through workspace/didChangeWatchedFiles. The package is
        // still under build/packages (external, never editable); the root no longer depends
        // on it, so modules only it has must stop resolving from the root.
        let root_listed: Vec<String> = pkgs[0].deps.clone();
        if late {
            let p0 = &pkgs[0];
            let ldir = p0.dir.join("build/packages/latedep");
            std::fs::create_dir_all(ldir.join("src")).unwrap();
            std::fs::write(ldir.join("gleam.toml"), "name = \"latedep\"\nversion = \"1.0.0\"\n\n[dependencies]\n").unwrap();
            let ltext = "pub fn late_fn(x) { x }\n\npub fn late_caller() { late_fn(1) }\n";
            let lfile = ldir.join("src/latedep_entry.gleam");
            std::fs::write(&lfile, ltext).unwrap();
            let mut events = vec![json!({"uri": file_uri(&ldir.join("gleam.toml").display().to_string()), "type": 1}), json!({"uri": file_uri(&lfile.display().to_string()), "type": 1})];
            if !late_listed {
                // added to the manifest only now
                let mut toml = format!("name = \"{}\"\nversion = \"1.0.0\"\n\n[dependencies]\n", p0.name);
                for d in &p0.deps {
                    toml.push_str(&format!("{d} = \"~> 1.0\"\n"));
                }
                toml.push_str("latedep = \"~> 1.0\"\n");
                for d in &p0.path_deps {
                    toml.push_str(&format!("{d} = {{ path = \"{}{d}\" }}\n", if nested_path { "libs/" } else { "../" }));
                }
                std::fs::write(p0.dir.join("gleam.toml"), toml).unwrap();
                events.push(json!({"uri": file_uri(&p0.dir.join("gleam.toml").display().to_string()), "type": 2}));
            }
            let told = cr.chance(1, 2);
            if told {
                s.notify("workspace/didChangeWatchedFiles", json!({"changes": events}));
            }
            let layout = format!("dependency-fetched-late:{}:{}", if late_listed { "listed-from-the-start" } else { "added-to-the-manifest-late" }, if told { "watched-files-event" } else { "no-event" });
            rep.see("layouts", layout.clone());
            let lu = file_uri(&lfile.display().to_string());
            let mut rp0 = replay.clone();
            rp0["late_dependency"] = json!({"layout": layout, "opening_order": order_name});
            // It is a dependency the root now lists: a module of the root written after it arrived imports it - asked BEFORE any
            // document of the dependency is opened (an open document would put its module into the store by itself)
            let ufile = p0.dir.join("src/late_user.gleam");
            let utext = "import latedep_entry\n\npub fn late_user() { latedep_entry.late_fn(1) }\n";
            std::fs::write(&ufile, utext).unwrap();
            let uu = file_uri(&ufile.display().to_string());
            version += 1;
            s.notify("textDocument/didOpen", json!({"textDocument":{"uri":uu,"languageId":"gleam","version":version,"text":utext}}));
            let id = s.request("textDocument/definition", json!({"textDocument":{"uri":uu},"position":{"line":2,"character":38}}));
            if let Some(resp) = s.wait_response(id, Duration::from_secs(20)) {
                let got: Vec<String> = match resp.get("result") {
                    Some(Value::Array(a)) => a.iter().filter_map(|l| l["uri"].as_str()).map(vh::lspclient::normalise_uri).collect(),
                    Some(Value::Object(o)) => o.get("uri").and_then(|u| u.as_str()).map(|u| vec![vh::lspclient::normalise_uri(u)]).unwrap_or_default(),
                    _ => vec![],
                };
                let want = vh::lspclient::normalise_uri(&lu);
                rep.count("definition_queries_into_a_late_dependency", 1);
                if got != vec![want.clone()] {
                    rep.violate(format!("late-dependency:import-does-not-resolve:{}", if late_listed { "listed" } else { "added-late" }), format!("{layout}: `latedep_entry.late_fn` in a module of the root answers {got:?}, expected {want}"), rp0.clone());
                }
            }
            version += 1;
            s.notify("textDocument/didOpen", json!({"textDocument":{"uri":lu,"languageId":"gleam","version":version,"text":ltext}}));
            let mut rp = replay.clone();
            rp["late_dependency"] = json!({"layout": layout, "opening_order": order_name});
            // wherever a package under build/packages comes from and whenever it arrived: it is
            // a dependency, its symbols are not editable
            let id = s.request("textDocument/prepareRename", json!({"textDocument":{"uri":lu},"position":{"line":0,"character":8}}));
            let Some(pr) = s.wait_response(id, Duration::from_secs(20)) else { rep.count("server_died(C15's business)", 1); continue; };
            let ok = pr.get("result").map(|r| !r.is_null()).unwrap_or(false);
            rep.count("prepare_rename_queries_in_a_late_dependency", 1);
            if ok {
                rep.violate(format!("external-package-editability:late-dependency:build-packages-accepted:{}", if late_listed { "listed" } else { "added-late" }), format!("{layout}: prepareRename on `late_fn` of build/packages/latedep accepts"), rp.clone());
            }
            let id = s.request("textDocument/rename", json!({"textDocument":{"uri":lu},"position":{"line":0,"character":8},"newName":"renamed_late"}));
            let Some(rr) = s.wait_response(id, Duration::from_secs(20)) else { rep.count("server_died(C15's business)", 1); continue; };
            let edits_dependency = rr.get("result").map(|r| r.to_string().contains("build/packages/latedep")).unwrap_or(false);
            if edits_dependency {
                rep.violate(format!("rename-edits-dependency:late-dependency:{}", if late_listed { "listed" } else { "added-late" }), format!("{layout}: rename of `late_fn` returns edits in build/packages/latedep"), rp.clone());
            }
        } else if !root_listed.is_empty() && cr.chance(1, 2) {
            let dropped = root_listed[cr.below(root_listed.len())].clone();
            let p0 = &pkgs[0];
            let mut toml = format!("name = \"{}\"\nversion = \"1.0.0\"\n\n[dependencies]\n", p0.name);
            for d in p0.deps.iter().filter(|d| **d != dropped) {
                toml.push_str(&format!("{d} = \"~> 1.0\"\n"));
            }
            for d in &p0.path_deps {
                toml.push_str(&format!("{d} = {{ path = \"{}{d}\" }}\n", if nested_path { "libs/" } else { "../" }));
            }
            std::fs::write(p0.dir.join("gleam.toml"), toml).unwrap();
            s.notify("workspace/didChangeWatchedFiles", json!({"changes":[{"uri": file_uri(&p0.dir.join("gleam.toml").display().to_string()), "type": 2}]}));
            rep.see("layouts", "dependency-removed-from-the-manifest-while-running");
            let mut rp = replay.clone();
            rp["manifest_edit"] = json!({"dropped": dropped, "opening_order": order_name});
            // (a) editability is about where a package lives, not about who depends on it
            for (key, want_ok) in [(dropped.clone(), false), ("app".to_string(), true)] {
                let Some((path, text, _)) = uses_of.get(&key) else { continue };
                let nimports = text.lines().take_while(|l| l.starts_with("import ")).count() as u32;
                let uri = file_uri(&path.display().to_string());
                let id = s.request("textDocument/prepareRename", json!({"textDocument":{"uri":uri},"position":{"line":nimports + 1,"character":8}}));
                let Some(pr) = s.wait_response(id, Duration::from_secs(20)) else { died = true; break; };
                let ok = pr.get("result").map(|r| !r.is_null()).unwrap_or(false);
                rep.count("prepare_rename_queries_after_manifest_edit", 1);
                if ok != want_ok {
                    rep.violate(
                        format!("external-package-editability:after-manifest-edit:{}", if want_ok { "local-refused" } else { "build-packages-accepted" }),
                        format!("after `{dropped}` was removed from the root's gleam.toml: prepareRename on the own function of package `{key}` {}", if ok { "accepts" } else { "refuses" }),
                        rp.clone(),
                    );
                }
            }
            // (b) the root's imports follow the new manifest
            if !died {
                if let Some((path, _t, uses)) = uses_of.get("app") {
                    let mut vis_after: Vec<String> = vec!["app".to_string()];
                    vis_after.extend(pkgs[0].deps.iter().filter(|d| **d != dropped).cloned());
                    vis_after.extend(pkgs[0].path_deps.iter().cloned());
                    for (m, line, col) in uses {
                        let uri = file_uri(&path.display().to_string());
                        let id = s.request("textDocument/definition", json!({"textDocument":{"uri":uri},"position":{"line":line,"character":col + 1}}));
                        let Some(resp) = s.wait_response(id, Duration::from_secs(20)) else { died = true; break; };
                        let cands: Vec<String> = pkgs.iter().filter(|q| vis_after.contains(&q.key)).filter_map(|q| file_of.get(&(q.key.clone(), m.clone()))).map(|f| vh::lspclient::normalise_uri(&file_uri(&f.display().to_string()))).collect();
                        let got: Vec<String> = match resp.get("result") {
                            Some(Value::Array(a)) => a.iter().filter_map(|l| l["uri"].as_str()).map(vh::lspclient::normalise_uri).collect(),
                            Some(Value::Object(o)) => o.get("uri").and_then(|u| u.as_str()).map(|u| vec![vh::lspclient::normalise_uri(u)]).unwrap_or_default(),
                            _ => vec![],
                        };
                        rep.count("definition_queries_after_manifest_edit", 1);
                        let mut rq = rp.clone();
                        rq["query"] = json!({"from_package":"app","module":m,"line":line,"col":col});
                        if cands.is_empty() && !got.is_empty() {
                            rep.violate("after-manifest-edit:still-resolves-to-removed-dependency", format!("`{dropped}` was removed from the root's dependencies, yet `import {m}` from the root still resolves to {got:?}"), rq);
                        } else if !cands.is_empty() && got.is_empty() {
                            rep.violate("after-manifest-edit:import-does-not-resolve", format!("after removing `{dropped}`, `import {m}` from the root is available in {cands:?} but answers nothing"), rq);
                        } else if !got.iter().all(|g| cands.contains(g)) {
                            rep.violate("after-manifest-edit:import-resolves-elsewhere", format!("after removing `{dropped}`, `import {m}` answers {got:?}, candidates {cands:?}"), rq);
                        }
                    }
                }
            }
            if died || !s.alive() {
                rep.count("server_died(C15's business)", 1);
                continue;
            }
        }
        // the dev-dependency and the stale package: a document inside them is navigable, never editable
        for (pkg_dir, what) in [("devonly", "dev-dependency"), ("stale", "unlisted-package"), ("nameless", "package-without-a-name")] {
            if !devdep {
                break;
            }
            let dfile = pkgs[0].dir.join(format!("build/packages/{pkg_dir}/src/{pkg_dir}.gleam"));
            let du = file_uri(&dfile.display().to_string());
            rep.see("layouts", format!("{what}-under-build-packages"));
            version += 1;
            s.notify("textDocument/didOpen", json!({"textDocument":{"uri":du,"languageId":"gleam","version":version,"text":DEVONLY_TEXT}}));
            let mut rp = replay.clone();
            rp["dev_dependency"] = json!({"opening_order": order_name});
            let id = s.request("textDocument/prepareRename", json!({"textDocument":{"uri":du},"position":{"line":2,"character":4}}));
            if let Some(pr) = s.wait_response(id, Duration::from_secs(20)) {
                rep.count("prepare_rename_queries_in_a_dev_dependency", 1);
                if pr.get("result").map(|r| !r.is_null()).unwrap_or(false) {
                    rep.violate(format!("external-package-editability:{what}:build-packages-accepted:{order_name}"), format!("prepareRename on `helper` of build/packages/{pkg_dir} accepts"), rp.clone());
                }
            }
            let id = s.request("textDocument/rename", json!({"textDocument":{"uri":du},"position":{"line":2,"character":4},"newName":"renamed_helper"}));
            if let Some(rr) = s.wait_response(id, Duration::from_secs(20)) {
                if rr.get("result").map(|r| r.to_string().contains(&format!("build/packages/{pkg_dir}"))).unwrap_or(false) {
                    rep.violate(format!("rename-edits-dependency:{what}:{order_name}"), format!("rename of `helper` returns edits in build/packages/{pkg_dir}"), rp);
                }
            }
        }
        // the fixture project: opened after the root project has been loaded (whose loader has walked the
        // root's test/ directory, fixture included)
        if let Some(fx) = &fixture {
            let uu = file_uri(&fx.join("src/fixuser.gleam").display().to_string());
            version += 1;
            s.notify("textDocument/didOpen", json!({"textDocument":{"uri":uu,"languageId":"gleam","version":version,"text":"import fixmod\n\npub fn g() { fixmod.fixfn() }\n"}}));
            let id = s.request("textDocument/definition", json!({"textDocument":{"uri":uu},"position":{"line":2,"character":22}}));
            if let Some(resp) = s.wait_response(id, Duration::from_secs(20)) {
                let got: Vec<String> = match resp.get("result") {
                    Some(Value::Array(a)) => a.iter().filter_map(|l| l["uri"].as_str()).map(vh::lspclient::normalise_uri).collect(),
                    Some(Value::Object(o)) => o.get("uri").and_then(|u| u.as_str()).map(|u| vec![vh::lspclient::normalise_uri(u)]).unwrap_or_default(),
                    _ => vec![],
                };
                let want = vh::lspclient::normalise_uri(&file_uri(&fx.join("src/fixmod.gleam").display().to_string()));
                rep.count("definition_queries_in_a_nested_project", 1);
                if got != vec![want.clone()] {
                    rep.violate(
                        format!("nested-project:import-does-not-resolve-in-the-innermost-package:{order_name}"),
                        format!("test/fixtures/inner is a project of its own; `fixmod.fixfn` in its src/fixuser.gleam answers {got:?}, expected {want}"),
                        replay.clone(),
                    );
                }
            }
        }
        // free-standing file still gets answers
        let fu = file_uri(&free.display().to_string());
        if !free_early {
            version += 1;
            s.notify("textDocument/didOpen", json!({"textDocument":{"uri":fu,"languageId":"gleam","version":version,"text":free_item.1}}));
        }
        let id = s.request("textDocument/hover", json!({"textDocument":{"uri":fu},"position":{"line":2,"character":19}}));
        let hov = s.wait_response(id, Duration::from_secs(20));
        let id2 = s.request("glas/syntaxTree", json!({"textDocument":{"uri":fu}}));
        let tree = s.wait_response(id2, Duration::from_secs(20));
        let hov_ok = hov.as_ref().and_then(|h| h.get("result")).map(|r| !r.is_null()).unwrap_or(false);
        let tree_ok = tree.as_ref().and_then(|h| h.get("result")).map(|r| r.is_string()).unwrap_or(false);
        if !hov_ok || !tree_ok {
            rep.violate(
                format!("free-standing-file-gets-no-answer:{}{}:{order_name}", if hov_ok { "" } else { "hover" }, if tree_ok { "" } else { "+syntaxTree" }),
                format!("hover {:?} syntaxTree ok={tree_ok}", hov.as_ref().map(|h| h.get("error").cloned())),
                replay.clone(),
            );
        }
        rep.nontrivial(fnv(replay.to_string().as_bytes()));
        if rep.samples.len() < 3 { rep.sample(json!({"packages": pkgs.iter().map(|p| json!([p.name, p.deps, p.path_deps, p.modules.iter().map(|m| m.0.clone()).collect::<Vec<_>>()])).collect::<Vec<_>>(), "order": order_name})); }
        s.shutdown();
        n += 1;
    }
    rep.count("trees", n);
    let _ = std::fs::remove_dir_all(&base);
    rep
}

// ----------------------------------------------------------------------------------
// C14 / C19 on the wire: a client with its own capabilities. What the real server sends
// is decoded the way an LSP client must decode it - columns in the position encoding the
// server ANNOUNCED at initialize (utf-16 unless it announces otherwise), token types
// through the legend it ANNOUNCED - and compared with what the analysis (same crate `ide`,
// in process, byte offsets) says about the same text.

const WIRE_TAIL: &str = "\npub fn wire_probe(a) {\n  #(\"ß€😀\", wire_probe(a), \"𝄞\", wire_probe, \"é\", wire_other(a))\n}\n\npub fn wire_other(b) { #(\"€€\", b, wire_probe) }\n";

fn run_wire(args: &Args) -> Report {
    use vh::lspclient::client_profile;
    use vh::lspmodel::Enc;
    let prop = args.prop.clone();
    let mut rep = Report::new(&prop, args.shard);
    let bin = PathBuf::from(args.get("glas-bin").expect("--glas-bin"));
    let base = args.out.join(format!("wire-{prop}-shard{}", args.shard));
    let mut r = Rng::derive(args.seed, args.shard as u64, 1419);
    let t0 = Instant::now();
    let mut n = 0u64;
    while t0.elapsed().as_secs_f64() < args.budget_s {
        let Some(case_seed) = args.next_case(&mut r) else { break };
        let mut cr = Rng::new(case_seed);
        let _ = std::fs::remove_dir_all(&base);
        let proj = base.join("proj");
        std::fs::create_dir_all(proj.join("src")).unwrap();
        // one document in five starts with a byte-order mark (then line 0 begins `pub fn bom_first() ..`, so that line 0 has tokens)
        let text = if cr.chance(1, 5) { format!("{}pub fn bom_first() {{ bom_first() }}\n{}{}", '\u{feff}', big_module(&mut cr), WIRE_TAIL) } else { format!("{}{}", big_module(&mut cr), WIRE_TAIL) };
        std::fs::write(proj.join("gleam.toml"), "name = \"proj\"\n").unwrap();
        std::fs::write(proj.join("src/w.gleam"), &text).unwrap();
        let profile = client_profile(&mut cr);
        let replay = json!({"kind":"wire","case_seed":case_seed.to_string(),"client":profile.descr,"capabilities":profile.capabilities,"text":truncate_str(&text, 4000)});
        rep.evaluations += 1;
        rep.see("client_profiles", profile.descr.clone());
        // the analysis' own answers, in byte offsets
        let loaded = vh::ws::load_single(&[("/ws/pkg/src/w.gleam".to_string(), text.clone()), ("/ws/pkg/gleam.toml".to_string(), "name = \"proj\"\n".to_string())]);
        let file = loaded.file_by_path("/ws/pkg/src/w.gleam").unwrap();
        let an = loaded.host.snapshot();
        let Ok(hls) = an.syntax_highlight(file, None) else { rep.inconclusive += 1; continue };
        let mut s = match Server::spawn(&bin, &[], None) {
            Ok(s) => s,
            Err(_) => { rep.inconclusive += 1; continue; }
        };
        let Some(init) = s.initialize_with(Some(&file_uri(&proj.display().to_string())), profile.capabilities.clone(), profile.client_info.clone(), Duration::from_secs(20)) else {
            if !s.alive() {
                rep.violate(format!("server-died-at-initialize:{}", profile.descr), "the server exited while answering initialize", replay.clone());
            } else {
                rep.inconclusive += 1;
            }
            continue;
        };
        let caps = &init["result"]["capabilities"];
        let announced = caps.get("positionEncoding").and_then(|v| v.as_str()).unwrap_or("utf-16").to_string();
        rep.see("announced_position_encodings", announced.clone());
        let Some(enc) = Enc::parse(&announced) else {
            rep.violate("announced-encoding-unknown", format!("positionEncoding {announced:?}"), replay.clone());
            continue;
        };
        // LSP 3.17: the server picks one of the encodings the client offered; utf-16 if none offered
        let offered: Vec<&str> = profile.offered_encodings.clone().unwrap_or_else(|| vec!["utf-16"]);
        if !offered.contains(&announced.as_str()) && announced != "utf-16" {
            rep.violate("announced-encoding-not-offered", format!("client offered {offered:?}, server announces {announced:?}"), replay.clone());
            continue;
        }
        let legend: Vec<String> = caps["semanticTokensProvider"]["legend"]["tokenTypes"].as_array().map(|a| a.iter().filter_map(|v| v.as_str().map(|s| s.to_string())).collect()).unwrap_or_default();
        rep.see("announced_legends", legend.join(","));
        let uri = file_uri(&proj.join("src/w.gleam").display().to_string());
        s.notify("textDocument/didOpen", json!({"textDocument":{"uri":uri,"languageId":"gleam","version":1,"text":text}}));
        let doc = Doc::new(text.clone());
        let conv = |v: &Value| -> Option<(usize, usize)> {
            let p = |q: &Value| Some(Pos { line: q.get("line")?.as_u64()? as u32, col: q.get("character")?.as_u64()? as u32 });
            let a = doc.offset_of_enc(p(v.get("start")?)?, enc).ok()?;
            let b = doc.offset_of_enc(p(v.get("end")?)?, enc).ok()?;
            Some((a, b))
        };
        let mut ok = true;
        // ---- semantic tokens (C19's clause; the positions in them are C14's)
        let id = s.request("textDocument/semanticTokens/full", json!({"textDocument":{"uri":uri}}));
        let Some(resp) = s.wait_response(id, Duration::from_secs(30)) else {
            rep.inconclusive += 1;
            continue;
        };
        let data: Vec<u32> = resp["result"]["data"].as_array().map(|a| a.iter().filter_map(|v| v.as_u64().map(|x| x as u32)).collect()).unwrap_or_default();
        let want: BTreeSet<(usize, usize, &str)> = hls
            .iter()
            .map(|h| {
                (u32::from(h.range.start()) as usize, u32::from(h.range.end()) as usize, match h.tag {
                    ide::HlTag::Function => "function",
                    ide::HlTag::Module => "namespace",
                    ide::HlTag::Constructor => "type",
                })
            })
            .collect();
        let mut got: BTreeSet<(usize, usize, String)> = BTreeSet::new();
        let (mut line, mut start) = (0u32, 0u32);
        let mut broken: Option<String> = None;
        if data.len() % 5 != 0 {
            broken = Some(format!("data length {} is not a multiple of 5", data.len()));
        }
        for c in data.chunks_exact(5) {
            line += c[0];
            start = if c[0] == 0 { start + c[1] } else { c[1] };
            let a = doc.offset_of_enc(Pos { line, col: start }, enc);
            let b = doc.offset_of_enc(Pos { line, col: start + c[2] }, enc);
            let (Ok(a), Ok(b)) = (a, b) else {
                broken = Some(format!("token at ({line},{start}) length {} is not a range of the document in {announced}", c[2]));
                break;
            };
            let Some(ty) = legend.get(c[3] as usize) else {
                broken = Some(format!("token type index {} is outside the announced legend {legend:?}", c[3]));
                break;
            };
            got.insert((a, b, ty.clone()));
        }
        let non_ascii_before = |a: usize| -> bool {
            let ls = text[..a].rfind('\n').map(|i| i + 1).unwrap_or(0);
            !text[ls..a].is_ascii()
        };
        if let Some(why) = broken {
            rep.violate(if why.contains("legend") { "wire:token-type-outside-announced-legend" } else { "wire:token-stream-does-not-decode" }, format!("client {}: {why}", profile.descr), replay.clone());
            ok = false;
        } else {
            let want_s: BTreeSet<(usize, usize, String)> = want.iter().map(|(a, b, t)| (*a, *b, t.to_string())).collect();
            if got != want_s {
                let pos_only = |s: &BTreeSet<(usize, usize, String)>| s.iter().map(|x| (x.0, x.1)).collect::<BTreeSet<_>>();
                let what = if pos_only(&got) == pos_only(&want_s) { "types" } else { "positions" };
                let miss: Vec<_> = want_s.difference(&got).take(3).collect();
                let extra: Vec<_> = got.difference(&want_s).take(3).collect();
                rep.violate(
                    format!("wire:decoded-tokens-differ-in-{what}"),
                    format!("client {}, announced encoding {announced}, legend {legend:?}: expected but not decoded {miss:?} (text {:?}); decoded but not expected {extra:?}", profile.descr, miss.first().map(|m| &text[m.0..m.1])),
                    replay.clone(),
                );
                ok = false;
            } else {
                rep.count("wire_token_streams_decoded_equal", 1);
                rep.count("wire_tokens_decoded", got.len() as u64);
                rep.count("wire_tokens_after_non_ascii_on_their_line", got.iter().filter(|t| non_ascii_before(t.0)).count() as u64);
            }
        }
        // ---- positions in both directions: documentHighlight and hover at identifier tokens
        if ok {
            let mut probes: Vec<(usize, usize)> = want.iter().map(|w| (w.0, w.1)).collect();
            cr.shuffle(&mut probes);
            // tokens that follow non-ASCII text on their line first
            probes.sort_by_key(|p| !non_ascii_before(p.0));
            for (a, b) in probes.into_iter().take(if args.thorough() { 24 } else { 10 }) {
                let at = a + cr.below(b - a);
                if !text.is_char_boundary(at) {
                    continue;
                }
                let p = doc.position_of_enc(at, enc);
                let fpos = ide::FilePos::new(file, syntax::TextSize::from(at as u32));
                let Ok(want_hl) = an.highlight_related(fpos) else { continue };
                let want_set: BTreeSet<(usize, usize)> = want_hl.iter().map(|h| (u32::from(h.range.start()) as usize, u32::from(h.range.end()) as usize)).collect();
                let id = s.request("textDocument/documentHighlight", json!({"textDocument":{"uri":uri},"position":{"line":p.line,"character":p.col}}));
                let Some(resp) = s.wait_response(id, Duration::from_secs(30)) else { rep.inconclusive += 1; ok = false; break };
                let got_set: Option<BTreeSet<(usize, usize)>> = match &resp["result"] {
                    Value::Null => Some(BTreeSet::new()),
                    Value::Array(items) => items.iter().map(|it| conv(&it["range"])).collect(),
                    _ => None,
                };
                rep.count("wire_position_probes", 1);
                if non_ascii_before(at) {
                    rep.count("wire_position_probes_after_non_ascii", 1);
                }
                match got_set {
                    Some(g) if g == want_set => {}
                    other => {
                        rep.violate(
                            "wire:highlight-ranges-differ",
                            format!("client {}, announced encoding {announced}: documentHighlight at byte {at} = ({},{}) selects {other:?}, the analysis says {want_set:?}", profile.descr, p.line, p.col),
                            replay.clone(),
                        );
                        ok = false;
                        break;
                    }
                }
                // hover: the range must select the token the analysis hovers
                if let Ok(Some(h)) = an.hover(fpos) {
                    let id = s.request("textDocument/hover", json!({"textDocument":{"uri":uri},"position":{"line":p.line,"character":p.col}}));
                    let Some(resp) = s.wait_response(id, Duration::from_secs(30)) else { rep.inconclusive += 1; ok = false; break };
                    let got_r = conv(&resp["result"]["range"]);
                    let want_r = (u32::from(h.range.start()) as usize, u32::from(h.range.end()) as usize);
                    if got_r != Some(want_r) {
                        rep.violate(
                            "wire:hover-range-differs",
                            format!("client {}, announced encoding {announced}: hover at byte {at} = ({},{}) reports {:?} -> {got_r:?}, the analysis says {want_r:?}", profile.descr, p.line, p.col, resp["result"]["range"]),
                            replay.clone(),
                        );
                        ok = false;
                        break;
                    }
                    rep.count("wire_hover_ranges_equal", 1);
                }
            }
        }
        // ---- the same after typing: ASCII typed in front of a non-ASCII character on a line
        // (the document is reached through incremental edits, not opened afresh); the token
        // stream must decode to the analysis of the NEW text
        if ok {
            let mut cur = doc.clone();
            let mut version = 1;
            let mut edits = 0;
            for _ in 0..cr.range(1, 3) {
                // a line with a multi-byte character; an insertion point left of it
                let lines = cur.lines();
                let cands: Vec<(usize, usize)> = lines.iter().filter(|(a, b)| !cur.text[*a..*b].is_ascii()).map(|(a, b)| (*a, cur.text[*a..*b].char_indices().find(|(_, c)| !c.is_ascii()).map(|(i, _)| a + i).unwrap_or(*b))).collect();
                if cands.is_empty() {
                    break;
                }
                let (ls, first_non_ascii) = cands[cr.below(cands.len())];
                let at = ls + cr.below(first_non_ascii - ls + 1);
                let typed = *cr.pick(&["bcde", "x", " wire_probe ", "q1(", "12345678"]);
                let p = cur.position_of_enc(at, enc);
                version += 1;
                s.notify("textDocument/didChange", json!({"textDocument":{"uri":uri,"version":version},"contentChanges":[{"range":{"start":{"line":p.line,"character":p.col},"end":{"line":p.line,"character":p.col}},"text":typed}]}));
                let mut t = cur.text.clone();
                t.insert_str(at, typed);
                cur = Doc::new(t);
                edits += 1;
            }
            if edits > 0 {
                let l2 = vh::ws::load_single(&[("/ws/pkg/src/w.gleam".to_string(), cur.text.clone()), ("/ws/pkg/gleam.toml".to_string(), "name = \"proj\"\n".to_string())]);
                let f2 = l2.file_by_path("/ws/pkg/src/w.gleam").unwrap();
                if let Ok(hl2) = l2.host.snapshot().syntax_highlight(f2, None) {
                    let want2: BTreeSet<(usize, usize, String)> = hl2
                        .iter()
                        .map(|h| {
                            (u32::from(h.range.start()) as usize, u32::from(h.range.end()) as usize, match h.tag {
                                ide::HlTag::Function => "function",
                                ide::HlTag::Module => "namespace",
                                ide::HlTag::Constructor => "type",
                            }.to_string())
                        })
                        .collect();
                    let id = s.request("textDocument/semanticTokens/full", json!({"textDocument":{"uri":uri}}));
                    if let Some(resp) = s.wait_response(id, Duration::from_secs(30)) {
                        let data: Vec<u32> = resp["result"]["data"].as_array().map(|a| a.iter().filter_map(|v| v.as_u64().map(|x| x as u32)).collect()).unwrap_or_default();
                        let mut got2: BTreeSet<(usize, usize, String)> = BTreeSet::new();
                        let (mut line, mut start) = (0u32, 0u32);
                        let mut broken = false;
                        for c in data.chunks_exact(5) {
                            line += c[0];
                            start = if c[0] == 0 { start + c[1] } else { c[1] };
                            match (cur.offset_of_enc(Pos { line, col: start }, enc), cur.offset_of_enc(Pos { line, col: start + c[2] }, enc), legend.get(c[3] as usize)) {
                                (Ok(a), Ok(b), Some(ty)) => {
                                    got2.insert((a, b, ty.clone()));
                                }
                                _ => {
                                    broken = true;
                                    break;
                                }
                            }
                        }
                        rep.count("wire_token_streams_after_typing", 1);
                        if broken || got2 != want2 {
                            let miss: Vec<_> = want2.difference(&got2).take(3).collect();
                            let extra: Vec<_> = got2.difference(&want2).take(3).collect();
                            let mut rp = replay.clone();
                            rp["text_after_typing"] = json!(truncate_str(&cur.text, 4000));
                            rep.violate(
                                "wire:decoded-tokens-differ-after-typing",
                                format!("client {}, after {edits} insertion(s) left of a non-ASCII character: expected but not decoded {miss:?}; decoded but not expected {extra:?}{}", profile.descr, if broken { " (a token does not decode at all)" } else { "" }),
                                rp,
                            );
                            ok = false;
                        }
                    } else {
                        rep.inconclusive += 1;
                    }
                }
            }
        }
        s.shutdown();
        if ok {
            rep.nontrivial(fnv(format!("{case_seed}:{}", profile.descr).as_bytes()));
        }
        n += 1;
    }
    rep.count("wire_sessions", n);
    let _ = std::fs::remove_dir_all(&base);
    rep
}

fn main() {
    vh::panicmon::install();
    let args = Args::parse();
    let rep = match (args.prop.as_str(), args.get("part")) {
        ("C15", _) => run_c15(&args),
        ("C13", _) => run_c13bb(&args),
        ("C16", _) => run_c16(&args),
        ("C17", _) => run_c17(&args),
        ("C14", _) | ("C19", _) => run_wire(&args),
        (p, _) => panic!("m_lsp does not serve {p}"),
    };
    rep.write(&args.out);
}
