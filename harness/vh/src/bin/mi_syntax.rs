//! C01/C02 under Miri: the real parser and tree walk are *interpreted* on short hostile
//! inputs, so undefined behaviour (the `transmute` in `SyntaxKind` conversion, rowan's
//! unsafe cursor/green-node code as reached from this parser, out-of-bounds, use after
//! free, invalid enum values, uninitialised reads) aborts the interpreter with a report,
//! while the same oracles as in `m_syntax` judge the results.
//!
//!   cargo +nightly miri run -p vh --bin mi_syntax -- --prop C01|C02 --seed S --shard i/n --out DIR --cases N
//!   MIRIFLAGS="-Zmiri-disable-isolation -Zmiri-disable-stacked-borrows"   (see DESIGN §6)
//!
//! Also runs natively (same binary, same cases) — used to calibrate and to replay.

use serde_json::json;
use std::panic::{catch_unwind, AssertUnwindSafe};
use syntax::parse_module;
use vh::report::{Args, Report};
use vh::rng::{fnv, Rng};
use vh::synmon;
use vh::textgen::{self, CHAINS, LEXEMES_40, SEPARATORS, TOWERS};

/// Always-run seeds: one per construct class that reaches a distinct parser path.
const FIXED: &[&str] = &[
    "",
    "\u{feff}",
    "fn",
    "fn f() { 1 }",
    "pub fn f(a a: Int, _b) -> Int { let x = a + 1 x }",
    "import a/b.{type T, c as d}\n@external(erlang, \"m\", \"f\")\nfn g(x) -> a",
    "pub opaque type T(a) { A(x: a, List(a)) B }",
    "const c: List(Int) = [1, 2]",
    "fn f() { case x, y { [a, ..r], #(1, _) if a > 2 -> r _, _ -> [] } }",
    "fn f() { use a, b <- g(1) a |> h(_, b) }",
    "fn f() { <<1:size(8), x:utf8>> }",
    "fn f() { \"unterminated",
    "/// doc\n//// mod doc\n// c",
    "fn f() { x.y.0.z(1)(2) }",
    "type T { A(x: Int B }\n@external(a, \"b\", \"c\")\nfn b() { 1 }",
    "fn f() { let assert \"p\" <> rest = s as t }",
    "fn f( { [ #( fn(",
    "}}}}))))]]]]",
    "fn f() { 1 <=. 2.0 && !a || -b != c }",
    "héllo 💣 ß ℝ \r\n\t",
    "fn f() { todo as \"x\" panic as \"y\" }",
    "type A = fn(Int, #(a, b)) -> m.T(_)",
];

fn judge(rep: &mut Report, prop: &str, phase: &str, text: &str) {
    rep.evaluations += 1;
    let out = catch_unwind(AssertUnwindSafe(|| parse_module(text)));
    let parse = match out {
        Ok(p) => p,
        Err(e) => {
            let msg = e.downcast_ref::<String>().cloned().or_else(|| e.downcast_ref::<&str>().map(|s| s.to_string())).unwrap_or_default();
            if prop == "C02" {
                rep.violate(format!("panic-under-miri:{}", vh::panicmon::normalise_msg(&msg)), format!("parse_module panicked: {msg}"), json!({"kind":"text","phase":phase,"text":text}));
            } else {
                rep.inconclusive += 1;
            }
            return;
        }
    };
    rep.see("phases", phase);
    rep.count(if parse.errors().is_empty() { "inputs_without_errors" } else { "inputs_with_errors" }, 1);
    // Both properties walk the whole tree: the walk is where rowan's unsafe code and the
    // kind transmute run.
    let mut kinds = 0u64;
    let res = synmon::check_lossless(text, &parse, |_, _| kinds += 1, |n, _| {
        let _ = format!("{n:?}");
    });
    rep.count("tokens_walked", kinds);
    match res {
        Ok(st) => {
            if st.tokens >= 2 {
                rep.nontrivial(fnv(text.as_bytes()));
            }
        }
        Err((sig, detail)) => {
            if prop == "C01" {
                rep.violate(format!("lossless:{sig}"), detail, json!({"kind":"text","phase":phase,"text":text}));
            }
        }
    }
    if prop == "C02" {
        if let Err((sig, detail)) = synmon::check_error_ranges(text, &parse) {
            rep.violate(format!("errors:{sig}"), detail, json!({"kind":"text","phase":phase,"text":text}));
        }
    }
    // typed accessors + debug dump exercise SyntaxKind::from(raw) for every node
    let dump = format!("{:#?}", parse.syntax_node());
    rep.count("dump_bytes", dump.len() as u64);
}

fn main() {
    let args = Args::parse();
    let mut rep = Report::new(&args.prop, args.shard);
    let cases: usize = args.get("cases").and_then(|s| s.parse().ok()).unwrap_or(40);
    let mut r = Rng::derive(args.seed, args.shard as u64, 777);
    for (i, t) in FIXED.iter().enumerate() {
        if i % args.nshards == args.shard {
            judge(&mut rep, &args.prop, "fixed", t);
        }
    }
    // towers around the nesting bound (128): one per shard, cheap ones
    let t = &TOWERS[args.shard % TOWERS.len()];
    for (depth, closed) in [(6usize, true), (130, false)] {
        let text = textgen::tower_text(t, depth, closed);
        if text.len() < 2000 {
            judge(&mut rep, &args.prop, "tower", &text);
        }
    }
    let c = &CHAINS[args.shard % CHAINS.len()];
    judge(&mut rep, &args.prop, "chain", &textgen::chain_text(c, 12));
    let corpus = vh::corpus();
    for n in 0..cases {
        let text = match n % 5 {
            0 => textgen::random_text(&mut r, 48),
            1 => textgen::keyword_soup(&mut r, 10),
            2 => {
                // lexeme sequence
                let k = r.range(2, 7);
                let mut s = String::new();
                for _ in 0..k {
                    s.push_str(LEXEMES_40[r.below(LEXEMES_40.len())]);
                    s.push_str(SEPARATORS[r.below(SEPARATORS.len())]);
                }
                s
            }
            _ => {
                // a window of a corpus file, mutated
                if corpus.is_empty() {
                    textgen::random_text(&mut r, 48)
                } else {
                    let (_, t) = &corpus[r.below(corpus.len())];
                    let mut a = r.below(t.len().max(1));
                    while !t.is_char_boundary(a) {
                        a -= 1;
                    }
                    let mut b = (a + r.range(20, 160)).min(t.len());
                    while !t.is_char_boundary(b) {
                        b -= 1;
                    }
                    let w = &t[a..b];
                    if n % 5 == 3 { w.to_string() } else { textgen::mutate(&mut r, w) }
                }
            }
        };
        judge(&mut rep, &args.prop, ["random", "soup", "lexemes", "corpus-window", "corpus-mutant"][n % 5], &text);
    }
    rep.count("interpreted_under_miri", if cfg!(miri) { 1 } else { 0 });
    rep.write(&args.out);
}
