//! Debug helper: probe <replay.json> [<path> <offset>]... prints hover/goto/refs at an offset.
use ide::{FilePos};
use syntax::TextSize;
fn main() {
    let argv: Vec<String> = std::env::args().collect();
    let doc: serde_json::Value = serde_json::from_str(&std::fs::read_to_string(&argv[1]).unwrap()).unwrap();
    let files: Vec<(String, String)> = doc["replay"]["files"].as_array().unwrap().iter().map(|e| (e[0].as_str().unwrap().to_string(), e[1].as_str().unwrap().to_string())).collect();
    let loaded = vh::ws::load_single(&files);
    let an = loaded.host.snapshot();
    let mut i = 2;
    while i + 1 < argv.len() {
        let f = loaded.file_by_path(&argv[i]).expect("path");
        let off: u32 = argv[i + 1].parse().unwrap();
        let pos = FilePos::new(f, TextSize::from(off));
        println!("== {} @{}", argv[i], off);
        println!("hover: {:?}", an.hover(pos).unwrap().map(|h| h.markup));
        println!("goto: {:?}", an.goto_definition(pos).unwrap());
        println!("refs: {:?}", an.references(pos).unwrap());
        i += 2;
    }
}
