pub mod panicmon;
pub mod report;
pub mod rng;
pub mod synmon;
pub mod textgen;

use std::path::{Path, PathBuf};

pub fn repo_root() -> PathBuf {
    PathBuf::from(std::env::var("VERIF_REPO").unwrap_or_else(|_| "/repo".into()))
}

pub fn verif_root() -> PathBuf {
    PathBuf::from(std::env::var("VERIF_ROOT").unwrap_or_else(|_| "/verif".into()))
}

fn collect_gleam(dir: &Path, out: &mut Vec<(String, String)>) {
    let Ok(rd) = std::fs::read_dir(dir) else { return };
    let mut entries: Vec<_> = rd.filter_map(|e| e.ok()).collect();
    entries.sort_by_key(|e| e.path());
    for e in entries {
        let p = e.path();
        if p.is_dir() {
            if p.file_name().map(|n| n == "target").unwrap_or(false) {
                continue;
            }
            collect_gleam(&p, out);
        } else if p.extension().map(|x| x == "gleam").unwrap_or(false) {
            if let Ok(s) = std::fs::read_to_string(&p) {
                out.push((p.display().to_string(), s));
            }
        }
    }
}

/// The repository's own `.gleam` files (read at run time, never copied) plus the
/// hand-written hostile seeds under /verif/corpus.
pub fn corpus() -> Vec<(String, String)> {
    let mut out = Vec::new();
    collect_gleam(&repo_root().join("crates"), &mut out);
    collect_gleam(&verif_root().join("corpus"), &mut out);
    out
}
pub mod prog;
pub mod cstread;
pub mod gen;
pub mod damage;
pub mod queries;
pub mod ws;
pub mod sema;
pub mod lspmodel;
pub mod lspclient;
pub mod modelws;
pub mod tgen;
