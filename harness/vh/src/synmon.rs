//! Syntax monitors: the losslessness oracle (C01) and helpers to read the
//! `syntax_tree` debug dump back into leaf texts.

use syntax::{NodeOrToken, Parse, SyntaxKind, SyntaxNode};

#[derive(Default, Clone, Debug)]
pub struct TreeStats {
    pub tokens: usize,
    pub nodes: usize,
    pub errors: usize,
}

/// The C01 oracle. Returns Err(signature, detail) on the first refuting observation.
pub fn check_lossless(
    text: &str,
    parse: &Parse,
    mut on_token: impl FnMut(SyntaxKind, SyntaxKind),
    mut on_node: impl FnMut(SyntaxKind, SyntaxKind),
) -> Result<TreeStats, (String, String)> {
    let root = parse.syntax_node();
    let mut stats = TreeStats {
        errors: parse.errors().len(),
        ..Default::default()
    };
    let mut pos: usize = 0;
    let mut prev_kind = SyntaxKind::EOF;
    if usize::from(root.text_range().start()) != 0 {
        return Err(("root-start-nonzero".into(), format!("{:?}", root.text_range())));
    }
    for ev in root.preorder_with_tokens() {
        let el = match ev {
            syntax::rowan::WalkEvent::Enter(el) => el,
            syntax::rowan::WalkEvent::Leave(_) => continue,
        };
        match el {
            NodeOrToken::Token(t) => {
                let r = t.text_range();
                let (a, b) = (usize::from(r.start()), usize::from(r.end()));
                if a != pos {
                    return Err((
                        "token-not-contiguous".into(),
                        format!("token {:?}@{}..{} follows offset {}", t.kind(), a, b, pos),
                    ));
                }
                if b <= a {
                    return Err(("token-empty".into(), format!("token {:?}@{}..{}", t.kind(), a, b)));
                }
                if b > text.len() || !text.is_char_boundary(a) || !text.is_char_boundary(b) {
                    return Err((
                        "token-out-of-text".into(),
                        format!("token {:?}@{}..{} text len {}", t.kind(), a, b, text.len()),
                    ));
                }
                if t.text() != &text[a..b] {
                    return Err((
                        "token-text-differs".into(),
                        format!("token {:?}@{}..{} text {:?} vs input {:?}", t.kind(), a, b, t.text(), &text[a..b]),
                    ));
                }
                on_token(prev_kind, t.kind());
                prev_kind = t.kind();
                pos = b;
                stats.tokens += 1;
            }
            NodeOrToken::Node(n) => {
                stats.nodes += 1;
                let r = n.text_range();
                // hull of children
                if let (Some(f), Some(l)) = (n.first_child_or_token(), n.last_child_or_token()) {
                    if f.text_range().start() != r.start() || l.text_range().end() != r.end() {
                        return Err((
                            "node-range-not-hull".into(),
                            format!("node {:?}@{:?} children {:?}..{:?}", n.kind(), r, f.text_range(), l.text_range()),
                        ));
                    }
                    on_node(n.kind(), first_token_kind(&n));
                } else if !r.is_empty() {
                    return Err(("childless-node-nonempty".into(), format!("node {:?}@{:?}", n.kind(), r)));
                }
                if usize::from(r.start()) != pos {
                    return Err((
                        "node-start-not-at-cursor".into(),
                        format!("node {:?}@{:?} entered at offset {}", n.kind(), r, pos),
                    ));
                }
            }
        }
    }
    if pos != text.len() {
        return Err((
            "tokens-do-not-cover-text".into(),
            format!("leaf tokens end at {} but text has {} bytes", pos, text.len()),
        ));
    }
    if usize::from(root.text_range().end()) != text.len() {
        return Err(("root-end-differs".into(), format!("{:?} vs {}", root.text_range(), text.len())));
    }
    // "Leaf tokens in document order" is also what `first_token()` / `next_token()` enumerate - the walk
    // the repository's own features use (semantic highlighting, trivia skipping). It must reach every
    // leaf: an empty node between two tokens cuts that chain although the tree holds every byte.
    let mut chained = 0usize;
    let mut end = 0usize;
    let mut tok = root.first_token();
    while let Some(t) = tok {
        chained += 1;
        end = usize::from(t.text_range().end());
        tok = t.next_token();
    }
    if chained != stats.tokens {
        return Err((
            "token-chain-cut".into(),
            format!("first_token()/next_token() reaches {chained} of {} leaf tokens and stops at offset {end} of {}", stats.tokens, text.len()),
        ));
    }
    Ok(stats)
}

fn first_token_kind(n: &SyntaxNode) -> SyntaxKind {
    n.first_token().map(|t| t.kind()).unwrap_or(SyntaxKind::EOF)
}

/// Every error range must lie within the text (used by C20 as well).
pub fn check_error_ranges(text: &str, parse: &Parse) -> Result<(), (String, String)> {
    for e in parse.errors() {
        let (a, b) = (usize::from(e.range.start()), usize::from(e.range.end()));
        if a > b || b > text.len() || !text.is_char_boundary(a) || !text.is_char_boundary(b) {
            return Err((
                format!("error-range-out-of-text:{:?}", e.kind).replace(|c: char| c.is_ascii_digit(), ""),
                format!("{:?} text len {}", e, text.len()),
            ));
        }
    }
    Ok(())
}

// ----------------------------------------------------------------------------------
// Reading the `{:#?}` dump of a rowan tree (what `Analysis::syntax_tree` and the
// `glas/syntaxTree` request return).

#[derive(Debug, Clone, PartialEq, Eq)]
pub struct DumpLeaf {
    pub kind: String,
    pub start: usize,
    pub end: usize,
    /// Text as printed (un-escaped). rowan prints tokens of 25 bytes or more as a
    /// 21..24-byte prefix followed by " ..."; `truncated` says so.
    pub text: String,
    pub truncated: bool,
}

pub fn unescape_rust_debug(s: &str) -> Option<String> {
    let mut out = String::new();
    let mut it = s.chars();
    while let Some(c) = it.next() {
        if c != '\\' {
            out.push(c);
            continue;
        }
        match it.next()? {
            'n' => out.push('\n'),
            'r' => out.push('\r'),
            't' => out.push('\t'),
            '0' => out.push('\0'),
            '\\' => out.push('\\'),
            '"' => out.push('"'),
            '\'' => out.push('\''),
            'u' => {
                if it.next()? != '{' {
                    return None;
                }
                let mut v: u32 = 0;
                loop {
                    let d = it.next()?;
                    if d == '}' {
                        break;
                    }
                    v = v * 16 + d.to_digit(16)?;
                }
                out.push(char::from_u32(v)?);
            }
            _ => return None,
        }
    }
    Some(out)
}

/// Parse the dump into its leaves (tokens), in document order.
pub fn dump_leaves(dump: &str) -> Result<Vec<DumpLeaf>, String> {
    let mut out = Vec::new();
    for line in dump.lines() {
        let t = line.trim_start();
        if t.is_empty() {
            continue;
        }
        let (head, rest) = match t.find(' ') {
            Some(i) => (&t[..i], Some(&t[i + 1..])),
            None => (t, None),
        };
        let Some(rest) = rest else { continue }; // a node line: KIND@a..b
        let (kind, range) = head.split_once('@').ok_or_else(|| format!("bad line {line:?}"))?;
        let (a, b) = range.split_once("..").ok_or_else(|| format!("bad range {line:?}"))?;
        let a: usize = a.parse().map_err(|_| format!("bad range {line:?}"))?;
        let b: usize = b.parse().map_err(|_| format!("bad range {line:?}"))?;
        if !(rest.starts_with('"') && rest.ends_with('"') && rest.len() >= 2) {
            return Err(format!("bad token text {line:?}"));
        }
        let inner = &rest[1..rest.len() - 1];
        let mut text = unescape_rust_debug(inner).ok_or_else(|| format!("bad escape {line:?}"))?;
        let mut truncated = false;
        if b - a >= 25 {
            if let Some(p) = text.strip_suffix(" ...") {
                text = p.to_string();
                truncated = true;
            } else {
                return Err(format!("long token without truncation marker {line:?}"));
            }
        }
        out.push(DumpLeaf {
            kind: kind.to_string(),
            start: a,
            end: b,
            text,
            truncated,
        });
    }
    Ok(out)
}

/// Compare dump leaves with an expected text. Ok(bytes checked exactly).
pub fn dump_matches_text(dump: &str, expected: &str) -> Result<usize, String> {
    let leaves = dump_leaves(dump)?;
    let mut pos = 0usize;
    let mut exact = 0usize;
    for l in &leaves {
        if l.start != pos {
            return Err(format!("leaf {:?} starts at {} expected {}", l.kind, l.start, pos));
        }
        if l.end > expected.len() || !expected.is_char_boundary(l.start) || !expected.is_char_boundary(l.end) {
            return Err(format!("leaf {:?}@{}..{} outside expected text (len {})", l.kind, l.start, l.end, expected.len()));
        }
        let want = &expected[l.start..l.end];
        if l.truncated {
            if !want.starts_with(&l.text) {
                return Err(format!("leaf {:?}@{}..{} prefix {:?} vs expected {:?}", l.kind, l.start, l.end, l.text, want));
            }
            exact += l.text.len();
        } else {
            if want != l.text {
                return Err(format!("leaf {:?}@{}..{} text {:?} vs expected {:?}", l.kind, l.start, l.end, l.text, want));
            }
            exact += want.len();
        }
        pos = l.end;
    }
    if pos != expected.len() {
        return Err(format!("leaves end at {} expected text has {} bytes", pos, expected.len()));
    }
    Ok(exact)
}
