//! Text-level generators for the syntax monitors (C01, C02, and as damage source for
//! C10/C20): lexeme alphabet and contexts for exhaustive enumeration, random UTF-8,
//! token/character mutation, truncation, deep-nesting towers and long chains.

use crate::rng::Rng;

/// Representative lexemes: every keyword, every punctuation/operator token, identifier
/// classes, literals, comments, whitespace kinds, lexer-error characters.
pub const LEXEMES: &[&str] = &[
    // identifiers / literals
    "x", "Xy", "_d", "fooBar", "Foo_bar", "1", "1.5", "0x1f", "\"s\"", "\"s", "\"\\\"",
    // keywords
    "as", "assert", "case", "const", "external", "fn", "if", "import", "let", "opaque", "panic",
    "pub", "todo", "type", "use",
    // punctuation and operators
    "[", "]", "{", "}", "(", ")", "+", "-", "*", "/", "<", ">", "<=", ">=", "+.", "-.", "*.", "/.",
    "%", "<.", ">.", "<=.", ">=.", "<>", ":", "@", ",", "#", "!", "=", "==", "!=", "|", "||", "&&",
    "<<", ">>", "|>", ".", "->", "<-", "..",
    // trivia
    "// c\n", "/// d\n", "//// m\n", "\t",
    // lexer errors / non-ASCII
    "\r", "$", "ß", "💣", "&", "~",
];

/// Sub-alphabets for deeper exhaustive enumeration (indices chosen to cover every
/// parser decision point at least once: openers, closers, separators, keywords that
/// restart statements, identifiers of each class, a doc comment and a lexer error).
pub const LEXEMES_40: &[&str] = &[
    "x", "Xy", "_d", "1", "\"s\"", "\"s", "as", "case", "const", "fn", "if", "import", "let",
    "pub", "type", "use", "todo", "opaque", "[", "]", "{", "}", "(", ")", "-", "<", ">", ":", "@",
    ",", "#", "=", "|", "<<", ">>", "|>", ".", "->", "<-", "..",
];

pub const LEXEMES_16: &[&str] = &[
    "x", "Xy", "fn", "let", "case", "type", "{", "}", "(", ")", ",", ":", "=", "->", ".", "..",
];

/// Parser contexts: (prefix, suffix). The enumerated sequence is spliced between them.
pub const CONTEXTS: &[(&str, &str)] = &[
    ("", ""),
    ("fn f() { ", " }"),
    ("type T { ", " }"),
    ("fn f() { case x { ", " } }"),
    ("import a.{ ", " }"),
    ("fn f( ", " ) {}"),
];

pub const SEPARATORS: &[&str] = &["", " ", "\n"];

/// Build the text for one enumeration point into `buf`.
pub fn splice(buf: &mut String, ctx: (&str, &str), sep: &str, lex: &[&str]) {
    buf.clear();
    buf.push_str(ctx.0);
    for (i, l) in lex.iter().enumerate() {
        if i > 0 {
            buf.push_str(sep);
        }
        buf.push_str(l);
    }
    buf.push_str(ctx.1);
}

/// Iterate all sequences of length `len` over `alphabet`, restricted to the shard's
/// slice of the index space. Calls f(indices).
pub fn for_each_sequence(
    alphabet_len: usize,
    len: usize,
    shard: usize,
    nshards: usize,
    mut f: impl FnMut(&[usize]),
) {
    let total = (alphabet_len as u64).pow(len as u32);
    let mut idx = vec![0usize; len];
    let mut n = shard as u64;
    while n < total {
        let mut r = n;
        for slot in idx.iter_mut().rev() {
            *slot = (r % alphabet_len as u64) as usize;
            r /= alphabet_len as u64;
        }
        f(&idx);
        n += nshards as u64;
    }
}

const WEIGHTED_CHARS: &[&str] = &[
    "a", "b", "z", "A", "Z", "_", "0", "9", " ", " ", "\n", "\n", "\t", "\r", "\r\n", "\"", "\\",
    "/", "//", "///", "////", "(", ")", "[", "]", "{", "}", "<", ">", "=", "-", "+", "*", ".", ",",
    ":", "|", "&", "!", "#", "@", "%", "$", "~", "`", "'", "?", ";", "^", "\u{feff}", "ß", "é",
    "ℝ", "中", "💣", "🧑‍🚀", "\u{0}", "\u{7f}", "\u{85}", "\u{2028}", "\u{10ffff}",
];

pub fn random_text(r: &mut Rng, max_len: usize) -> String {
    let n = r.below(max_len.max(1));
    let mut s = String::new();
    let mode = r.below(4);
    while s.len() < n {
        match mode {
            0 => s.push_str(*r.pick(WEIGHTED_CHARS)),
            1 => s.push_str(*r.pick(LEXEMES)),
            2 => {
                if r.chance(1, 2) {
                    s.push_str(*r.pick(LEXEMES));
                    s.push_str(*r.pick(&[" ", "", "\n"]));
                } else {
                    s.push_str(*r.pick(WEIGHTED_CHARS));
                }
            }
            _ => {
                // long lines of one class
                let piece = *r.pick(WEIGHTED_CHARS);
                let k = r.range(1, 40);
                for _ in 0..k {
                    s.push_str(piece);
                }
            }
        }
    }
    // Unterminated string / comment at EOF now and then.
    match r.below(10) {
        0 => s.push_str("\"abc"),
        1 => s.push_str("// tail"),
        2 => s.push_str("/// doc"),
        3 => s.push('\\'),
        _ => {}
    }
    s
}

/// Keyword soup: mostly keywords and delimiters.
pub fn keyword_soup(r: &mut Rng, n: usize) -> String {
    const KW: &[&str] = &[
        "as", "assert", "case", "const", "external", "fn", "if", "import", "let", "opaque", "panic",
        "pub", "todo", "type", "use", "{", "}", "(", ")", "[", "]", "->", "=", ",", "x", "X", "@",
        "#", "<<", ">>", "..", ".", ":", "|",
    ];
    let mut s = String::new();
    for _ in 0..n {
        s.push_str(*r.pick(KW));
        s.push(' ');
    }
    s
}

/// Split text into rough tokens (for token-level mutation) without using the lexer
/// under test: identifiers/numbers, strings, comments, single punctuation chars,
/// whitespace runs.
pub fn rough_tokens(text: &str) -> Vec<(usize, usize)> {
    let b = text.as_bytes();
    let mut out = Vec::new();
    let mut i = 0;
    while i < b.len() {
        let start = i;
        let c = b[i];
        if c.is_ascii_alphanumeric() || c == b'_' {
            while i < b.len() && (b[i].is_ascii_alphanumeric() || b[i] == b'_') {
                i += 1;
            }
        } else if c == b' ' || c == b'\n' || c == b'\t' {
            while i < b.len() && (b[i] == b' ' || b[i] == b'\n' || b[i] == b'\t') {
                i += 1;
            }
        } else if c == b'"' {
            i += 1;
            while i < b.len() && b[i] != b'"' {
                if b[i] == b'\\' {
                    i += 1;
                }
                i += 1;
            }
            i = (i + 1).min(b.len());
        } else if c == b'/' && i + 1 < b.len() && b[i + 1] == b'/' {
            while i < b.len() && b[i] != b'\n' {
                i += 1;
            }
        } else if c < 0x80 {
            i += 1;
        } else {
            // one UTF-8 scalar
            i += 1;
            while i < b.len() && (b[i] & 0xC0) == 0x80 {
                i += 1;
            }
        }
        // guard against running inside a multibyte char after escapes
        while i < b.len() && !text.is_char_boundary(i) {
            i += 1;
        }
        out.push((start, i.min(b.len())));
    }
    out
}

/// One token- or character-level mutation of `text`.
pub fn mutate(r: &mut Rng, text: &str) -> String {
    let toks = rough_tokens(text);
    if toks.is_empty() {
        return (*r.pick(LEXEMES)).to_string();
    }
    let mut s = String::with_capacity(text.len() + 16);
    match r.below(8) {
        // delete a token
        0 => {
            let (a, b) = toks[r.below(toks.len())];
            s.push_str(&text[..a]);
            s.push_str(&text[b..]);
        }
        // insert a lexeme before a token
        1 | 2 => {
            let (a, _) = toks[r.below(toks.len())];
            s.push_str(&text[..a]);
            s.push_str(*r.pick(LEXEMES));
            s.push(' ');
            s.push_str(&text[a..]);
        }
        // replace a token
        3 | 4 => {
            let (a, b) = toks[r.below(toks.len())];
            s.push_str(&text[..a]);
            s.push_str(*r.pick(LEXEMES));
            s.push_str(&text[b..]);
        }
        // duplicate a token
        5 => {
            let (a, b) = toks[r.below(toks.len())];
            s.push_str(&text[..b]);
            s.push_str(&text[a..]);
        }
        // insert a raw character at a char boundary
        6 => {
            let mut p = r.below(text.len() + 1);
            while !text.is_char_boundary(p) {
                p -= 1;
            }
            s.push_str(&text[..p]);
            s.push_str(*r.pick(WEIGHTED_CHARS));
            s.push_str(&text[p..]);
        }
        // swap two tokens
        _ => {
            let i = r.below(toks.len());
            let j = r.below(toks.len());
            let (i, j) = (i.min(j), i.max(j));
            if i == j {
                s.push_str(text);
            } else {
                let (a1, b1) = toks[i];
                let (a2, b2) = toks[j];
                s.push_str(&text[..a1]);
                s.push_str(&text[a2..b2]);
                s.push_str(&text[b1..a2]);
                s.push_str(&text[a1..b1]);
                s.push_str(&text[b2..]);
            }
        }
    }
    s
}

/// Char-boundary prefixes of a text (every `step`-th boundary).
pub fn prefixes(text: &str, step: usize) -> impl Iterator<Item = &str> + '_ {
    text.char_indices()
        .map(|(i, _)| i)
        .chain(std::iter::once(text.len()))
        .step_by(step.max(1))
        .map(move |i| &text[..i])
}

// ----------------------------------------------------------------------------------
// Depth towers and long chains (C02).

#[derive(Clone, Debug)]
pub struct Tower {
    pub name: &'static str,
    pub open: &'static str,
    pub close: &'static str,
    pub core: &'static str,
    pub prefix: &'static str,
    pub suffix: &'static str,
}

pub const TOWERS: &[Tower] = &[
    Tower { name: "expr-list", open: "[", close: "]", core: "1", prefix: "fn f() { ", suffix: " }" },
    Tower { name: "expr-block", open: "{", close: "}", core: "1", prefix: "fn f() { ", suffix: " }" },
    Tower { name: "expr-tuple", open: "#(", close: ")", core: "1", prefix: "fn f() { ", suffix: " }" },
    Tower { name: "expr-call", open: "f(", close: ")", core: "1", prefix: "fn f() { ", suffix: " }" },
    Tower { name: "expr-neg", open: "-", close: "", core: "1", prefix: "fn f() { ", suffix: " }" },
    Tower { name: "expr-not", open: "!", close: "", core: "x", prefix: "fn f() { ", suffix: " }" },
    Tower { name: "expr-lambda", open: "fn() { ", close: " }", core: "1", prefix: "fn f() { ", suffix: " }" },
    Tower { name: "expr-case", open: "case x { _ -> ", close: " }", core: "1", prefix: "fn f() { ", suffix: " }" },
    Tower { name: "expr-bitarray", open: "<<", close: ">>", core: "1", prefix: "fn f() { ", suffix: " }" },
    Tower { name: "expr-spread", open: "..", close: "", core: "x", prefix: "fn f() { [", suffix: "] }" },
    Tower { name: "expr-todo-as", open: "todo as ", close: "", core: "\"m\"", prefix: "fn f() { ", suffix: " }" },
    Tower { name: "pat-list", open: "[", close: "]", core: "x", prefix: "fn f() { case x { ", suffix: " -> 1 } }" },
    Tower { name: "pat-tuple", open: "#(", close: ")", core: "x", prefix: "fn f() { case x { ", suffix: " -> 1 } }" },
    Tower { name: "pat-ctor", open: "A(", close: ")", core: "x", prefix: "fn f() { case x { ", suffix: " -> 1 } }" },
    Tower { name: "pat-neg", open: "-", close: "", core: "1", prefix: "fn f() { case x { ", suffix: " -> 1 } }" },
    Tower { name: "pat-concat", open: "\"a\" <> ", close: "", core: "x", prefix: "fn f() { case x { ", suffix: " -> 1 } }" },
    Tower { name: "pat-let-list", open: "[", close: "]", core: "x", prefix: "fn f() { let ", suffix: " = y }" },
    Tower { name: "type-app", open: "List(", close: ")", core: "Int", prefix: "type A = ", suffix: "" },
    Tower { name: "type-tuple", open: "#(", close: ")", core: "Int", prefix: "fn f(a: ", suffix: ") {}" },
    Tower { name: "type-fn-ret", open: "fn() -> ", close: "", core: "Int", prefix: "type A = ", suffix: "" },
    Tower { name: "type-fn-arg", open: "fn(", close: ") -> Int", core: "Int", prefix: "type A = ", suffix: "" },
    Tower { name: "type-field", open: "List(", close: ")", core: "Int", prefix: "type T { A(x: ", suffix: ") }" },
    Tower { name: "const-list", open: "[", close: "]", core: "1", prefix: "const c = ", suffix: "" },
];

pub fn tower_text(t: &Tower, depth: usize, closed: bool) -> String {
    let mut s = String::with_capacity(t.prefix.len() + depth * (t.open.len() + t.close.len()) + 16);
    s.push_str(t.prefix);
    for _ in 0..depth {
        s.push_str(t.open);
    }
    s.push_str(t.core);
    if closed {
        for _ in 0..depth {
            s.push_str(t.close);
        }
        s.push_str(t.suffix);
    }
    s
}

/// Recursion units for the nesting-bound sweep: (context prefix, unit). A tower is
/// `prefix + unit * depth + tail`, left unclosed: the parser unwinds `depth` productions
/// without consuming anything after the tail, which is where a look-ahead budget that is
/// not proportional to the nesting bound runs out.
pub const RECURSION_UNITS: &[(&str, &str)] = &[
    ("fn f() { ", "["),
    ("fn f() { ", "{ "),
    ("fn f() { ", "#("),
    ("fn f() { ", "f("),
    ("fn f() { ", "f(a: "),
    ("fn f() { ", "x.y("),
    ("fn f() { ", "-"),
    ("fn f() { ", "!"),
    ("fn f() { ", "fn() { "),
    ("fn f() { ", "fn(a) { let b = "),
    ("fn f() { ", "case x { _ -> "),
    ("fn f() { ", "case x { a if "),
    ("fn f() { ", "case x { a as b if "),
    ("fn f() { ", "case x { a | "),
    ("fn f() { ", "case x { ["),
    ("fn f() { ", "case x { #("),
    ("fn f() { ", "case x { A("),
    ("fn f() { ", "case x { A(b: "),
    ("fn f() { ", "case x { \"a\" <> "),
    ("fn f() { ", "case "),
    ("fn f() { ", "case x, "),
    ("fn f() { ", "<<"),
    ("fn f() { ", "<<a:size("),
    ("fn f() { ", "todo as "),
    ("fn f() { ", "panic as "),
    ("fn f() { ", "let a = "),
    ("fn f() { ", "let assert [a, ..] = "),
    ("fn f() { ", "use a <- "),
    ("fn f() { ", "x |> "),
    ("fn f() { ", "x + "),
    ("fn f() { ", "x == "),
    ("fn f() { ", "[1, .."),
    ("fn f() { ", "#(1, "),
    ("fn f() { ", "let ["),
    ("fn f() { ", "let #("),
    ("fn f() { ", "let a: List("),
    ("fn f(a: ", "List("),
    ("fn f(a: ", "#("),
    ("fn f() -> ", "fn() -> "),
    ("fn f() -> ", "fn("),
    ("type A = ", "List("),
    ("type A = ", "#(Int, "),
    ("type T { A(x: ", "List("),
    ("type T { A(", "#("),
    ("const c = ", "["),
    ("const c = ", "#("),
    ("const c: ", "List("),
    ("const c = ", "A("),
];

#[derive(Clone, Debug)]
pub struct Chain {
    pub name: &'static str,
    pub head: &'static str,
    pub link: &'static str,
    pub prefix: &'static str,
    pub suffix: &'static str,
}

pub const CHAINS: &[Chain] = &[
    Chain { name: "binary-add", head: "a", link: " + a", prefix: "fn f() { ", suffix: " }" },
    Chain { name: "binary-mixed", head: "a", link: " * a + a", prefix: "fn f() { ", suffix: " }" },
    Chain { name: "pipe", head: "a", link: " |> g", prefix: "fn f() { ", suffix: " }" },
    Chain { name: "call", head: "a", link: "()", prefix: "fn f() { ", suffix: " }" },
    Chain { name: "field", head: "a", link: ".b", prefix: "fn f() { ", suffix: " }" },
    Chain { name: "tuple-index", head: "a", link: ".0", prefix: "fn f() { ", suffix: " }" },
    Chain { name: "concat", head: "\"a\"", link: " <> \"a\"", prefix: "fn f() { ", suffix: " }" },
    Chain { name: "eq-nonassoc", head: "a", link: " == a", prefix: "fn f() { ", suffix: " }" },
    Chain { name: "list-elems", head: "[1", link: ", 1", prefix: "fn f() { ", suffix: "] }" },
    Chain { name: "args", head: "g(1", link: ", 1", prefix: "fn f() { ", suffix: ") }" },
    Chain { name: "stmts", head: "let a = 1", link: "\nlet a = 1", prefix: "fn f() { ", suffix: " }" },
    Chain { name: "items", head: "fn f() { 1 }", link: "\nfn f() { 1 }", prefix: "", suffix: "" },
    Chain { name: "clauses", head: "1 -> 1", link: "\n1 -> 1", prefix: "fn f() { case x { ", suffix: " } }" },
    Chain { name: "alternatives", head: "1", link: " | 1", prefix: "fn f() { case x { ", suffix: " -> 1 } }" },
    Chain { name: "variants", head: "A", link: " A", prefix: "type T { ", suffix: " }" },
    Chain { name: "import-path", head: "a", link: "/a", prefix: "import ", suffix: "" },
    Chain { name: "attrs", head: "@target(erlang)", link: "\n@target(erlang)", prefix: "", suffix: "\nfn f() {}" },
    Chain { name: "unclosed-strings", head: "\"", link: " \"", prefix: "fn f() { ", suffix: "" },
    Chain { name: "ats", head: "@", link: "@", prefix: "", suffix: "" },
    Chain { name: "dots", head: "a", link: ".", prefix: "fn f() { ", suffix: " }" },
    // wide constructs: thousands of tokens inside ONE pair of delimiters (tables of bytes, long tuples and
    // parameter lists): whatever a production looks ahead for, or counts, per delimiter pair
    Chain { name: "bit-array-segments", head: "<<1", link: ", 1", prefix: "fn f() { ", suffix: ">> }" },
    Chain { name: "const-bit-array", head: "<<0", link: ", 255", prefix: "const table = ", suffix: ">>\nfn f() { table }" },
    Chain { name: "const-list", head: "[0", link: ", 255", prefix: "const table = ", suffix: "]\nfn f() { table }" },
    Chain { name: "tuple-elems", head: "#(1", link: ", 1", prefix: "fn f() { ", suffix: ") }" },
    Chain { name: "params", head: "a", link: ", a", prefix: "fn f(", suffix: ") { 1 }" },
    Chain { name: "fields", head: "a: Int", link: ", a: Int", prefix: "type T { T(", suffix: ") }" },
    Chain { name: "list-pattern", head: "[1", link: ", 1", prefix: "fn f(x) { case x { ", suffix: "] -> 1 } }" },
];

pub fn chain_text(c: &Chain, n: usize) -> String {
    let mut s = String::with_capacity(c.prefix.len() + c.head.len() + n * c.link.len() + c.suffix.len());
    s.push_str(c.prefix);
    s.push_str(c.head);
    for _ in 0..n {
        s.push_str(c.link);
    }
    s.push_str(c.suffix);
    s
}
