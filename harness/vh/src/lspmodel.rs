//! Reference model of an LSP client document, written from the LSP specification
//! (positions are zero-based line / UTF-16 code unit column; lines end at LF or CRLF),
//! plus the semantic-token decoder. Never calls the code under test.

#[derive(Clone, Debug, PartialEq, Eq)]
pub struct Doc {
    pub text: String,
}

#[derive(Clone, Copy, Debug, PartialEq, Eq, PartialOrd, Ord, Hash)]
pub struct Pos {
    pub line: u32,
    pub col: u32,
}

#[derive(Clone, Debug, PartialEq, Eq)]
pub enum Invalid {
    LineBeyondDocument,
    ColumnBeyondLine,
    InsideSurrogatePair,
    Reversed,
}

pub fn utf16_len(s: &str) -> u32 {
    s.chars().map(|c| c.len_utf16() as u32).sum()
}

impl Doc {
    pub fn new(text: impl Into<String>) -> Doc {
        Doc { text: text.into() }
    }

    /// (start offset, end offset excluding the line terminator) of every line.
    pub fn lines(&self) -> Vec<(usize, usize)> {
        let b = self.text.as_bytes();
        let mut out = Vec::new();
        let mut start = 0;
        let mut i = 0;
        while i < b.len() {
            if b[i] == b'\n' {
                let end = if i > start && b[i - 1] == b'\r' { i - 1 } else { i };
                out.push((start, end));
                start = i + 1;
            }
            i += 1;
        }
        out.push((start, b.len()));
        out
    }

    pub fn line_count(&self) -> u32 {
        self.lines().len() as u32
    }

    pub fn offset_of(&self, p: Pos) -> Result<usize, Invalid> {
        let lines = self.lines();
        let Some(&(a, b)) = lines.get(p.line as usize) else { return Err(Invalid::LineBeyondDocument) };
        let mut col = 0u32;
        for (i, c) in self.text[a..b].char_indices() {
            if col == p.col {
                return Ok(a + i);
            }
            let w = c.len_utf16() as u32;
            if p.col > col && p.col < col + w {
                return Err(Invalid::InsideSurrogatePair);
            }
            col += w;
        }
        if col == p.col {
            Ok(b)
        } else {
            Err(Invalid::ColumnBeyondLine)
        }
    }

    /// Position of a byte offset that lies on a character boundary and not between CR and LF.
    pub fn position_of(&self, off: usize) -> Pos {
        let lines = self.lines();
        let mut li = 0;
        for (i, &(a, _)) in lines.iter().enumerate() {
            if a <= off {
                li = i;
            } else {
                break;
            }
        }
        let (a, b) = lines[li];
        let end = off.min(b);
        Pos { line: li as u32, col: utf16_len(&self.text[a..end]) }
    }

    /// All valid positions of the document, in order.
    pub fn all_positions(&self) -> Vec<Pos> {
        let mut out = Vec::new();
        for (li, &(a, b)) in self.lines().iter().enumerate() {
            let mut col = 0u32;
            out.push(Pos { line: li as u32, col: 0 });
            for c in self.text[a..b].chars() {
                col += c.len_utf16() as u32;
                out.push(Pos { line: li as u32, col });
            }
        }
        out
    }

    pub fn apply(&mut self, range: Option<(Pos, Pos)>, text: &str) -> Result<(), Invalid> {
        match range {
            None => {
                self.text = text.to_string();
                Ok(())
            }
            Some((s, e)) => {
                let a = self.offset_of(s)?;
                let b = self.offset_of(e)?;
                if a > b {
                    return Err(Invalid::Reversed);
                }
                let mut t = String::with_capacity(self.text.len() + text.len());
                t.push_str(&self.text[..a]);
                t.push_str(text);
                t.push_str(&self.text[b..]);
                self.text = t;
                Ok(())
            }
        }
    }

    /// What the server is specified to analyse: the text with carriage returns removed.
    pub fn server_view(&self) -> String {
        self.text.replace('\r', "")
    }
}

// ----------------------------------------------------------------------------------
// Semantic tokens (LSP 3.16 relative encoding).

#[derive(Clone, Debug, PartialEq, Eq, PartialOrd, Ord)]
pub struct AbsToken {
    pub line: u32,
    pub start: u32,
    pub len: u32,
    pub ty: u32,
    pub mods: u32,
}

/// Decode `data` (5 integers per token). Errors name the rule that is broken.
pub fn decode_semantic_tokens(data: &[u32], legend_len: u32, doc: &Doc) -> Result<Vec<AbsToken>, String> {
    if data.len() % 5 != 0 {
        return Err(format!("data length {} is not a multiple of 5", data.len()));
    }
    let lines = doc.lines();
    let mut out: Vec<AbsToken> = Vec::new();
    let (mut line, mut start) = (0u32, 0u32);
    for (i, c) in data.chunks(5).enumerate() {
        let (dl, ds, len, ty, mods) = (c[0], c[1], c[2], c[3], c[4]);
        line = line.checked_add(dl).ok_or_else(|| format!("token {i}: line overflow"))?;
        start = if dl == 0 { start.checked_add(ds).ok_or_else(|| format!("token {i}: start overflow"))? } else { ds };
        if len == 0 {
            return Err(format!("token {i}: zero length"));
        }
        if ty >= legend_len {
            return Err(format!("token {i}: type index {ty} outside the legend ({legend_len})"));
        }
        let Some(&(a, b)) = lines.get(line as usize) else { return Err(format!("token {i}: line {line} beyond the document")) };
        let line_len = utf16_len(&doc.text[a..b]);
        if start.checked_add(len).map(|e| e > line_len).unwrap_or(true) {
            return Err(format!("token {i}: {start}+{len} exceeds line {line} of UTF-16 length {line_len}"));
        }
        if let Some(prev) = out.last() {
            let ordered = (prev.line, prev.start + prev.len) <= (line, start) && (prev.line, prev.start) < (line, start);
            if !ordered {
                return Err(format!("token {i}: ({line},{start}) does not follow ({},{}+{})", prev.line, prev.start, prev.len));
            }
        }
        out.push(AbsToken { line, start, len, ty, mods });
    }
    Ok(out)
}

/// Model encoding target for a byte range on one line of `doc` (server view).
pub fn abs_token_for(doc: &Doc, a: usize, b: usize, ty: u32) -> AbsToken {
    let p = doc.position_of(a);
    let q = doc.position_of(b);
    AbsToken { line: p.line, start: p.col, len: q.col - p.col, ty, mods: 0 }
}

// ----------------------------------------------------------------------------------
// Positions in a negotiated encoding (LSP 3.17 `general.positionEncodings`): the column
// counts UTF-8 bytes, UTF-16 code units or code points of the line's text.

#[derive(Clone, Copy, Debug, PartialEq, Eq)]
pub enum Enc {
    Utf8,
    Utf16,
    Utf32,
}

impl Enc {
    pub fn parse(s: &str) -> Option<Enc> {
        match s {
            "utf-8" => Some(Enc::Utf8),
            "utf-16" => Some(Enc::Utf16),
            "utf-32" => Some(Enc::Utf32),
            _ => None,
        }
    }
    pub fn width(self, c: char) -> u32 {
        match self {
            Enc::Utf8 => c.len_utf8() as u32,
            Enc::Utf16 => c.len_utf16() as u32,
            Enc::Utf32 => 1,
        }
    }
}

impl Doc {
    pub fn offset_of_enc(&self, p: Pos, enc: Enc) -> Result<usize, Invalid> {
        let lines = self.lines();
        let Some(&(a, b)) = lines.get(p.line as usize) else { return Err(Invalid::LineBeyondDocument) };
        let mut col = 0u32;
        for (i, c) in self.text[a..b].char_indices() {
            if col == p.col {
                return Ok(a + i);
            }
            let w = enc.width(c);
            if p.col > col && p.col < col + w {
                return Err(Invalid::InsideSurrogatePair);
            }
            col += w;
        }
        if col == p.col {
            Ok(b)
        } else {
            Err(Invalid::ColumnBeyondLine)
        }
    }

    pub fn position_of_enc(&self, off: usize, enc: Enc) -> Pos {
        let lines = self.lines();
        let mut li = 0;
        for (i, &(a, _)) in lines.iter().enumerate() {
            if a <= off {
                li = i;
            } else {
                break;
            }
        }
        let (a, b) = lines[li];
        let end = off.min(b);
        Pos { line: li as u32, col: self.text[a..end].chars().map(|c| enc.width(c)).sum() }
    }
}
