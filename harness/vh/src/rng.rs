//! Small deterministic PRNG (SplitMix64 seeding xoshiro256**), so every run is
//! reproducible from VERIF_SEED without pulling in a crate.

#[derive(Clone, Debug)]
pub struct Rng {
    s: [u64; 4],
}

fn splitmix(x: &mut u64) -> u64 {
    *x = x.wrapping_add(0x9E37_79B9_7F4A_7C15);
    let mut z = *x;
    z = (z ^ (z >> 30)).wrapping_mul(0xBF58_476D_1CE4_E5B9);
    z = (z ^ (z >> 27)).wrapping_mul(0x94D0_49BB_1331_11EB);
    z ^ (z >> 31)
}

impl Rng {
    pub fn new(seed: u64) -> Rng {
        let mut x = seed ^ 0xD1B5_4A32_D192_ED03;
        let s = [
            splitmix(&mut x),
            splitmix(&mut x),
            splitmix(&mut x),
            splitmix(&mut x),
        ];
        Rng { s }
    }

    /// Derive an independent stream (seed, shard, case ...).
    pub fn derive(seed: u64, a: u64, b: u64) -> Rng {
        let mut x = seed;
        let s1 = splitmix(&mut x) ^ a.wrapping_mul(0x9E37_79B9_7F4A_7C15);
        let mut y = s1;
        let s2 = splitmix(&mut y) ^ b.wrapping_mul(0xC2B2_AE3D_27D4_EB4F);
        Rng::new(s2)
    }

    pub fn next_u64(&mut self) -> u64 {
        let r = self.s[1].wrapping_mul(5).rotate_left(7).wrapping_mul(9);
        let t = self.s[1] << 17;
        self.s[2] ^= self.s[0];
        self.s[3] ^= self.s[1];
        self.s[1] ^= self.s[2];
        self.s[0] ^= self.s[3];
        self.s[2] ^= t;
        self.s[3] = self.s[3].rotate_left(45);
        r
    }

    /// Uniform in 0..n (n > 0).
    pub fn below(&mut self, n: usize) -> usize {
        debug_assert!(n > 0);
        (self.next_u64() % (n as u64)) as usize
    }

    /// Uniform in lo..=hi.
    pub fn range(&mut self, lo: usize, hi: usize) -> usize {
        lo + self.below(hi - lo + 1)
    }

    /// True with probability num/den.
    pub fn chance(&mut self, num: u32, den: u32) -> bool {
        (self.next_u64() % den as u64) < num as u64
    }

    pub fn pick<'a, T>(&mut self, xs: &'a [T]) -> &'a T {
        &xs[self.below(xs.len())]
    }

    pub fn shuffle<T>(&mut self, xs: &mut [T]) {
        for i in (1..xs.len()).rev() {
            let j = self.below(i + 1);
            xs.swap(i, j);
        }
    }
}

/// FNV-1a, used for structural hashes of cases (distinctness counting).
pub fn fnv(bytes: &[u8]) -> u64 {
    let mut h: u64 = 0xcbf2_9ce4_8422_2325;
    for b in bytes {
        h ^= *b as u64;
        h = h.wrapping_mul(0x0000_0100_0000_01b3);
    }
    h
}

pub fn fnv_mix(h: u64, bytes: &[u8]) -> u64 {
    let mut h = h ^ 0x9E37_79B9_7F4A_7C15;
    for b in bytes {
        h ^= *b as u64;
        h = h.wrapping_mul(0x0000_0100_0000_01b3);
    }
    h
}
