//! Loading workspaces into `ide::AnalysisHost` the way the server's loader does
//! (one SourceRoot per package, PackageGraph with `is_local`), plus token tables used by
//! range oracles.

use ide::{AnalysisHost, Change, Dependency, FileId, FileSet, PackageGraph, SourceRoot, VfsPath};
use std::collections::{BTreeMap, BTreeSet};
use std::sync::Arc;

#[derive(Clone, Debug)]
pub struct PkgSpec {
    pub root: String,
    pub name: String,
    pub is_local: bool,
    /// indices into the package list
    pub deps: Vec<usize>,
    /// absolute path -> text; must include `<root>/gleam.toml`
    pub files: Vec<(String, String)>,
}

pub struct Loaded {
    pub host: AnalysisHost,
    /// (file id, path, text) in load order
    pub files: Vec<(FileId, String, String)>,
    pub pkg_of_file: BTreeMap<u32, usize>,
}

impl Loaded {
    pub fn file_by_path(&self, p: &str) -> Option<FileId> {
        self.files.iter().find(|f| f.1 == p).map(|f| f.0)
    }
    pub fn text(&self, f: FileId) -> &str {
        &self.files.iter().find(|x| x.0 == f).expect("file").2
    }
    pub fn path(&self, f: FileId) -> &str {
        &self.files.iter().find(|x| x.0 == f).expect("file").1
    }
    pub fn has_file(&self, f: FileId) -> bool {
        self.files.iter().any(|x| x.0 == f)
    }
    pub fn gleam_files(&self) -> Vec<FileId> {
        self.files.iter().filter(|f| f.1.ends_with(".gleam")).map(|f| f.0).collect()
    }
}

pub fn build_change(pkgs: &[PkgSpec]) -> (Change, Vec<(FileId, String, String)>, BTreeMap<u32, usize>) {
    let mut change = Change::default();
    let mut files = Vec::new();
    let mut pkg_of_file = BTreeMap::new();
    let mut roots = Vec::new();
    let mut graph = PackageGraph::default();
    let mut next = 0u32;
    let mut pkg_ids = Vec::new();
    for (pi, p) in pkgs.iter().enumerate() {
        let mut set = FileSet::default();
        let mut toml = None;
        for (path, text) in &p.files {
            let id = FileId(next);
            next += 1;
            set.insert(id, VfsPath::new(path));
            change.change_file(id, Arc::from(text.as_str()));
            files.push((id, path.clone(), text.clone()));
            pkg_of_file.insert(id.0, pi);
            if path.ends_with("/gleam.toml") && path == &format!("{}/gleam.toml", p.root) {
                toml = Some(id);
            }
        }
        roots.push(SourceRoot::new(set, p.root.clone().into()));
        if let Some(t) = toml {
            pkg_ids.push(Some(graph.add_package(p.name.as_str().into(), t, p.is_local)));
        } else {
            pkg_ids.push(None);
        }
    }
    for (pi, p) in pkgs.iter().enumerate() {
        for d in &p.deps {
            if let (Some(from), Some(to)) = (pkg_ids[pi], pkg_ids[*d]) {
                graph.add_dep(from, Dependency { package: to });
            }
        }
    }
    change.set_roots(roots);
    change.set_package_graph(graph);
    (change, files, pkg_of_file)
}

pub fn load_packages(pkgs: &[PkgSpec]) -> Loaded {
    let (change, files, pkg_of_file) = build_change(pkgs);
    let mut host = AnalysisHost::new();
    host.apply_change(change);
    Loaded { host, files, pkg_of_file }
}

/// Packages from (path, text) pairs. Every `/ws/<dir>/gleam.toml` among the files opens a
/// local package rooted at `/ws/<dir>`; its `[dependencies]` section names the packages it
/// depends on (by package name). Without any manifest: one package rooted at /ws/pkg.
pub fn single_package(files: &[(String, String)]) -> Vec<PkgSpec> {
    let roots: Vec<(String, String)> = files
        .iter()
        .filter_map(|(p, t)| {
            let dir = p.strip_prefix("/ws/")?.strip_suffix("/gleam.toml")?;
            if dir.contains('/') {
                return None;
            }
            Some((format!("/ws/{dir}"), t.clone()))
        })
        .collect();
    if roots.len() >= 2 {
        let name_of = |toml: &str| -> String {
            toml.lines().find_map(|l| l.trim().strip_prefix("name")).and_then(|r| r.split('"').nth(1)).unwrap_or("pkg").to_string()
        };
        let names: Vec<String> = roots.iter().map(|(_, t)| name_of(t)).collect();
        let mut pkgs = Vec::new();
        for (root, toml) in &roots {
            let mut deps = Vec::new();
            let mut in_deps = false;
            for l in toml.lines() {
                let l = l.trim();
                if l.starts_with('[') {
                    in_deps = l == "[dependencies]";
                    continue;
                }
                if in_deps {
                    if let Some(n) = l.split('=').next() {
                        if let Some(i) = names.iter().position(|x| x == n.trim()) {
                            deps.push(i);
                        }
                    }
                }
            }
            let prefix = format!("{root}/");
            let fs: Vec<(String, String)> = files.iter().filter(|f| f.0.starts_with(&prefix)).cloned().collect();
            pkgs.push(PkgSpec { root: root.clone(), name: name_of(toml), is_local: true, deps, files: fs });
        }
        return pkgs;
    }
    let mut fs = files.to_vec();
    if !fs.iter().any(|f| f.0 == "/ws/pkg/gleam.toml") {
        fs.push(("/ws/pkg/gleam.toml".into(), "name = \"pkg\"\n".into()));
    }
    vec![PkgSpec { root: "/ws/pkg".into(), name: "pkg".into(), is_local: true, deps: vec![], files: fs }]
}

pub fn load_single(files: &[(String, String)]) -> Loaded {
    load_packages(&single_package(files))
}

/// Token table of a text (same lexer/parser as the database uses): token ranges and
/// the set of token boundaries.
pub struct TokenTable {
    pub tokens: Vec<(usize, usize, syntax::SyntaxKind)>,
    pub bounds: BTreeSet<usize>,
    pub exact: BTreeSet<(usize, usize)>,
}

pub fn token_table(text: &str) -> TokenTable {
    let parse = syntax::parse_module(text);
    let mut tokens = Vec::new();
    let mut bounds = BTreeSet::new();
    let mut exact = BTreeSet::new();
    bounds.insert(0);
    for el in parse.syntax_node().descendants_with_tokens() {
        if let syntax::NodeOrToken::Token(t) = el {
            let r = t.text_range();
            let (a, b) = (usize::from(r.start()), usize::from(r.end()));
            tokens.push((a, b, t.kind()));
            bounds.insert(a);
            bounds.insert(b);
            exact.insert((a, b));
        }
    }
    bounds.insert(text.len());
    TokenTable { tokens, bounds, exact }
}
