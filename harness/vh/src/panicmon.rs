//! Panic monitor: a process-wide hook that records message, location and the first
//! in-repo frame of the panicking thread, plus `guard()` to run a closure under
//! `catch_unwind` and get a stable signature for whatever escaped.

use std::backtrace::Backtrace;
use std::cell::RefCell;
use std::panic::{self, AssertUnwindSafe};
use std::sync::Once;

#[derive(Clone, Debug, Default)]
pub struct PanicInfo {
    pub message: String,
    pub location: String,
    /// First frame whose source lies under the repository's crates.
    pub frame_fn: String,
    pub frame_loc: String,
}

thread_local! {
    static LAST: RefCell<Option<PanicInfo>> = RefCell::new(None);
}

static INSTALL: Once = Once::new();

pub fn install() {
    INSTALL.call_once(|| {
        panic::set_hook(Box::new(|info| {
            let message = if let Some(s) = info.payload().downcast_ref::<&str>() {
                s.to_string()
            } else if let Some(s) = info.payload().downcast_ref::<String>() {
                s.clone()
            } else {
                "<non-string payload>".to_string()
            };
            let location = info
                .location()
                .map(|l| format!("{}:{}", l.file(), l.line()))
                .unwrap_or_default();
            let bt = Backtrace::force_capture().to_string();
            let (frame_fn, frame_loc) = first_repo_frame(&bt);
            LAST.with(|l| {
                *l.borrow_mut() = Some(PanicInfo {
                    message,
                    location,
                    frame_fn,
                    frame_loc,
                })
            });
        }));
    });
}

fn is_repo_path(p: &str) -> bool {
    p.contains("/crates/syntax/src")
        || p.contains("/crates/ide/src")
        || p.contains("/crates/glas/src")
        || p.contains("/crates/gleam-interop/src")
}

/// Parser look-ahead helpers: where the fuel guard panics, not where the parser is stuck.
fn is_helper(f: &str) -> bool {
    let last = f.rsplit("::").next().unwrap_or(f);
    f.contains("parser") && matches!(last, "nth" | "at" | "at_any" | "eat" | "expect" | "bump" | "error")
}

fn first_repo_frame(bt: &str) -> (String, String) {
    // Format:  "  12: path::to::function\n             at /path/file.rs:LINE:COL"
    let mut cur_fn = String::new();
    for line in bt.lines() {
        let t = line.trim_start();
        if let Some(rest) = t.strip_prefix("at ") {
            if is_repo_path(rest) && !cur_fn.is_empty() && !is_helper(&cur_fn) {
                return (clean_symbol(&cur_fn), rest.to_string());
            }
        } else if let Some((idx, name)) = t.split_once(": ") {
            if idx.chars().all(|c| c.is_ascii_digit()) {
                cur_fn = name.to_string();
            }
        }
    }
    (String::new(), String::new())
}

fn clean_symbol(s: &str) -> String {
    // Drop trailing hash `::h0123abcd...` and closure noise.
    let mut s = s.to_string();
    if let Some(i) = s.rfind("::h") {
        if s[i + 3..].chars().all(|c| c.is_ascii_hexdigit()) && s.len() - i - 3 >= 8 {
            s.truncate(i);
        }
    }
    s.replace("::{{closure}}", "")
}

/// Digits → N, so sizes/indices do not split one defect into many signatures.
pub fn normalise_msg(m: &str) -> String {
    let mut out = String::new();
    let mut in_num = false;
    for c in m.chars() {
        if c.is_ascii_digit() {
            if !in_num {
                out.push('N');
                in_num = true;
            }
        } else {
            in_num = false;
            out.push(c);
        }
    }
    let out: String = out.lines().next().unwrap_or("").to_string();
    if out.len() > 120 {
        let mut e = 120;
        while !out.is_char_boundary(e) {
            e -= 1;
        }
        out[..e].to_string()
    } else {
        out
    }
}

impl PanicInfo {
    pub fn signature(&self) -> String {
        let place = if !self.frame_fn.is_empty() {
            self.frame_fn.clone()
        } else {
            // Fall back to the panic location's file (no line) for out-of-repo panics.
            let f = self.location.rsplit_once(':').map(|x| x.0).unwrap_or("");
            let f = f.rsplit('/').take(3).collect::<Vec<_>>();
            f.into_iter().rev().collect::<Vec<_>>().join("/")
        };
        format!("panic:{}:{}", place, normalise_msg(&self.message))
    }
}

pub enum Outcome<T> {
    Ok(T),
    Panicked(PanicInfo),
}

/// Run `f`, catching any panic. Salsa's `Cancelled` is thrown with `resume_unwind`
/// (no hook call) and is caught by `Analysis::with_db` before it gets here.
pub fn guard<T>(f: impl FnOnce() -> T) -> Outcome<T> {
    install();
    LAST.with(|l| *l.borrow_mut() = None);
    match panic::catch_unwind(AssertUnwindSafe(f)) {
        Ok(v) => Outcome::Ok(v),
        Err(_) => {
            let info = LAST.with(|l| l.borrow_mut().take()).unwrap_or_else(|| PanicInfo {
                message: "<unwind without panic hook (resume_unwind)>".into(),
                ..Default::default()
            });
            Outcome::Panicked(info)
        }
    }
}

/// Run `f` on a fresh thread with the given stack size (the server runs queries on
/// tokio blocking-pool threads: 2 MiB). A stack overflow aborts the whole process;
/// the caller's journal attributes it.
pub fn on_stack<T: Send + 'static>(stack: usize, f: impl FnOnce() -> T + Send + 'static) -> T {
    std::thread::Builder::new()
        .stack_size(stack)
        .spawn(f)
        .expect("spawn")
        .join()
        .expect("join: inner closure must not unwind")
}

pub const SERVER_STACK: usize = 2 * 1024 * 1024;
