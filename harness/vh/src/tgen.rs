//! Type-directed program generator (C09). Every expression is generated *for* a chosen
//! monomorphic target type from a typed environment, so the type of every binder is
//! known by construction; polymorphic library helpers are spliced in with hand-written
//! signatures. Uses the same AST/printer as the scoped generator.

use crate::prog::*;
use crate::rng::Rng;
use std::collections::BTreeMap;

#[derive(Clone, Debug, PartialEq, Eq)]
pub enum Ty {
    Int,
    Float,
    Str,
    Bool,
    Nil,
    List(Box<Ty>),
    Tuple(Vec<Ty>),
    Result(Box<Ty>, Box<Ty>),
    Fn(Vec<Ty>, Box<Ty>),
    /// (adt index, type arguments)
    Adt(usize, Vec<Ty>),
    /// only inside generic definitions
    Var(String),
}

#[derive(Clone, Debug)]
pub struct FieldDef {
    pub label: Option<String>,
    pub ty: Ty,
}

#[derive(Clone, Debug)]
pub struct VariantDef {
    pub name: String,
    pub fields: Vec<FieldDef>,
}

#[derive(Clone, Debug)]
pub struct AdtDef {
    pub name: String,
    pub module: usize,
    pub params: Vec<String>,
    pub variants: Vec<VariantDef>,
}

#[derive(Clone, Debug)]
pub struct ParamDef {
    pub label: Option<String>,
    pub name: String,
    pub ty: Ty,
    pub annotated: bool,
}

#[derive(Clone, Debug)]
pub struct FnDef {
    pub name: String,
    pub module: usize,
    pub params: Vec<ParamDef>,
    pub ret: Ty,
    pub ret_annotated: bool,
    /// position among all functions (unannotated returns may only call earlier ones)
    pub index: usize,
    pub decl: DeclId,
}

#[derive(Clone, Debug)]
pub struct Expectation {
    pub module: usize,
    pub decl: DeclId,
    pub what: &'static str,
    /// printed as glas prints types
    pub ty: String,
    /// for functions: the full expected signature `fn name(T, U) -> R`
    pub is_function: bool,
}

#[derive(Clone, Debug)]
pub struct PolyExpectation {
    pub module: usize,
    pub name: String,
    /// signature with type variables a, b, c ... compared up to renaming
    pub sig: String,
}

/// `value.` completion probe (C18): a complete field access `v.zz` on a value whose type
/// is known; completion is asked at `offset` (start of `zz`) with trigger '.'.
#[derive(Clone, Debug)]
pub struct DotProbe {
    pub module: usize,
    pub offset: usize,
    /// how the value is bound: parameter / let / clause variable
    pub binder: &'static str,
    pub ty: String,
    /// labels of the fields common to all variants (with one type); empty for non-record types
    pub expected: Vec<String>,
}

#[derive(Clone, Debug, Default)]
pub struct TypedWorkspace {
    pub dot_probes: Vec<DotProbe>,
    pub modules: Vec<Module>,
    pub texts: Vec<String>,
    pub printed: Vec<Printed>,
    pub expectations: Vec<Expectation>,
    pub poly: Vec<PolyExpectation>,
    pub features: Vec<&'static str>,
}

impl TypedWorkspace {
    pub fn path_of(&self, m: usize) -> String {
        format!("/ws/pkg/src/{}.gleam", self.modules[m].name)
    }
    pub fn files(&self) -> Vec<(String, String)> {
        let mut v: Vec<(String, String)> = (0..self.modules.len()).map(|i| (self.path_of(i), self.texts[i].clone())).collect();
        v.push(("/ws/pkg/gleam.toml".into(), "name = \"pkg\"\n".into()));
        v
    }
}

pub fn show(t: &Ty, adts: &[AdtDef]) -> String {
    match t {
        Ty::Int => "Int".into(),
        Ty::Float => "Float".into(),
        Ty::Str => "String".into(),
        Ty::Bool => "Bool".into(),
        Ty::Nil => "Nil".into(),
        Ty::List(e) => format!("List({})", show(e, adts)),
        Ty::Tuple(ts) => format!("#({})", ts.iter().map(|x| show(x, adts)).collect::<Vec<_>>().join(", ")),
        Ty::Result(a, b) => format!("Result({}, {})", show(a, adts), show(b, adts)),
        Ty::Fn(ps, r) => format!("fn({}) -> {}", ps.iter().map(|x| show(x, adts)).collect::<Vec<_>>().join(", "), show(r, adts)),
        Ty::Adt(i, args) => {
            if args.is_empty() {
                adts[*i].name.clone()
            } else {
                format!("{}({})", adts[*i].name, args.iter().map(|x| show(x, adts)).collect::<Vec<_>>().join(", "))
            }
        }
        Ty::Var(v) => v.clone(),
    }
}

fn subst(t: &Ty, env: &BTreeMap<String, Ty>) -> Ty {
    match t {
        Ty::Var(v) => env.get(v).cloned().unwrap_or_else(|| t.clone()),
        Ty::List(e) => Ty::List(Box::new(subst(e, env))),
        Ty::Tuple(ts) => Ty::Tuple(ts.iter().map(|x| subst(x, env)).collect()),
        Ty::Result(a, b) => Ty::Result(Box::new(subst(a, env)), Box::new(subst(b, env))),
        Ty::Fn(ps, r) => Ty::Fn(ps.iter().map(|x| subst(x, env)).collect(), Box::new(subst(r, env))),
        Ty::Adt(i, args) => Ty::Adt(*i, args.iter().map(|x| subst(x, env)).collect()),
        x => x.clone(),
    }
}

pub const FN_NAMES: &[&str] = &["alpha", "beta", "gamma", "delta", "eps", "zeta", "eta", "theta", "iota", "kappa", "lambda", "mu"];
const LOCALS: &[&str] = &["a", "b", "c", "d", "e", "v", "w", "x", "y", "z", "acc", "item", "rest", "left", "right"];

struct G<'a> {
    r: &'a mut Rng,
    adts: &'a [AdtDef],
    fns: &'a [FnDef],
    module: usize,
    next_decl: &'a mut usize,
    exps: &'a mut Vec<Expectation>,
    features: &'a mut Vec<&'static str>,
    /// scopes of (name, type)
    /// scopes of (name, type, declaration)
    env: Vec<Vec<(String, Ty, DeclId)>>,
    /// qualified access: module index -> accessor used in this module (None = unqualified import / same module)
    accessors: &'a BTreeMap<usize, Option<String>>,
    counter: usize,
    /// (index, return annotated) of the function being generated
    current: (usize, bool),
}

fn plain(s: &str) -> Ident {
    Ident::plain(s)
}

impl<'a> G<'a> {
    fn feat(&mut self, f: &'static str) {
        if !self.features.contains(&f) {
            self.features.push(f);
        }
    }

    fn fresh(&mut self) -> String {
        // shadowing is fine and wanted: names from a small pool
        self.counter += 1;
        // sometimes a local is spelled like a top-level function (it shadows it from here on;
        // every use of a function by bare name checks `is_shadowed`)
        if self.r.chance(1, 10) {
            self.feat("local-named-like-a-function");
            return FN_NAMES[self.r.below(FN_NAMES.len())].to_string();
        }
        // ... or like a module accessor of this module (`import t0`, then a local `t0` whose
        // `t0.field` is a field access on the local because that type-checks)
        if self.r.chance(1, 8) {
            let accs: Vec<String> = self.accessors.values().flatten().cloned().collect();
            if !accs.is_empty() {
                self.feat("local-named-like-a-module-accessor");
                return accs[self.r.below(accs.len())].clone();
            }
        }
        LOCALS[self.r.below(LOCALS.len())].to_string()
    }

    fn bind(&mut self, name: &str, ty: &Ty, what: &'static str) -> Ident {
        let d = *self.next_decl;
        *self.next_decl += 1;
        self.env.last_mut().unwrap().push((name.to_string(), ty.clone(), d));
        self.exps.push(Expectation { module: self.module, decl: d, what, ty: show(ty, self.adts), is_function: false });
        Ident::decl(name, d)
    }

    fn lookup(&self, name: &str) -> Option<&Ty> {
        for sc in self.env.iter().rev() {
            for (n, t, _) in sc.iter().rev() {
                if n == name {
                    return Some(t);
                }
            }
        }
        None
    }

    /// visible variables (not shadowed) of exactly this type
    fn vars_of(&self, ty: &Ty) -> Vec<String> {
        let mut out = Vec::new();
        let mut seen: Vec<&str> = Vec::new();
        for sc in self.env.iter().rev() {
            for (n, t, _) in sc.iter().rev() {
                if seen.contains(&n.as_str()) {
                    continue;
                }
                seen.push(n);
                if t == ty {
                    out.push(n.clone());
                }
            }
        }
        out
    }

    fn visible_vars(&self) -> Vec<(String, Ty)> {
        let mut out: Vec<(String, Ty)> = Vec::new();
        let mut seen: Vec<String> = Vec::new();
        for sc in self.env.iter().rev() {
            for (n, t, _) in sc.iter().rev() {
                if seen.contains(n) {
                    continue;
                }
                seen.push(n.clone());
                out.push((n.clone(), t.clone()));
            }
        }
        out
    }

    fn random_type(&mut self, depth: usize) -> Ty {
        let k = self.r.below(if depth == 0 { 5 } else { 12 });
        match k {
            0 => Ty::Int,
            1 => Ty::Float,
            2 => Ty::Str,
            3 => Ty::Bool,
            4 => {
                if self.r.chance(1, 3) {
                    Ty::Nil
                } else {
                    Ty::Int
                }
            }
            5 | 6 => Ty::List(Box::new(self.random_type(depth - 1))),
            7 => Ty::Tuple((0..self.r.range(2, 3)).map(|_| self.random_type(depth - 1)).collect()),
            8 => Ty::Result(Box::new(self.random_type(depth - 1)), Box::new(self.random_type(0))),
            9 | 10 => {
                let vis: Vec<usize> = (0..self.adts.len()).filter(|&i| self.adts[i].module == self.module || self.accessors.contains_key(&self.adts[i].module)).collect();
                let i = vis[self.r.below(vis.len())];
                let n = self.adts[i].params.len();
                Ty::Adt(i, (0..n).map(|_| self.random_type(0)).collect())
            }
            _ => Ty::Fn((0..self.r.range(1, 2)).map(|_| self.random_type(0)).collect(), Box::new(self.random_type(0))),
        }
    }

    fn fn_ref(&self, f: &FnDef) -> Expr {
        // same module or unqualified import: bare name; else qualified
        match self.accessors.get(&f.module) {
            Some(Some(acc)) if f.module != self.module => Expr::Field(Box::new(Expr::Var(plain(acc))), plain(&f.name)),
            _ => Expr::Var(plain(&f.name)),
        }
    }

    fn ctor_ref(&self, adt: usize, name: &str) -> Expr {
        let m = self.adts[adt].module;
        match self.accessors.get(&m) {
            Some(Some(acc)) if m != self.module => Expr::Field(Box::new(Expr::Var(plain(acc))), plain(name)),
            _ => Expr::Ctor(plain(name)),
        }
    }

    /// May the current function mention `f`? A function without return annotation gets its
    /// type from its body, so it may only lean on functions whose type is already settled:
    /// annotated ones, or earlier unannotated ones (no cycle through inferred returns).
    fn usable(&self, f: &FnDef) -> bool {
        let visible = f.module == self.module || self.accessors.contains_key(&f.module);
        let settled = f.ret_annotated || f.module != self.module || (f.index < self.current.0);
        visible && settled
    }

    fn callable_fns(&self, ret: &Ty) -> Vec<FnDef> {
        self.fns.iter().filter(|f| &f.ret == ret && self.usable(f)).cloned().collect()
    }

    /// A bare function name is only usable where no local of that spelling is in scope;
    /// a module-qualified one always is.
    fn reachable_by_name(&self, f: &FnDef) -> bool {
        let qualified = f.module != self.module && matches!(self.accessors.get(&f.module), Some(Some(_)));
        qualified || !self.is_shadowed(&f.name)
    }

    /// A use of the innermost visible local of that spelling, recorded with its declaration
    /// (the printer then knows the range of the use: C19's function-typed locals, C05).
    fn var_expr(&self, name: &str) -> Expr {
        for sc in self.env.iter().rev() {
            for (n, _, d) in sc.iter().rev() {
                if n == name {
                    return Expr::Var(Ident::use_(name, Some(*d), true, "typed-local-use"));
                }
            }
        }
        Expr::Var(plain(name))
    }

    fn is_shadowed(&self, name: &str) -> bool {
        self.lookup(name).is_some()
    }

    fn literal(&mut self, ty: &Ty) -> Option<Expr> {
        Some(match ty {
            Ty::Int => Expr::Int(self.r.pick(&["0", "1", "42"]).to_string()),
            Ty::Float => Expr::Float(self.r.pick(&["1.5", "0.25"]).to_string()),
            Ty::Str => Expr::Str(self.r.pick(&["s", "héllo"]).to_string()),
            Ty::Bool => Expr::Ctor(plain(*self.r.pick(&["True", "False"]))),
            Ty::Nil => Expr::Ctor(plain("Nil")),
            _ => return None,
        })
    }

    fn gen_args(&mut self, params: &[ParamDef], depth: usize, skip_first: bool) -> Vec<Arg> {
        let mut positional = Vec::new();
        let mut labelled = Vec::new();
        for (i, p) in params.iter().enumerate() {
            if skip_first && i == 0 {
                continue;
            }
            let value = self.gen_expr(&p.ty.clone(), depth);
            match &p.label {
                Some(l) if self.r.chance(2, 3) => labelled.push(Arg { label: Some(plain(l)), value }),
                _ => {
                    if labelled.is_empty() {
                        positional.push(Arg { label: None, value });
                    } else {
                        // positional after labelled is not allowed: label it if it has one, else
                        // unlabel the labelled ones collected so far
                        match &p.label {
                            Some(l) => labelled.push(Arg { label: Some(plain(l)), value }),
                            None => {
                                for a in labelled.drain(..) {
                                    positional.push(Arg { label: None, value: a.value });
                                }
                                positional.push(Arg { label: None, value });
                            }
                        }
                    }
                }
            }
        }
        if labelled.len() >= 2 {
            self.r.shuffle(&mut labelled);
            self.feat("labelled-arguments-shuffled");
        }
        positional.extend(labelled);
        positional
    }

    pub fn gen_expr(&mut self, ty: &Ty, depth: usize) -> Expr {
        if depth == 0 {
            return self.gen_atom(ty);
        }
        let k = self.r.below(16);
        match k {
            0 | 1 => self.gen_atom(ty),
            2 | 3 | 4 => {
                // call / pipeline / capture application
                let fns = self.callable_fns(ty);
                let fns: Vec<FnDef> = fns.into_iter().filter(|f| self.reachable_by_name(f)).collect();
                if fns.is_empty() {
                    return self.gen_by_type(ty, depth);
                }
                let f = fns[self.r.below(fns.len())].clone();
                if f.module != self.module {
                    self.feat("call-across-modules");
                }
                if !f.params.is_empty() && f.params[0].label.is_none() && self.r.chance(1, 3) {
                    // pipeline: first argument piped; labelled arguments are avoided in pipes
                    // (known gap: baseline test infer_labelled_pipe)
                    let first = self.gen_expr(&f.params[0].ty.clone(), depth - 1);
                    let rest: Vec<Arg> = f.params.iter().skip(1).map(|p| Arg { label: None, value: self.gen_expr(&p.ty.clone(), depth - 1) }).collect();
                    self.feat("pipeline");
                    let callee = if rest.is_empty() && self.r.chance(1, 2) { self.fn_ref(&f) } else { Expr::Call(Box::new(self.fn_ref(&f)), rest) };
                    return Expr::Pipe(Box::new(first), Box::new(callee));
                }
                let args = self.gen_args(&f.params, depth - 1, false);
                Expr::Call(Box::new(self.fn_ref(&f)), args)
            }
            12 => {
                // `x |> f(a)` where f takes exactly (a) and RETURNS the function x is piped into
                let cands: Vec<FnDef> = self
                    .fns
                    .iter()
                    .filter(|f| matches!(&f.ret, Ty::Fn(ps, r) if ps.len() == 1 && &**r == ty) && self.usable(f) && self.reachable_by_name(f) && f.params.iter().all(|p| p.label.is_none()))
                    .cloned()
                    .collect();
                if cands.is_empty() {
                    return self.gen_by_type(ty, depth);
                }
                let f = cands[self.r.below(cands.len())].clone();
                let Ty::Fn(ps, _) = &f.ret else { unreachable!() };
                let x = self.gen_expr(&ps[0].clone(), depth - 1);
                let args: Vec<Arg> = f.params.iter().map(|p| Arg { label: None, value: self.gen_expr(&p.ty.clone(), depth - 1) }).collect();
                self.feat("pipeline-into-call-returning-a-function");
                Expr::Pipe(Box::new(x), Box::new(Expr::Call(Box::new(self.fn_ref(&f)), args)))
            }
            5 | 6 => self.gen_case(ty, depth),
            7 => self.gen_block(ty, depth),
            8 => {
                // field access on a variable of ADT type with a common field of this type
                let mut cands: Vec<(String, String)> = Vec::new();
                for (n, t) in self.visible_vars() {
                    if let Ty::Adt(i, args) = &t {
                        let a = &self.adts[*i];
                        let env: BTreeMap<String, Ty> = a.params.iter().cloned().zip(args.iter().cloned()).collect();
                        if let Some(v0) = a.variants.first() {
                            for f in &v0.fields {
                                if let Some(l) = &f.label {
                                    let common = a.variants.iter().all(|v| v.fields.iter().any(|g| g.label.as_ref() == Some(l) && g.ty == f.ty));
                                    if common && &subst(&f.ty, &env) == ty {
                                        cands.push((n.clone(), l.clone()));
                                    }
                                }
                            }
                        }
                    }
                }
                if cands.is_empty() {
                    return self.gen_by_type(ty, depth);
                }
                let (n, l) = cands[self.r.below(cands.len())].clone();
                self.feat("field-access");
                Expr::Field(Box::new(self.var_expr(&n)), plain(&l))
            }
            9 => {
                // tuple index
                let mut cands: Vec<(String, u32)> = Vec::new();
                for (n, t) in self.visible_vars() {
                    if let Ty::Tuple(ts) = &t {
                        for (i, x) in ts.iter().enumerate() {
                            if x == ty {
                                cands.push((n.clone(), i as u32));
                            }
                        }
                    }
                }
                if cands.is_empty() {
                    return self.gen_by_type(ty, depth);
                }
                let (n, i) = cands[self.r.below(cands.len())].clone();
                self.feat("tuple-index");
                Expr::TupleIndex(Box::new(self.var_expr(&n)), i)
            }
            10 => {
                // call a function-typed local
                let mut cands: Vec<(String, Vec<Ty>)> = Vec::new();
                for (n, t) in self.visible_vars() {
                    if let Ty::Fn(ps, r) = &t {
                        if &**r == ty {
                            cands.push((n.clone(), ps.clone()));
                        }
                    }
                }
                if cands.is_empty() {
                    return self.gen_by_type(ty, depth);
                }
                let (n, ps) = cands[self.r.below(cands.len())].clone();
                let args = ps.iter().map(|p| Arg { label: None, value: self.gen_expr(p, depth - 1) }).collect();
                self.feat("call-of-function-typed-local");
                Expr::Call(Box::new(self.var_expr(&n)), args)
            }
            11 => {
                // polymorphic helpers at this instantiation
                match self.r.below(3) {
                    0 => {
                        self.feat("polymorphic-id");
                        let x = self.gen_expr(ty, depth - 1);
                        if self.r.chance(1, 3) {
                            self.feat("pipeline-into-polymorphic-helper");
                            Expr::Pipe(Box::new(x), Box::new(Expr::Var(plain("poly_id"))))
                        } else {
                            Expr::Call(Box::new(Expr::Var(plain("poly_id"))), vec![Arg { label: None, value: x }])
                        }
                    }
                    1 => {
                        self.feat("polymorphic-const");
                        let other = self.random_type(0);
                        let x = self.gen_expr(ty, depth - 1);
                        let y = self.gen_expr(&other, 0);
                        if self.r.chance(1, 3) {
                            self.feat("pipeline-into-polymorphic-helper");
                            Expr::Pipe(Box::new(x), Box::new(Expr::Call(Box::new(Expr::Var(plain("poly_first"))), vec![Arg { label: None, value: y }])))
                        } else {
                            Expr::Call(Box::new(Expr::Var(plain("poly_first"))), vec![Arg { label: None, value: x }, Arg { label: None, value: y }])
                        }
                    }
                    _ => {
                        // poly_apply(x, fn(p) { body }) : the lambda's parameter type is fixed by x.
                        // The body may have to look *into* the parameter (index / field), which
                        // only types if the parameter's type is known while the body is inferred.
                        let how = self.r.below(4);
                        let box_adt = self.adts.iter().position(|a| a.name == "Box" && (a.module == self.module || self.accessors.contains_key(&a.module)));
                        let pt = match (how, box_adt) {
                            (0, _) => Ty::Tuple(vec![self.random_type(0), ty.clone()]),
                            (1, Some(b)) => Ty::Adt(b, vec![ty.clone()]),
                            _ => self.random_type(1),
                        };
                        let x = self.gen_expr(&pt, depth - 1);
                        let pn = self.fresh();
                        self.env.push(Vec::new());
                        let pid = self.bind(&pn, &pt, "lambda-param-fixed-by-call-site");
                        let body = match (how, box_adt) {
                            (0, _) => {
                                self.feat("tuple-index-on-lambda-parameter");
                                Expr::TupleIndex(Box::new(self.var_expr(&pn)), 1)
                            }
                            (1, Some(_)) => {
                                self.feat("field-access-on-lambda-parameter");
                                Expr::Field(Box::new(self.var_expr(&pn)), plain("value"))
                            }
                            _ => self.gen_expr(ty, depth - 1),
                        };
                        self.env.pop();
                        self.feat("lambda-argument-typed-by-callee");
                        let lam = Expr::Lambda(vec![Param { label: None, name: ParamName::Name(pid), ty: None }], None, vec![Stmt::Expr(body)]);
                        if self.r.chance(1, 3) {
                            self.feat("pipeline-into-polymorphic-helper-with-lambda");
                            Expr::Pipe(Box::new(x), Box::new(Expr::Call(Box::new(Expr::Var(plain("poly_apply"))), vec![Arg { label: None, value: lam }])))
                        } else {
                            Expr::Call(Box::new(Expr::Var(plain("poly_apply"))), vec![Arg { label: None, value: x }, Arg { label: None, value: lam }])
                        }
                    }
                }
            }
            _ => self.gen_by_type(ty, depth),
        }
    }

    fn gen_atom(&mut self, ty: &Ty) -> Expr {
        let vars = self.vars_of(ty);
        if !vars.is_empty() && self.r.chance(2, 3) {
            let pick = vars[self.r.below(vars.len())].clone();
            return self.var_expr(&pick);
        }
        if let Some(l) = self.literal(ty) {
            return l;
        }
        self.gen_by_type(ty, 0)
    }

    /// Construct a value of the type from its shape.
    fn gen_by_type(&mut self, ty: &Ty, depth: usize) -> Expr {
        let d = depth.saturating_sub(1);
        match ty {
            Ty::Int => {
                if depth > 0 && self.r.chance(1, 2) {
                    let op = *self.r.pick(&[BinOp::Add, BinOp::Sub, BinOp::Mul, BinOp::Div, BinOp::Rem]);
                    self.feat("int-operators");
                    Expr::Bin(op, Box::new(self.gen_expr(&Ty::Int, d)), Box::new(self.gen_expr(&Ty::Int, d)))
                } else {
                    self.literal(ty).unwrap()
                }
            }
            Ty::Float => {
                if depth > 0 && self.r.chance(1, 2) {
                    let op = *self.r.pick(&[BinOp::AddF, BinOp::SubF, BinOp::MulF, BinOp::DivF]);
                    self.feat("float-operators");
                    Expr::Bin(op, Box::new(self.gen_expr(&Ty::Float, d)), Box::new(self.gen_expr(&Ty::Float, d)))
                } else {
                    self.literal(ty).unwrap()
                }
            }
            Ty::Str => {
                if depth > 0 && self.r.chance(1, 2) {
                    self.feat("string-concat");
                    Expr::Bin(BinOp::Concat, Box::new(self.gen_expr(&Ty::Str, d)), Box::new(self.gen_expr(&Ty::Str, d)))
                } else {
                    self.literal(ty).unwrap()
                }
            }
            Ty::Bool => {
                if depth > 0 {
                    match self.r.below(6) {
                        0 => {
                            let op = *self.r.pick(&[BinOp::Lt, BinOp::LtEq, BinOp::Gt, BinOp::GtEq]);
                            self.feat("int-comparison");
                            Expr::Bin(op, Box::new(self.gen_expr(&Ty::Int, d)), Box::new(self.gen_expr(&Ty::Int, d)))
                        }
                        1 => {
                            let op = *self.r.pick(&[BinOp::LtF, BinOp::LtEqF, BinOp::GtF, BinOp::GtEqF]);
                            self.feat("float-comparison");
                            Expr::Bin(op, Box::new(self.gen_expr(&Ty::Float, d)), Box::new(self.gen_expr(&Ty::Float, d)))
                        }
                        2 => {
                            let t = self.random_type(0);
                            self.feat("equality");
                            Expr::Bin(BinOp::Eq, Box::new(self.gen_expr(&t, d)), Box::new(self.gen_expr(&t, d)))
                        }
                        3 => {
                            let t = self.random_type(0);
                            self.feat("inequality");
                            Expr::Bin(BinOp::NotEq, Box::new(self.gen_expr(&t, d)), Box::new(self.gen_expr(&t, d)))
                        }
                        4 => {
                            let op = *self.r.pick(&[BinOp::And, BinOp::Or]);
                            self.feat("boolean-operators");
                            Expr::Bin(op, Box::new(self.gen_expr(&Ty::Bool, d)), Box::new(self.gen_expr(&Ty::Bool, d)))
                        }
                        _ => {
                            self.feat("boolean-negation");
                            Expr::Not(Box::new(self.gen_atom(&Ty::Bool)))
                        }
                    }
                } else {
                    self.literal(ty).unwrap()
                }
            }
            Ty::Nil => Expr::Ctor(plain("Nil")),
            Ty::List(e) => {
                // never empty: `[]` has the principal type List(a), not the target type
                let n = if depth == 0 { 1 } else { self.r.range(1, 3) };
                let elems: Vec<Expr> = (0..n).map(|_| self.gen_expr(e, d)).collect();
                let rests = self.vars_of(ty);
                let tail = if !rests.is_empty() && n > 0 && self.r.chance(1, 3) {
                    self.feat("list-spread-expression");
                    {
                    let pick = rests[self.r.below(rests.len())].clone();
                    Some(Box::new(self.var_expr(&pick)))
                }
                } else {
                    None
                };
                Expr::List(elems, tail)
            }
            Ty::Tuple(ts) => {
                if ts.len() == 2 && depth > 0 && self.r.chance(1, 4) {
                    self.feat("polymorphic-pair");
                    let a = self.gen_expr(&ts[0], d);
                    let b = self.gen_expr(&ts[1], d);
                    if self.r.chance(1, 2) {
                        self.feat("pipeline-into-polymorphic-helper");
                        return Expr::Pipe(Box::new(a), Box::new(Expr::Call(Box::new(Expr::Var(plain("poly_pair"))), vec![Arg { label: None, value: b }])));
                    }
                    return Expr::Call(Box::new(Expr::Var(plain("poly_pair"))), vec![Arg { label: None, value: a }, Arg { label: None, value: b }]);
                }
                Expr::Tuple(ts.iter().map(|t| self.gen_expr(t, d)).collect())
            }
            Ty::Result(a, b) => {
                // `Ok(x)` alone leaves the error type open (principal type Result(T, e)); both
                // sides are pinned by a two-armed case or by the polymorphic helper
                if self.r.chance(1, 2) {
                    self.feat("result-by-polymorphic-helper");
                    Expr::Call(Box::new(Expr::Var(plain("poly_ok"))), vec![Arg { label: None, value: self.gen_expr(a, d) }, Arg { label: None, value: self.gen_expr(b, d) }])
                } else {
                    self.feat("result-by-two-armed-case");
                    let ok = Expr::Call(Box::new(Expr::Ctor(plain("Ok"))), vec![Arg { label: None, value: self.gen_expr(a, d) }]);
                    let err = Expr::Call(Box::new(Expr::Ctor(plain("Error"))), vec![Arg { label: None, value: self.gen_expr(b, d) }]);
                    let (first, second) = if self.r.chance(1, 2) { (ok, err) } else { (err, ok) };
                    let subject = self.gen_expr(&Ty::Bool, 0);
                    Expr::Case(
                        vec![subject],
                        vec![
                            Clause { pats: vec![Pattern::Ctor { module: None, name: plain("True"), args: vec![], spread: false, has_parens: false }], alts: vec![], guard: None, body: first },
                            Clause { pats: vec![Pattern::Discard("_".into())], alts: vec![], guard: None, body: second },
                        ],
                    )
                }
            }
            Ty::Adt(i, args) => {
                let a = self.adts[*i].clone();
                let env: BTreeMap<String, Ty> = a.params.iter().cloned().zip(args.iter().cloned()).collect();
                // prefer non-recursive variants at depth 0
                fn mentions(t: &Ty, p: &str) -> bool {
                    match t {
                        Ty::Var(v) => v == p,
                        Ty::List(e) => mentions(e, p),
                        Ty::Tuple(ts) => ts.iter().any(|x| mentions(x, p)),
                        Ty::Result(x, y) => mentions(x, p) || mentions(y, p),
                        Ty::Fn(ps, r) => ps.iter().any(|x| mentions(x, p)) || mentions(r, p),
                        Ty::Adt(_, args) => args.iter().any(|x| mentions(x, p)),
                        _ => false,
                    }
                }
                // a variant that leaves a type parameter open (`Neither`) has a more general
                // principal type than the target
                let grounded: Vec<VariantDef> = a.variants.iter().filter(|v| a.params.iter().all(|p| v.fields.iter().any(|f| mentions(&f.ty, p)))).cloned().collect();
                let v = grounded[self.r.below(grounded.len())].clone();
                let head = self.ctor_ref(*i, &v.name);
                if v.fields.is_empty() {
                    return head;
                }
                let params: Vec<ParamDef> = v.fields.iter().map(|f| ParamDef { label: f.label.clone(), name: String::new(), ty: subst(&f.ty, &env), annotated: true }).collect();
                let args = self.gen_args(&params, d, false);
                if !a.params.is_empty() {
                    self.feat("generic-custom-type");
                }
                Expr::Call(Box::new(head), args)
            }
            Ty::Fn(ps, r) => {
                // a function of exactly this type: named function, capture, or lambda whose
                // parameter types are forced by use in its body
                let named: Vec<FnDef> = self
                    .fns
                    .iter()
                    .filter(|f| f.params.iter().map(|p| &p.ty).eq(ps.iter()) && &f.ret == &**r && self.usable(f) && self.reachable_by_name(f))
                    .cloned()
                    .collect();
                if !named.is_empty() && self.r.chance(1, 2) {
                    self.feat("function-as-value");
                    let f = named[self.r.below(named.len())].clone();
                    return self.fn_ref(&f);
                }
                // a named function handed to a higher-order helper as a value: `poly_flip(describe)` is the function
                // with the two parameters swapped - also when `describe` declares its parameters with labels
                if ps.len() == 2 {
                    let cands: Vec<FnDef> = self
                        .fns
                        .iter()
                        .filter(|f| f.params.len() == 2 && f.params[0].ty == ps[1] && f.params[1].ty == ps[0] && &f.ret == &**r && self.usable(f) && self.reachable_by_name(f))
                        .cloned()
                        .collect();
                    if !cands.is_empty() && self.r.chance(1, 2) {
                        // labelled ones first: that is where a unifier can go wrong
                        let labelled: Vec<FnDef> = cands.iter().filter(|f| f.params.iter().any(|p| p.label.is_some())).cloned().collect();
                        let pool = if labelled.is_empty() { &cands } else { &labelled };
                        let f = pool[self.r.below(pool.len())].clone();
                        self.feat(if labelled.is_empty() { "function-value-through-higher-order-helper" } else { "labelled-function-value-through-higher-order-helper" });
                        return Expr::Call(Box::new(Expr::Var(plain("poly_flip"))), vec![Arg { label: None, value: self.fn_ref(&f) }]);
                    }
                }
                // capture: g(_, x) for a function with one more parameter
                if ps.len() == 1 && depth > 0 {
                    let cands: Vec<FnDef> = self
                        .fns
                        .iter()
                        .filter(|f| f.params.len() == 2 && f.params[0].ty == ps[0] && &f.ret == &**r && f.params.iter().all(|p| p.label.is_none()) && self.usable(f) && self.reachable_by_name(f))
                        .cloned()
                        .collect();
                    if !cands.is_empty() && self.r.chance(1, 2) {
                        let f = cands[self.r.below(cands.len())].clone();
                        let second = self.gen_expr(&f.params[1].ty.clone(), d);
                        self.feat("capture");
                        return Expr::Call(Box::new(self.fn_ref(&f)), vec![Arg { label: None, value: Expr::Hole("_".into()) }, Arg { label: None, value: second }]);
                    }
                }
                // lambda: parameters are forced by `poly_typed(param, witness)` style use: we
                // bind each parameter by comparing it with a value of its type in a discarded let
                let witnesses: Vec<Expr> = ps.iter().map(|p| self.gen_expr(p, 0)).collect();
                let mut wit_names: Vec<String> = Vec::new();
                for w in &witnesses {
                    expr_names(w, &mut wit_names);
                }
                self.env.push(Vec::new());
                let mut params = Vec::new();
                let mut stmts = Vec::new();
                let mut used: Vec<String> = Vec::new();
                for (p, witness) in ps.iter().zip(witnesses) {
                    let mut n = self.fresh();
                    // the witness refers to the outer scope: parameters must not capture its names
                    let mut tries = 0;
                    while (used.contains(&n) || wit_names.contains(&n)) && tries < 200 {
                        n = self.fresh();
                        tries += 1;
                    }
                    used.push(n.clone());
                    let id = self.bind(&n, p, "lambda-param-forced-by-use");
                    params.push(Param { label: None, name: ParamName::Name(id), ty: None });
                    // `let _ = [param, witness]` unifies the parameter with the witness type
                    stmts.push(Stmt::Let { assert: false, pat: Pattern::Discard("_".into()), ann: None, value: Expr::List(vec![self.var_expr(&n), witness], None) });
                }
                let body = self.gen_expr(r, d);
                stmts.push(Stmt::Expr(body));
                self.env.pop();
                self.feat("lambda");
                Expr::Lambda(params, None, stmts)
            }
            Ty::Var(_) => Expr::Int("0".into()),
        }
    }

    fn gen_block(&mut self, ty: &Ty, depth: usize) -> Expr {
        Expr::Block(self.gen_stmts(ty, depth))
    }

    pub fn gen_stmts(&mut self, ty: &Ty, depth: usize) -> Vec<Stmt> {
        self.env.push(Vec::new());
        let n = self.r.below(3);
        let mut out = Vec::new();
        for _ in 0..n {
            match self.r.below(6) {
                0 if depth > 0 => {
                    // use: `use v <- poly_apply(x)`; the rest of the block is the callback
                    let pt = self.random_type(1);
                    let x = self.gen_expr(&pt, depth.saturating_sub(1));
                    let name = self.fresh();
                    let id = self.bind(&name, &pt, "use-binder");
                    self.feat("use");
                    out.push(Stmt::Use { pats: vec![(Pattern::Var(id), None)], call: Expr::Call(Box::new(Expr::Var(plain("poly_apply"))), vec![Arg { label: None, value: x }]) });
                }
                1 => {
                    // destructuring let
                    let st = self.random_type(2);
                    let value = self.gen_expr(&st, depth.saturating_sub(1));
                    let mut binds = Vec::new();
                    let pat = self.gen_pattern(&st, 2, &mut binds, "let-pattern-variable");
                    for (n, t, id) in binds {
                        self.env.last_mut().unwrap().push((n, t, id));
                    }
                    self.feat("let-pattern");
                    out.push(Stmt::Let { assert: !matches!(pat, Pattern::Var(_) | Pattern::Discard(_) | Pattern::Tuple(_)), pat, ann: None, value });
                }
                _ => {
                    let vt = self.random_type(2);
                    let value = self.gen_expr(&vt, depth.saturating_sub(1));
                    let name = self.fresh();
                    let id = self.bind(&name, &vt, "let-variable");
                    // an annotation equal to the actual type (aliases: see module level)
                    out.push(Stmt::Let { assert: false, pat: Pattern::Var(id), ann: None, value });
                }
            }
        }
        // `let _ = todo as f(x)` / `panic as f(x)`: the message is an expression like any other - a
        // function-typed local called in it is still a function-typed local (highlighting, navigation)
        if self.r.chance(1, 4) {
            let mut cands: Vec<(String, Vec<Ty>)> = Vec::new();
            for (n, t) in self.visible_vars() {
                if let Ty::Fn(ps, r) = &t {
                    if **r == Ty::Str {
                        cands.push((n.clone(), ps.clone()));
                    }
                }
            }
            if !cands.is_empty() {
                let (n, ps) = cands[self.r.below(cands.len())].clone();
                let args = ps.iter().map(|p| Arg { label: None, value: self.gen_atom(p) }).collect();
                let call = Expr::Call(Box::new(self.var_expr(&n)), args);
                self.feat("function-typed-local-called-in-a-todo-or-panic-message");
                let value = if self.r.chance(1, 2) { Expr::Todo(Some(Box::new(call))) } else { Expr::Panic(Some(Box::new(call))) };
                out.push(Stmt::Let { assert: false, pat: Pattern::Discard("_".into()), ann: None, value });
            }
        }
        out.push(Stmt::Expr(self.gen_expr(ty, depth.saturating_sub(1))));
        self.env.pop();
        out
    }

    /// Pattern for a subject of type `st`. Bindings are returned (and NOT yet in scope).
    fn gen_pattern(&mut self, st: &Ty, depth: usize, binds: &mut Vec<(String, Ty, DeclId)>, what: &'static str) -> Pattern {
        let mut var = |g: &mut G, t: &Ty, binds: &mut Vec<(String, Ty, DeclId)>| -> Pattern {
            let used: Vec<String> = binds.iter().map(|b| b.0.clone()).collect();
            let mut n = g.fresh();
            let mut tries = 0;
            while used.contains(&n) && tries < 20 {
                n = g.fresh();
                tries += 1;
            }
            if used.contains(&n) {
                return Pattern::Discard("_".into());
            }
            let d = *g.next_decl;
            *g.next_decl += 1;
            g.exps.push(Expectation { module: g.module, decl: d, what, ty: show(t, g.adts), is_function: false });
            binds.push((n.clone(), t.clone(), d));
            Pattern::Var(Ident::decl(n, d))
        };
        if depth == 0 || self.r.chance(1, 3) {
            return if self.r.chance(3, 4) { var(self, st, binds) } else { Pattern::Discard("_".into()) };
        }
        let p = match st {
            Ty::Int => Pattern::Int("1".into()),
            Ty::Float => Pattern::Float("1.5".into()),
            Ty::Str => {
                if self.r.chance(1, 2) {
                    self.feat("string-prefix-pattern");
                    let rest = var(self, &Ty::Str, binds);
                    Pattern::StrPrefix("pre".into(), Box::new(rest))
                } else {
                    Pattern::Str("s".into())
                }
            }
            Ty::Bool => Pattern::Ctor { module: None, name: plain(*self.r.pick(&["True", "False"])), args: vec![], spread: false, has_parens: false },
            Ty::Nil => Pattern::Ctor { module: None, name: plain("Nil"), args: vec![], spread: false, has_parens: false },
            Ty::List(e) => {
                let n = self.r.below(3);
                let elems: Vec<Pattern> = (0..n).map(|_| self.gen_pattern(e, depth - 1, binds, what)).collect();
                let tail = match self.r.below(3) {
                    0 => None,
                    1 => Some(None),
                    _ => {
                        self.feat("list-spread-pattern");
                        match var(self, st, binds) {
                            Pattern::Var(id) => Some(Some(id)),
                            _ => Some(None),
                        }
                    }
                };
                Pattern::List(elems, tail)
            }
            Ty::Tuple(ts) => Pattern::Tuple(ts.iter().map(|t| self.gen_pattern(t, depth - 1, binds, what)).collect()),
            Ty::Result(a, b) => {
                if self.r.chance(1, 2) {
                    Pattern::Ctor { module: None, name: plain("Ok"), args: vec![(None, self.gen_pattern(a, depth - 1, binds, what))], spread: false, has_parens: true }
                } else {
                    Pattern::Ctor { module: None, name: plain("Error"), args: vec![(None, self.gen_pattern(b, depth - 1, binds, what))], spread: false, has_parens: true }
                }
            }
            Ty::Adt(i, args) => {
                let a = self.adts[*i].clone();
                let env: BTreeMap<String, Ty> = a.params.iter().cloned().zip(args.iter().cloned()).collect();
                let v = a.variants[self.r.below(a.variants.len())].clone();
                let spread = !v.fields.is_empty() && self.r.chance(1, 4);
                // `..` with every field supplied is an error in Gleam (unnecessary spread)
                let nf = if spread { self.r.below(v.fields.len()) } else { v.fields.len() };
                // with `..`, keep a prefix of positional fields, then labelled ones
                let mut fargs = Vec::new();
                let mut labelled = Vec::new();
                for f in v.fields.iter().take(nf) {
                    let ft = subst(&f.ty, &env);
                    let p = self.gen_pattern(&ft, depth - 1, binds, what);
                    match &f.label {
                        Some(l) if self.r.chance(2, 3) => labelled.push((Some(plain(l)), p)),
                        Some(l) if !labelled.is_empty() => labelled.push((Some(plain(l)), p)),
                        _ => {
                            if labelled.is_empty() {
                                fargs.push((None, p));
                            } else {
                                for (_, q) in labelled.drain(..) {
                                    fargs.push((None, q));
                                }
                                fargs.push((None, p));
                            }
                        }
                    }
                }
                if labelled.len() >= 2 {
                    self.r.shuffle(&mut labelled);
                    self.feat("labelled-pattern-fields-shuffled");
                }
                fargs.extend(labelled);
                let m = a.module;
                let module = match self.accessors.get(&m) {
                    Some(Some(acc)) if m != self.module => {
                        self.feat("qualified-constructor-pattern");
                        Some(plain(acc))
                    }
                    _ => None,
                };
                Pattern::Ctor { module, name: plain(&v.name), args: fargs, spread, has_parens: !v.fields.is_empty() }
            }
            Ty::Fn(..) | Ty::Var(_) => var(self, st, binds),
        };
        if self.r.chance(1, 6) && !matches!(p, Pattern::Var(_)) {
            self.feat("as-pattern");
            match var(self, st, binds) {
                Pattern::Var(id) => Pattern::As(Box::new(p), id),
                _ => p,
            }
        } else {
            p
        }
    }

    fn gen_case(&mut self, ty: &Ty, depth: usize) -> Expr {
        let nsub = if self.r.chance(1, 4) { 2 } else { 1 };
        if nsub == 2 {
            self.feat("case-several-subjects");
        }
        let stys: Vec<Ty> = (0..nsub).map(|_| self.random_type(2)).collect();
        let subjects: Vec<Expr> = stys.iter().map(|t| self.gen_expr(t, depth - 1)).collect();
        let nclauses = self.r.range(1, 3);
        let mut clauses = Vec::new();
        for _ in 0..nclauses {
            let mut binds = Vec::new();
            let pats: Vec<Pattern> = stys.iter().map(|t| self.gen_pattern(t, 2, &mut binds, "clause-variable")).collect();
            self.env.push(binds.iter().map(|(n, t, d)| (n.clone(), t.clone(), *d)).collect());
            let body = self.gen_expr(ty, depth - 1);
            self.env.pop();
            clauses.push(Clause { pats, alts: vec![], guard: None, body });
        }
        // catch-all
        clauses.push(Clause { pats: stys.iter().map(|_| Pattern::Discard("_".into())).collect(), alts: vec![], guard: None, body: self.gen_expr(ty, depth - 1) });
        self.feat("case");
        Expr::Case(subjects, clauses)
    }
}

/// Every lower-case name mentioned in an expression (over-approximation of its free variables).
fn expr_names(e: &Expr, out: &mut Vec<String>) {
    let mut o = String::new();
    sexp_expr(e, &mut o);
    for w in o.split(|c: char| !(c.is_ascii_alphanumeric() || c == '_')) {
        if w.chars().next().map(|c| c.is_ascii_lowercase()).unwrap_or(false) && !out.iter().any(|x| x == w) {
            out.push(w.to_string());
        }
    }
}

fn ty_to_expr(t: &Ty, adts: &[AdtDef], module: usize, accessors: &BTreeMap<usize, Option<String>>, alias: Option<(&Ty, &str)>) -> TypeExpr {
    if let Some((at, name)) = alias {
        if at == t {
            return TypeExpr::Named { module: None, name: plain(name), args: vec![] };
        }
        // parametrised alias `Pairs<m>(a, b) = List(#(b, a))`: arguments in swapped order
        if let Ty::List(e) = t {
            if let Ty::Tuple(ts) = &**e {
                if ts.len() == 2 {
                    let gname = name.replace("Rows", "Pairs");
                    return TypeExpr::Named { module: None, name: plain(&gname), args: vec![ty_to_expr(&ts[1], adts, module, accessors, alias), ty_to_expr(&ts[0], adts, module, accessors, alias)] };
                }
            }
        }
    }
    let named = |n: &str, args: Vec<TypeExpr>| TypeExpr::Named { module: None, name: plain(n), args };
    match t {
        Ty::Int => named("Int", vec![]),
        Ty::Float => named("Float", vec![]),
        Ty::Str => named("String", vec![]),
        Ty::Bool => named("Bool", vec![]),
        Ty::Nil => named("Nil", vec![]),
        Ty::List(e) => named("List", vec![ty_to_expr(e, adts, module, accessors, alias)]),
        Ty::Tuple(ts) => TypeExpr::Tuple(ts.iter().map(|x| ty_to_expr(x, adts, module, accessors, alias)).collect()),
        Ty::Result(a, b) => named("Result", vec![ty_to_expr(a, adts, module, accessors, alias), ty_to_expr(b, adts, module, accessors, alias)]),
        Ty::Fn(ps, r) => TypeExpr::Fn(ps.iter().map(|x| ty_to_expr(x, adts, module, accessors, alias)).collect(), Box::new(ty_to_expr(r, adts, module, accessors, alias))),
        Ty::Adt(i, args) => {
            let a = &adts[*i];
            let targs = args.iter().map(|x| ty_to_expr(x, adts, module, accessors, alias)).collect();
            match accessors.get(&a.module) {
                Some(Some(acc)) if a.module != module => TypeExpr::Named { module: Some(plain(acc)), name: plain(&a.name), args: targs },
                _ => TypeExpr::Named { module: None, name: plain(&a.name), args: targs },
            }
        }
        Ty::Var(v) => TypeExpr::Var(v.clone()),
    }
}

/// Spell some `Int`s of a type expression through the module's alias `Num<m> = Int`
/// (transparent for every type shown; the alias is met INSIDE another definition, with other
/// names of the defining module before and after it).
fn alias_some_ints(te: &mut TypeExpr, alias: &str, r: &mut Rng) -> bool {
    match te {
        TypeExpr::Named { module: None, name, args } if args.is_empty() && name.text == "Int" => {
            if r.chance(1, 2) {
                *name = plain(alias);
                return true;
            }
            false
        }
        TypeExpr::Named { args, .. } => {
            let mut any = false;
            for a in args.iter_mut() {
                any |= alias_some_ints(a, alias, r);
            }
            any
        }
        TypeExpr::Tuple(ts) => {
            let mut any = false;
            for a in ts.iter_mut() {
                any |= alias_some_ints(a, alias, r);
            }
            any
        }
        TypeExpr::Fn(ps, ret) => {
            let mut any = false;
            for a in ps.iter_mut() {
                any |= alias_some_ints(a, alias, r);
            }
            any | alias_some_ints(ret, alias, r)
        }
        _ => false,
    }
}

/// Polymorphic helpers with hand-written signatures (compared up to renaming).
pub const POLY_LIB: &[(&str, &str, &str)] = &[
    ("poly_id", "fn poly_id($1) { $1 }", "fn(a) -> a"),
    ("poly_first", "fn poly_first($1, $2) { let _ = $2 $1 }", "fn(a, b) -> a"),
    ("poly_pair", "fn poly_pair($1, $2) { #($1, $2) }", "fn(a, b) -> #(a, b)"),
    ("poly_apply", "fn poly_apply($1, $2) { $2($1) }", "fn(a, fn(a) -> b) -> b"),
    ("poly_compose", "fn poly_compose($1, $2) { fn($3) { $2($1($3)) } }", "fn(fn(a) -> b, fn(b) -> c) -> fn(a) -> c"),
    ("poly_swap", "fn poly_swap($1) { let #($2, $3) = $1 #($3, $2) }", "fn(#(a, b)) -> #(b, a)"),
    ("poly_even", "fn poly_even($1, $2, $3) { case $1 { 0 -> $2 _ -> poly_odd($1 - 1, $2, $3) } }", "fn(Int, a, a) -> a"),
    ("poly_odd", "fn poly_odd($1, $2, $3) { case $1 { 0 -> $3 _ -> poly_even($1 - 1, $3, $2) } }", "fn(Int, a, a) -> a"),
    ("poly_wrap", "fn poly_wrap($1) { [$1] }", "fn(a) -> List(a)"),
    // a recursion group of three whose members mix two type variables asymmetrically: the
    // variables must stay apart in every member's signature
    // ... and one where the last member introduces a variable of its own (from `[]`) next to
    // the shared one: it must not be given the shared one's letter
    ("poly_loop1", "fn poly_loop1($1, $2) { case $2 { 0 -> $1 _ -> poly_loop2($1, $2 - 1) } }", "fn(a, Int) -> a"),
    ("poly_loop2", "fn poly_loop2($1, $2) { let _ = poly_loop3($1, $2) $1 }", "fn(a, Int) -> a"),
    ("poly_loop3", "fn poly_loop3($1, $2) { let $3 = #(poly_loop1($1, $2), []) $3 }", "fn(a, Int) -> #(a, List(b))"),
    ("poly_ring1", "fn poly_ring1($1, $2, $3) { case $1 { 0 -> #($2, [$3]) _ -> poly_ring2($1 - 1, $2, $3) } }", "fn(Int, a, b) -> #(a, List(b))"),
    ("poly_ring2", "fn poly_ring2($1, $2, $3) { case $1 { 0 -> #($2, []) _ -> poly_ring3($1 - 1, $2, $3) } }", "fn(Int, a, b) -> #(a, List(b))"),
    ("poly_ring3", "fn poly_ring3($1, $2, $3) { let $2 = #($2, []) poly_ring1($1, $2.0, $3) }", "fn(Int, a, b) -> #(a, List(b))"),
    ("poly_ok", "fn poly_ok($1, $2) { case True { True -> Ok($1) False -> Error($2) } }", "fn(a, b) -> Result(a, b)"),
    ("poly_flip", "fn poly_flip($1) { fn($2, $3) { $1($3, $2) } }", "fn(fn(a, b) -> c) -> fn(b, a) -> c"),
    // a type variable that first appears in an annotation *after* un-annotated parameters is a variable of its own
    ("poly_later", "fn poly_later($1, $2) -> fn(a) -> Int { let _ = $1 let _ = $2 fn(_) { 1 } }", "fn(a, b) -> fn(c) -> Int"),
    // `use` with the call's own arguments labelled and written in another order than declared
    // (the labelled definition itself is not judged: empty signature)
    ("poly_fold", "fn poly_fold(over $1: List(a), from $2: b, with $3: fn(b, a) -> b) -> b { let _ = $1 let _ = $3 $2 }", ""),
    ("poly_sum", "fn poly_sum() { use $1, $2 <- poly_fold(from: 0, over: [1.5]) let _ = $2 $1 }", "fn() -> Int"),
    ("poly_sum2", "fn poly_sum2() { use $1, $2 <- poly_fold(over: [\"s\"], from: 0.5) let _ = $2 $1 }", "fn() -> Float"),
];

/// Instantiate a helper's binder names: ordinary names, or (one time in three each) the
/// name of a top-level function, which the binder then shadows inside the helper.
fn instantiate_helper(r: &mut Rng, src: &str) -> (String, bool) {
    let plain_names = ["x", "y", "f", "g", "n", "p", "q"];
    let mut chosen: Vec<String> = Vec::new();
    let mut shadows = false;
    for _ in 0..3 {
        loop {
            let (n, is_fn) = if r.chance(1, 3) { (FN_NAMES[r.below(FN_NAMES.len())].to_string(), true) } else { (plain_names[r.below(plain_names.len())].to_string(), false) };
            if !chosen.contains(&n) {
                shadows |= is_fn;
                chosen.push(n);
                break;
            }
        }
    }
    (src.replace("$1", &chosen[0]).replace("$2", &chosen[1]).replace("$3", &chosen[2]), shadows)
}

pub fn generate(r: &mut Rng) -> TypedWorkspace {
    let nmods = r.range(1, 3);
    let names = ["t0", "t1", "lib/t2"];
    // ADTs (module 0 holds the shared ones; others may add their own)
    let mut adts: Vec<AdtDef> = vec![
        AdtDef { name: "Shape".into(), module: 0, params: vec![], variants: vec![
            VariantDef { name: "Circle".into(), fields: vec![FieldDef { label: Some("size".into()), ty: Ty::Float }, FieldDef { label: Some("name".into()), ty: Ty::Str }] },
            VariantDef { name: "Square".into(), fields: vec![FieldDef { label: Some("name".into()), ty: Ty::Str }, FieldDef { label: Some("side".into()), ty: Ty::Int }] },
        ] },
        AdtDef { name: "Box".into(), module: 0, params: vec!["a".into()], variants: vec![VariantDef { name: "Box".into(), fields: vec![FieldDef { label: Some("value".into()), ty: Ty::Var("a".into()) }, FieldDef { label: Some("tag".into()), ty: Ty::Int }] }] },
        AdtDef { name: "Pair".into(), module: 0, params: vec!["a".into(), "b".into()], variants: vec![
            VariantDef { name: "Pair".into(), fields: vec![FieldDef { label: None, ty: Ty::Var("a".into()) }, FieldDef { label: None, ty: Ty::Var("b".into()) }] },
            VariantDef { name: "Neither".into(), fields: vec![] },
        ] },
        AdtDef { name: "Colour".into(), module: 0, params: vec![], variants: vec![VariantDef { name: "Red".into(), fields: vec![] }, VariantDef { name: "Green".into(), fields: vec![] }] },
    ];
    if nmods >= 2 {
        adts.push(AdtDef { name: "Local".into(), module: 1, params: vec![], variants: vec![VariantDef { name: "Local".into(), fields: vec![FieldDef { label: None, ty: Ty::Int }, FieldDef { label: Some("inner".into()), ty: Ty::Adt(0, vec![]) }] }] });
    }
    // function signatures first (forward references, recursion groups)
    let mut next_decl = 0usize;
    let mut fns: Vec<FnDef> = Vec::new();
    let mut exps: Vec<Expectation> = Vec::new();
    let mut features: Vec<&'static str> = Vec::new();
    let fnames = FN_NAMES;
    let labels = ["with", "to", "size", "name"];
    let mut fi = 0;
    for mi in 0..nmods {
        let nf = r.range(2, 5);
        for _ in 0..nf {
            if fi >= fnames.len() {
                break;
            }
            // signature types may only mention ADTs visible from this module's lower modules
            let visible_adts: Vec<usize> = adts.iter().enumerate().filter(|(_, a)| a.module <= mi).map(|(i, _)| i).collect();
            let sig_acc: BTreeMap<usize, Option<String>> = (0..mi).map(|j| (j, None)).collect();
            let mut tmp_feat = Vec::new();
            let mut dummy_exps = Vec::new();
            let mut nd = 0usize;
            let mut g = G { r, adts: &adts, fns: &[], module: mi, next_decl: &mut nd, exps: &mut dummy_exps, features: &mut tmp_feat, env: vec![], accessors: &sig_acc, counter: 0, current: (0, true) };
            let mut pick_ty = |g: &mut G, depth: usize| -> Ty {
                loop {
                    let t = g.random_type(depth);
                    fn ok(t: &Ty, vis: &[usize]) -> bool {
                        match t {
                            Ty::Adt(i, args) => vis.contains(i) && args.iter().all(|a| ok(a, vis)),
                            Ty::List(e) => ok(e, vis),
                            Ty::Tuple(ts) => ts.iter().all(|a| ok(a, vis)),
                            Ty::Result(a, b) => ok(a, vis) && ok(b, vis),
                            Ty::Fn(ps, r) => ps.iter().all(|a| ok(a, vis)) && ok(r, vis),
                            _ => true,
                        }
                    }
                    if ok(&t, &visible_adts) {
                        return t;
                    }
                }
            };
            let np = g.r.below(4);
            let mut params = Vec::new();
            let mut used_labels: Vec<&str> = Vec::new();
            let mut used_names: Vec<String> = Vec::new();
            for _ in 0..np {
                let ty = if g.r.chance(1, 6) { Ty::List(Box::new(Ty::Tuple(vec![pick_ty(&mut g, 0), pick_ty(&mut g, 0)]))) } else { pick_ty(&mut g, 2) };
                let label = if g.r.chance(1, 3) {
                    let l = labels[g.r.below(labels.len())];
                    if used_labels.contains(&l) {
                        None
                    } else {
                        used_labels.push(l);
                        Some(l.to_string())
                    }
                } else {
                    None
                };
                let mut name = g.fresh();
                while used_names.contains(&name) {
                    name = g.fresh();
                }
                used_names.push(name.clone());
                // unannotated parameters only for types an operator can force
                let forceable = matches!(ty, Ty::Int | Ty::Float | Ty::Str | Ty::Bool);
                let annotated = !(forceable && g.r.chance(1, 3));
                params.push(ParamDef { label, name, ty, annotated });
            }
            // Gleam wants unlabelled parameters before labelled ones
            params.sort_by_key(|p: &ParamDef| p.label.is_some());
            let ret = if g.r.chance(1, 8) { Ty::Fn(vec![pick_ty(&mut g, 0)], Box::new(pick_ty(&mut g, 1))) } else { pick_ty(&mut g, 2) };
            let decl = next_decl;
            next_decl += 1;
            let ret_annotated = g.r.chance(1, 2);
            fns.push(FnDef { name: fnames[fi].to_string(), module: mi, params, ret, ret_annotated, index: fi, decl });
            fi += 1;
        }
    }
    // imports: module i imports lower modules; qualified (maybe aliased) or unqualified
    let mut modules: Vec<Module> = Vec::new();
    let mut texts = Vec::new();
    let mut printed_all = Vec::new();
    let mut poly = Vec::new();
    let mut dot_probes: Vec<DotProbe> = Vec::new();
    for mi in 0..nmods {
        let mut accessors: BTreeMap<usize, Option<String>> = BTreeMap::new();
        let mut items: Vec<Item> = Vec::new();
        for j in 0..mi {
            let style = r.below(3);
            let path: Vec<String> = names[j].split('/').map(|s| s.to_string()).collect();
            let last = path.last().unwrap().clone();
            match style {
                0 => {
                    accessors.insert(j, Some(last));
                    items.push(Item { attrs: vec![], doc: vec![], kind: ItemKind::Import(Import { path, alias: None, members: vec![], has_braces: false }) });
                }
                1 => {
                    let al = format!("q{j}");
                    accessors.insert(j, Some(al.clone()));
                    items.push(Item { attrs: vec![], doc: vec![], kind: ItemKind::Import(Import { path, alias: Some(al), members: vec![], has_braces: false }) });
                }
                _ => {
                    // unqualified import of everything public we may use from there
                    accessors.insert(j, None);
                    let mut members = Vec::new();
                    for f in fns.iter().filter(|f| f.module == j) {
                        members.push(ImportMember { is_type: false, name: plain(&f.name), alias: None });
                    }
                    for a in adts.iter().filter(|a| a.module == j) {
                        members.push(ImportMember { is_type: true, name: plain(&a.name), alias: None });
                        for v in &a.variants {
                            members.push(ImportMember { is_type: false, name: plain(&v.name), alias: None });
                        }
                    }
                    items.push(Item { attrs: vec![], doc: vec![], kind: ItemKind::Import(Import { path, alias: None, members, has_braces: true }) });
                }
            }
        }
        // ADT items of this module
        let mut body_items: Vec<Item> = Vec::new();
        let num_alias = format!("Num{mi}");
        body_items.push(Item { attrs: vec![], doc: vec![], kind: ItemKind::Alias(Alias { public: true, name: plain(&num_alias), params: vec![], ty: TypeExpr::Named { module: None, name: plain("Int"), args: vec![] } }) });
        for a in adts.iter().filter(|a| a.module == mi) {
            let mut variants = Vec::new();
            for v in &a.variants {
                let mut fields = Vec::new();
                for f in &v.fields {
                    let mut ty = ty_to_expr(&f.ty, &adts, mi, &accessors, None);
                    if alias_some_ints(&mut ty, &num_alias, r) && !features.contains(&"alias-inside-constructor-fields") {
                        features.push("alias-inside-constructor-fields");
                    }
                    fields.push(Field { label: f.label.as_ref().map(|l| plain(l)), ty, decl: None });
                }
                variants.push(Variant { name: plain(&v.name), fields, has_parens: !v.fields.is_empty(), doc: None });
            }
            body_items.push(Item { attrs: vec![], doc: vec![], kind: ItemKind::Adt(Adt { public: true, opaque: false, name: plain(&a.name), params: a.params.clone(), variants, has_body: true }) });
        }
        // an alias used in annotations of this module
        let alias_ty = Ty::List(Box::new(Ty::Tuple(vec![Ty::Int, Ty::Str])));
        let alias_name = format!("Rows{mi}");
        let mut rows_body = ty_to_expr(&alias_ty, &adts, mi, &accessors, None);
        alias_some_ints(&mut rows_body, &num_alias, r);
        body_items.push(Item { attrs: vec![], doc: vec![], kind: ItemKind::Alias(Alias { public: true, name: plain(&alias_name), params: vec![], ty: rows_body }) });
        // a parametrised alias whose parameters appear in swapped order in its body
        let galias_ty = Ty::List(Box::new(Ty::Tuple(vec![Ty::Var("b".into()), Ty::Var("a".into())])));
        body_items.push(Item { attrs: vec![], doc: vec![], kind: ItemKind::Alias(Alias { public: true, name: plain(&format!("Pairs{mi}")), params: vec!["a".into(), "b".into()], ty: ty_to_expr(&galias_ty, &adts, mi, &accessors, None) }) });
        // functions
        let my_fns: Vec<FnDef> = fns.iter().filter(|f| f.module == mi).cloned().collect();
        for f in &my_fns {
            let mut g = G { r, adts: &adts, fns: &fns, module: mi, next_decl: &mut next_decl, exps: &mut exps, features: &mut features, env: vec![Vec::new()], accessors: &accessors, counter: 0, current: (f.index, f.ret_annotated) };
            let mut params = Vec::new();
            let mut forcing: Vec<Stmt> = Vec::new();
            for p in &f.params {
                let id = g.bind(&p.name, &p.ty, if p.annotated { "parameter-annotated" } else { "parameter-forced-by-operator" });
                let is_pairs = matches!(&p.ty, Ty::List(e) if matches!(&**e, Ty::Tuple(ts) if ts.len() == 2));
                let use_alias = p.ty == alias_ty || (is_pairs && g.r.chance(2, 3));
                if use_alias {
                    g.feat(if p.ty == alias_ty { "alias-in-annotation" } else { "parametrised-alias-in-annotation" });
                }
                let ty = if p.annotated { Some(ty_to_expr(&p.ty, &adts, mi, &accessors, if use_alias { Some((&alias_ty, alias_name.as_str())) } else { None })) } else { None };
                if !p.annotated {
                    let v = g.var_expr(&p.name);
                    let e = match p.ty {
                        Ty::Int => Expr::Bin(BinOp::Add, Box::new(v), Box::new(Expr::Int("1".into()))),
                        Ty::Float => Expr::Bin(BinOp::AddF, Box::new(v), Box::new(Expr::Float("1.5".into()))),
                        Ty::Str => Expr::Bin(BinOp::Concat, Box::new(v), Box::new(Expr::Str("s".into()))),
                        _ => Expr::List(vec![v, Expr::Ctor(plain("True"))], None),
                    };
                    forcing.push(Stmt::Let { assert: false, pat: Pattern::Discard("_".into()), ann: None, value: e });
                }
                params.push(Param { label: p.label.clone(), name: ParamName::Name(id), ty });
            }
            let depth = g.r.range(1, 3);
            let mut body = forcing;
            body.extend(g.gen_stmts(&f.ret, depth));
            crate::gen::normalise_stmts(&mut body);
            let annotate_ret = f.ret_annotated;
            let ret = if annotate_ret { Some(ty_to_expr(&f.ret, &adts, mi, &accessors, if f.ret == alias_ty || matches!(&f.ret, Ty::List(e) if matches!(&**e, Ty::Tuple(ts) if ts.len() == 2)) { Some((&alias_ty, alias_name.as_str())) } else { None })) } else { None };
            let sig = format!("fn {}({}) -> {}", f.name, f.params.iter().map(|p| show(&p.ty, &adts)).collect::<Vec<_>>().join(", "), show(&f.ret, &adts));
            exps.push(Expectation { module: mi, decl: f.decl, what: "function", ty: sig, is_function: true });
            body_items.push(Item { attrs: vec![], doc: vec![], kind: ItemKind::Func(Func { public: true, name: Ident::decl(f.name.clone(), f.decl), params, ret, body: Some(body) }) });
        }
        r.shuffle(&mut body_items);
        items.extend(body_items);
        let m = Module { name: names[mi].to_string(), header_doc: vec![], items };
        let mode = if r.chance(1, 2) { Trivia::Wild } else { Trivia::Plain };
        let p = print_module(&m, Some(r), mode, false);
        // polymorphic library appended as plain text, in random order
        let mut lib: Vec<&(&str, &str, &str)> = POLY_LIB.iter().collect();
        r.shuffle(&mut lib);
        let mut text = p.text.clone();
        if !text.ends_with('\n') {
            text.push('\n');
        }
        for (name, src, sig) in lib {
            let (src, shadows) = instantiate_helper(r, src);
            if shadows {
                if !features.contains(&"helper-binder-named-like-a-function") {
                    features.push("helper-binder-named-like-a-function");
                }
            }
            text.push('\n');
            text.push_str(&src);
            text.push('\n');
            if !sig.is_empty() {
                poly.push(PolyExpectation { module: mi, name: name.to_string(), sig: sig.to_string() });
            }
        }
        // `value.` probes for the custom types this module defines (module 0: base types too)
        let mut probe_types: Vec<Ty> = Vec::new();
        for (ai, a) in adts.iter().enumerate() {
            if a.module == mi {
                let args: Vec<Ty> = a.params.iter().enumerate().map(|(k, _)| if k % 2 == 0 { Ty::Int } else { Ty::Str }).collect();
                probe_types.push(Ty::Adt(ai, args));
            }
        }
        if mi == 0 {
            probe_types.extend([Ty::Int, Ty::Str, Ty::List(Box::new(Ty::Int)), Ty::Tuple(vec![Ty::Int, Ty::Str]), Ty::Fn(vec![Ty::Int], Box::new(Ty::Int))]);
        }
        for (k, pt) in probe_types.iter().enumerate() {
            let expected: Vec<String> = match pt {
                Ty::Adt(ai, _) => {
                    let a = &adts[*ai];
                    let mut v: Vec<String> = Vec::new();
                    if let Some(first) = a.variants.first() {
                        for f in &first.fields {
                            if let Some(l) = &f.label {
                                if a.variants.iter().all(|vv| vv.fields.iter().any(|g| g.label.as_ref() == Some(l) && g.ty == f.ty)) {
                                    v.push(l.clone());
                                }
                            }
                        }
                    }
                    v.sort();
                    v
                }
                _ => Vec::new(),
            };
            let shown = show(pt, &adts);
            // the let-bound copy is, where the module has one, spelled like the accessor of an imported module
            // (`import t0` ... `let t0 = p` ... `t0.`): a value that shadows a module still has its fields only
            let q: String = accessors.values().flatten().next().filter(|_| k % 2 == 0).cloned().unwrap_or_else(|| "q".to_string());
            if q != "q" && !features.contains(&"value-dot-on-a-local-spelled-like-a-module") {
                features.push("value-dot-on-a-local-spelled-like-a-module");
            }
            text.push_str(&format!("\npub fn dot_probe_{mi}_{k}(p: {shown}) {{\n  let {q} = p\n  let _ = p."));
            dot_probes.push(DotProbe { module: mi, offset: text.len(), binder: "parameter", ty: shown.clone(), expected: expected.clone() });
            text.push_str(&format!("zz\n  let _ = {q}."));
            dot_probes.push(DotProbe { module: mi, offset: text.len(), binder: "let", ty: shown.clone(), expected: expected.clone() });
            text.push_str(&format!("zz\n  case {q} {{\n    r -> r."));
            dot_probes.push(DotProbe { module: mi, offset: text.len(), binder: "clause-variable", ty: shown.clone(), expected });
            text.push_str("zz\n  }\n}\n");
        }
        // an opaque type: its fields are its module's business. Module 0 declares it (and may look into it),
        // a module that imports module 0 under an accessor gets a value of it and must be offered nothing after the dot
        if mi == 0 {
            text.push_str("\npub opaque type Sealed {\n  Sealed(secret: Int, stamp: Int)\n}\n\npub fn dot_probe_sealed_own(p: Sealed) {\n  let _ = p.");
            dot_probes.push(DotProbe { module: 0, offset: text.len(), binder: "parameter", ty: "Sealed (opaque, own module)".into(), expected: vec!["secret".into(), "stamp".into()] });
            text.push_str("zz\n}\n");
        } else if let Some(Some(acc)) = accessors.get(&0) {
            text.push_str(&format!("\npub fn dot_probe_sealed_{mi}(p: {acc}.Sealed) {{\n  let _ = p."));
            dot_probes.push(DotProbe { module: mi, offset: text.len(), binder: "parameter", ty: "Sealed (opaque, another module)".into(), expected: vec![] });
            text.push_str("zz\n}\n");
            if !features.contains(&"value-dot-on-an-opaque-type-of-another-module") {
                features.push("value-dot-on-an-opaque-type-of-another-module");
            }
        }
        modules.push(m);
        texts.push(text);
        printed_all.push(p);
    }
    TypedWorkspace { dot_probes, modules, texts, printed: printed_all, expectations: exps, poly, features }
}

/// Compare two type strings up to a bijective renaming of lowercase type variables.
pub fn equal_up_to_renaming(a: &str, b: &str) -> bool {
    fn tokens(s: &str) -> Vec<String> {
        let mut out = Vec::new();
        let mut cur = String::new();
        for c in s.chars() {
            if c.is_ascii_alphanumeric() || c == '_' {
                cur.push(c);
            } else {
                if !cur.is_empty() {
                    out.push(std::mem::take(&mut cur));
                }
                if !c.is_whitespace() {
                    out.push(c.to_string());
                }
            }
        }
        if !cur.is_empty() {
            out.push(cur);
        }
        out
    }
    let (ta, tb) = (tokens(a), tokens(b));
    if ta.len() != tb.len() {
        return false;
    }
    let mut fwd: BTreeMap<String, String> = BTreeMap::new();
    let mut bwd: BTreeMap<String, String> = BTreeMap::new();
    for (x, y) in ta.iter().zip(tb.iter()) {
        let xv = x.chars().next().map(|c| c.is_ascii_lowercase()).unwrap_or(false) && x != "fn";
        let yv = y.chars().next().map(|c| c.is_ascii_lowercase()).unwrap_or(false) && y != "fn";
        if xv != yv {
            return false;
        }
        if xv {
            if let Some(m) = fwd.get(x) {
                if m != y {
                    return false;
                }
            } else {
                fwd.insert(x.clone(), y.clone());
            }
            if let Some(m) = bwd.get(y) {
                if m != x {
                    return false;
                }
            } else {
                bwd.insert(y.clone(), x.clone());
            }
        } else if x != y {
            return false;
        }
    }
    true
}
