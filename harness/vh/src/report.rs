//! Shard report: what one monitor process observed. The orchestrator (`/verif/check`)
//! merges shard reports into `evidence/<ID>.json` and decides the exit status.

use serde_json::{json, Map, Value};
use std::collections::{BTreeMap, BTreeSet, HashSet};
use std::io::Write;
use std::path::{Path, PathBuf};
use std::time::Instant;

#[derive(Clone, Debug)]
pub struct Args {
    pub prop: String,
    pub tier: String,
    pub seed: u64,
    pub shard: usize,
    pub nshards: usize,
    pub out: PathBuf,
    /// Soft wall-clock budget for sampled workloads (seconds). Exhaustive
    /// enumerations ignore it.
    pub budget_s: f64,
    pub extra: BTreeMap<String, String>,
}

impl Args {
    pub fn parse() -> Args {
        let mut a = Args {
            prop: String::new(),
            tier: "quick".into(),
            seed: 0,
            shard: 0,
            nshards: 1,
            out: PathBuf::from("."),
            budget_s: 30.0,
            extra: BTreeMap::new(),
        };
        let argv: Vec<String> = std::env::args().skip(1).collect();
        let mut i = 0;
        while i < argv.len() {
            let k = argv[i].clone();
            let v = argv.get(i + 1).cloned().unwrap_or_default();
            match k.as_str() {
                "--prop" => a.prop = v,
                "--tier" => a.tier = v,
                "--seed" => a.seed = v.parse().expect("seed"),
                "--shard" => {
                    let (x, y) = v.split_once('/').expect("shard i/n");
                    a.shard = x.parse().unwrap();
                    a.nshards = y.parse().unwrap();
                }
                "--out" => a.out = PathBuf::from(v),
                "--budget-s" => a.budget_s = v.parse().expect("budget"),
                _ => {
                    a.extra.insert(k.trim_start_matches("--").to_string(), v);
                }
            }
            i += 2;
        }
        a
    }

    pub fn thorough(&self) -> bool {
        self.tier == "thorough"
    }

    pub fn get(&self, k: &str) -> Option<&str> {
        self.extra.get(k).map(|s| s.as_str())
    }

    /// `--only-case <seed>`: replay exactly the case derived from that seed.
    pub fn only_case(&self) -> Option<u64> {
        self.get("only-case").and_then(|s| s.parse().ok())
    }

    /// Seed of the next sampled case: the shard's PRNG stream, or - when replaying - the one
    /// requested seed, once.
    pub fn next_case(&self, r: &mut crate::rng::Rng) -> Option<u64> {
        match self.only_case() {
            None => Some(r.next_u64()),
            Some(s) => {
                if ONLY_CASE_USED.swap(true, std::sync::atomic::Ordering::SeqCst) {
                    None
                } else {
                    Some(s)
                }
            }
        }
    }
}

static ONLY_CASE_USED: std::sync::atomic::AtomicBool = std::sync::atomic::AtomicBool::new(false);

#[derive(Clone, Debug)]
pub struct Violation {
    pub signature: String,
    pub detail: String,
    pub replay: Value,
}

pub struct Report {
    pub prop: String,
    pub shard: usize,
    pub evaluations: u64,
    pub inconclusive: u64,
    pub counters: BTreeMap<String, u64>,
    pub sets: BTreeMap<String, BTreeSet<String>>,
    pub samples: Vec<Value>,
    pub violations: Vec<Violation>,
    pub violation_counts: BTreeMap<String, u64>,
    pub notes: Vec<String>,
    pub exhaustive: Option<bool>,
    hashes: HashSet<u64>,
    started: Instant,
    max_samples: usize,
}

impl Report {
    pub fn new(prop: &str, shard: usize) -> Report {
        Report {
            prop: prop.to_string(),
            shard,
            evaluations: 0,
            inconclusive: 0,
            counters: BTreeMap::new(),
            sets: BTreeMap::new(),
            samples: Vec::new(),
            violations: Vec::new(),
            violation_counts: BTreeMap::new(),
            notes: Vec::new(),
            exhaustive: None,
            hashes: HashSet::new(),
            started: Instant::now(),
            max_samples: 6,
        }
    }

    pub fn elapsed(&self) -> f64 {
        self.started.elapsed().as_secs_f64()
    }

    pub fn count(&mut self, k: &str, n: u64) {
        *self.counters.entry(k.to_string()).or_insert(0) += n;
    }

    pub fn see(&mut self, set: &str, item: impl Into<String>) {
        self.sets.entry(set.to_string()).or_default().insert(item.into());
    }

    /// Register a distinct non-trivial case by structural hash.
    pub fn nontrivial(&mut self, h: u64) {
        self.hashes.insert(h);
    }

    pub fn distinct(&self) -> usize {
        self.hashes.len()
    }

    pub fn sample(&mut self, v: Value) {
        if self.samples.len() < self.max_samples {
            self.samples.push(v);
        }
    }

    /// Record a violation; keeps at most 3 witnesses per signature, counts all.
    pub fn violate(&mut self, signature: impl Into<String>, detail: impl Into<String>, replay: Value) {
        let signature = signature.into();
        let c = self.violation_counts.entry(signature.clone()).or_insert(0);
        *c += 1;
        if *c <= 3 {
            self.violations.push(Violation {
                signature,
                detail: detail.into(),
                replay,
            });
        }
    }

    pub fn write(&self, out: &Path) {
        std::fs::create_dir_all(out).ok();
        let mut counters = Map::new();
        for (k, v) in &self.counters {
            counters.insert(k.clone(), json!(v));
        }
        let mut sets = Map::new();
        for (k, v) in &self.sets {
            sets.insert(k.clone(), json!(v.iter().collect::<Vec<_>>()));
        }
        let viols: Vec<Value> = self
            .violations
            .iter()
            .map(|v| json!({"signature": v.signature, "detail": v.detail, "replay": v.replay}))
            .collect();
        let mut vc = Map::new();
        for (k, v) in &self.violation_counts {
            vc.insert(k.clone(), json!(v));
        }
        let doc = json!({
            "prop": self.prop,
            "shard": self.shard,
            "evaluations": self.evaluations,
            "inconclusive": self.inconclusive,
            "distinct_nontrivial_local": self.hashes.len(),
            "counters": counters,
            "sets": sets,
            "samples": self.samples,
            "violations": viols,
            "violation_counts": vc,
            "notes": self.notes,
            "exhaustive": self.exhaustive,
            "wall_s": self.elapsed(),
        });
        let p = out.join(format!("{}.shard{}.json", self.prop, self.shard));
        let tmp = out.join(format!("{}.shard{}.json.tmp", self.prop, self.shard));
        std::fs::write(&tmp, serde_json::to_vec(&doc).unwrap()).expect("write report");
        std::fs::rename(&tmp, &p).expect("rename report");
        // Hash set for exact cross-shard distinct counting.
        let hp = out.join(format!("{}.shard{}.hashes", self.prop, self.shard));
        let mut f = std::io::BufWriter::new(std::fs::File::create(hp).expect("hashes"));
        for h in &self.hashes {
            f.write_all(&h.to_le_bytes()).unwrap();
        }
        f.flush().unwrap();
    }
}

/// Write-ahead journal: the case about to be executed is stored on disk first, so a
/// process killed by a signal (stack overflow, abort) still leaves an attributable
/// witness. One `pwrite` per case.
pub struct Journal {
    file: std::fs::File,
}

impl Journal {
    pub fn open(out: &Path, prop: &str, shard: usize) -> Journal {
        std::fs::create_dir_all(out).ok();
        let p = out.join(format!("{}.shard{}.journal", prop, shard));
        let file = std::fs::OpenOptions::new()
            .create(true)
            .write(true)
            .truncate(true)
            .open(p)
            .expect("journal");
        Journal { file }
    }

    pub fn begin(&mut self, phase: &str, case: &[u8]) {
        use std::os::unix::fs::FileExt;
        let mut buf = Vec::with_capacity(case.len().min(1 << 16) + phase.len() + 16);
        let body = &case[..case.len().min(1 << 16)];
        buf.extend_from_slice(&(phase.len() as u32).to_le_bytes());
        buf.extend_from_slice(&(body.len() as u32).to_le_bytes());
        buf.extend_from_slice(&(case.len() as u32).to_le_bytes());
        buf.extend_from_slice(phase.as_bytes());
        buf.extend_from_slice(body);
        let _ = self.file.write_at(&buf, 0);
    }

    /// Mark "nothing in flight".
    pub fn idle(&mut self) {
        use std::os::unix::fs::FileExt;
        let _ = self.file.write_at(&[0u8; 12], 0);
    }
}

/// Read back a journal (used by `vh-tool journal <file>`).
pub fn read_journal(p: &Path) -> Option<(String, Vec<u8>, usize)> {
    let b = std::fs::read(p).ok()?;
    if b.len() < 12 {
        return None;
    }
    let pl = u32::from_le_bytes(b[0..4].try_into().unwrap()) as usize;
    let bl = u32::from_le_bytes(b[4..8].try_into().unwrap()) as usize;
    let full = u32::from_le_bytes(b[8..12].try_into().unwrap()) as usize;
    if pl == 0 && bl == 0 {
        return None;
    }
    if b.len() < 12 + pl + bl {
        return None;
    }
    let phase = String::from_utf8_lossy(&b[12..12 + pl]).to_string();
    let body = b[12 + pl..12 + pl + bl].to_vec();
    Some((phase, body, full))
}

pub fn truncate_str(s: &str, n: usize) -> String {
    if s.len() <= n {
        return s.to_string();
    }
    let mut e = n;
    while !s.is_char_boundary(e) {
        e -= 1;
    }
    format!("{}…[{} bytes]", &s[..e], s.len())
}
