//! Program model of the Gleam surface glas parses, a printer that inserts random legal
//! trivia and records a *sidecar* (byte range, role and binding of every identifier,
//! span of every declaration and item), and a canonical S-expression used to compare
//! the intended structure with what the parser built (C04).
//!
//! Ground truth never comes from parsing glas's output: offsets are recorded while
//! printing, bindings are decided by the generator.

use crate::rng::Rng;
use std::fmt::Write as _;

pub type DeclId = usize;

#[derive(Clone, Copy, Debug, PartialEq, Eq, Hash, PartialOrd, Ord)]
pub enum SymKind {
    Function,
    Constant,
    Adt,
    Alias,
    Variant,
    Field,
    Param,
    Let,
    ClauseVar,
    LambdaParam,
    UseVar,
    AsVar,
    SpreadVar,
    PrefixVar,
    Module,
    TypeVar,
    Label,
    None,
}

/// How an identifier occurrence relates to declarations.
#[derive(Clone, Debug, PartialEq, Eq)]
pub enum Bind {
    /// This occurrence *is* the declaration's own name.
    Decl(DeclId),
    /// A use. `target` is what Gleam binds it to (None: unbound / built-in / not a
    /// symbol glas models). `core`: the occurrence lies in the supported core, so a
    /// correct answer is *required* (completeness); otherwise only soundness applies.
    Use { target: Option<DeclId>, core: bool },
    /// Refers to a module (qualifier); target = module index.
    Module { module: usize, core: bool },
    /// Not a symbol (labels at definitions, type variables, discards ...).
    Plain,
}

#[derive(Clone, Debug)]
pub struct Ident {
    pub text: String,
    pub bind: Bind,
    /// Where the occurrence sits (for coverage matrices), e.g. "call-head", "arg".
    pub site: &'static str,
}

impl Ident {
    pub fn plain(t: impl Into<String>) -> Ident {
        Ident { text: t.into(), bind: Bind::Plain, site: "" }
    }
    pub fn decl(t: impl Into<String>, d: DeclId) -> Ident {
        Ident { text: t.into(), bind: Bind::Decl(d), site: "decl" }
    }
    pub fn use_(t: impl Into<String>, target: Option<DeclId>, core: bool, site: &'static str) -> Ident {
        Ident { text: t.into(), bind: Bind::Use { target, core }, site }
    }
}

#[derive(Clone, Debug)]
pub struct DeclInfo {
    pub kind: SymKind,
    pub name: String,
    pub module: usize,
    pub public: bool,
    /// Filled by the printer: what glas reports as focus range for this declaration
    /// (name token for most kinds; whole variant; whole `label: Type` field; `..name`).
    pub focus: (usize, usize),
    /// The name token itself.
    pub name_range: (usize, usize),
    /// For fields: (adt decl, variant decl, label is common to all variants with one type).
    pub owner: Option<DeclId>,
}

#[derive(Clone, Debug)]
pub enum TypeExpr {
    Named { module: Option<Ident>, name: Ident, args: Vec<TypeExpr> },
    Var(String),
    Tuple(Vec<TypeExpr>),
    Fn(Vec<TypeExpr>, Box<TypeExpr>),
    Hole(String),
}

#[derive(Clone, Debug)]
pub enum Attr {
    External { target: String, module: String, func: String },
    Target(String),
}

#[derive(Clone, Debug)]
pub struct ImportMember {
    pub is_type: bool,
    pub name: Ident,
    pub alias: Option<Ident>,
}

#[derive(Clone, Debug)]
pub struct Import {
    pub path: Vec<String>,
    pub alias: Option<String>,
    pub members: Vec<ImportMember>,
    pub has_braces: bool,
}

#[derive(Clone, Debug)]
pub struct Field {
    pub label: Option<Ident>,
    pub ty: TypeExpr,
    pub decl: Option<DeclId>,
}

#[derive(Clone, Debug)]
pub struct Variant {
    pub name: Ident,
    pub fields: Vec<Field>,
    pub has_parens: bool,
    pub doc: Option<String>,
}

#[derive(Clone, Debug)]
pub struct Adt {
    pub public: bool,
    pub opaque: bool,
    pub name: Ident,
    pub params: Vec<String>,
    pub variants: Vec<Variant>,
    pub has_body: bool,
}

#[derive(Clone, Debug)]
pub struct Alias {
    pub public: bool,
    pub name: Ident,
    pub params: Vec<String>,
    pub ty: TypeExpr,
}

#[derive(Clone, Debug)]
pub struct Const {
    pub public: bool,
    pub name: Ident,
    pub ann: Option<TypeExpr>,
    pub value: Expr,
}

#[derive(Clone, Debug)]
pub enum ParamName {
    Name(Ident),
    Discard(String),
}

#[derive(Clone, Debug)]
pub struct Param {
    pub label: Option<String>,
    pub name: ParamName,
    pub ty: Option<TypeExpr>,
}

#[derive(Clone, Debug)]
pub struct Func {
    pub public: bool,
    pub name: Ident,
    pub params: Vec<Param>,
    pub ret: Option<TypeExpr>,
    pub body: Option<Vec<Stmt>>,
}

#[derive(Clone, Debug)]
pub enum ItemKind {
    Import(Import),
    Adt(Adt),
    Alias(Alias),
    Const(Const),
    Func(Func),
}

#[derive(Clone, Debug)]
pub struct Item {
    pub attrs: Vec<Attr>,
    pub doc: Vec<String>,
    pub kind: ItemKind,
}

#[derive(Clone, Debug)]
pub enum Stmt {
    Let { assert: bool, pat: Pattern, ann: Option<TypeExpr>, value: Expr },
    Use { pats: Vec<(Pattern, Option<TypeExpr>)>, call: Expr },
    Expr(Expr),
}

#[derive(Clone, Copy, Debug, PartialEq, Eq, Hash)]
pub enum BinOp {
    Or, And, Eq, NotEq, Lt, LtEq, Gt, GtEq, LtF, LtEqF, GtF, GtEqF, Concat,
    Add, Sub, AddF, SubF, Mul, Div, MulF, DivF, Rem,
}

pub const ALL_BINOPS: &[BinOp] = &[
    BinOp::Or, BinOp::And, BinOp::Eq, BinOp::NotEq, BinOp::Lt, BinOp::LtEq, BinOp::Gt, BinOp::GtEq,
    BinOp::LtF, BinOp::LtEqF, BinOp::GtF, BinOp::GtEqF, BinOp::Concat, BinOp::Add, BinOp::Sub,
    BinOp::AddF, BinOp::SubF, BinOp::Mul, BinOp::Div, BinOp::MulF, BinOp::DivF, BinOp::Rem,
];

impl BinOp {
    pub fn text(self) -> &'static str {
        use BinOp::*;
        match self {
            Or => "||", And => "&&", Eq => "==", NotEq => "!=", Lt => "<", LtEq => "<=", Gt => ">",
            GtEq => ">=", LtF => "<.", LtEqF => "<=.", GtF => ">.", GtEqF => ">=.", Concat => "<>",
            Add => "+", Sub => "-", AddF => "+.", SubF => "-.", Mul => "*", Div => "/", MulF => "*.",
            DivF => "/.", Rem => "%",
        }
    }
    /// Gleam's precedence table (higher binds tighter); the pipe sits at 6.
    pub fn prec(self) -> u8 {
        use BinOp::*;
        match self {
            Or => 1,
            And => 2,
            Eq | NotEq => 3,
            Lt | LtEq | Gt | GtEq | LtF | LtEqF | GtF | GtEqF => 4,
            Concat => 5,
            Add | Sub | AddF | SubF => 7,
            Mul | Div | MulF | DivF | Rem => 8,
        }
    }
}
pub const PIPE_PREC: u8 = 6;

#[derive(Clone, Debug)]
pub struct Arg {
    pub label: Option<Ident>,
    pub value: Expr,
}

#[derive(Clone, Debug)]
pub struct Clause {
    /// One entry per subject; each entry is a list of alternatives' patterns for that
    /// subject *in the first alternative*; further alternatives are in `alts`.
    pub pats: Vec<Pattern>,
    /// Further alternatives: each a full tuple of patterns (same arity as `pats`).
    pub alts: Vec<Vec<Pattern>>,
    pub guard: Option<Expr>,
    pub body: Expr,
}

#[derive(Clone, Debug)]
pub enum Expr {
    Int(String),
    Float(String),
    Str(String),
    Var(Ident),
    Ctor(Ident),
    Hole(String),
    Call(Box<Expr>, Vec<Arg>),
    Field(Box<Expr>, Ident),
    TupleIndex(Box<Expr>, u32),
    Tuple(Vec<Expr>),
    List(Vec<Expr>, Option<Box<Expr>>),
    Block(Vec<Stmt>),
    Case(Vec<Expr>, Vec<Clause>),
    Lambda(Vec<Param>, Option<TypeExpr>, Vec<Stmt>),
    Pipe(Box<Expr>, Box<Expr>),
    Bin(BinOp, Box<Expr>, Box<Expr>),
    Neg(Box<Expr>),
    Not(Box<Expr>),
    Todo(Option<Box<Expr>>),
    Panic(Option<Box<Expr>>),
    BitArray(String),
}

#[derive(Clone, Debug)]
pub enum Pattern {
    Var(Ident),
    Discard(String),
    Int(String),
    Float(String),
    Str(String),
    Ctor { module: Option<Ident>, name: Ident, args: Vec<(Option<Ident>, Pattern)>, spread: bool, has_parens: bool },
    Tuple(Vec<Pattern>),
    /// elements, tail: None | Some(None) `..` | Some(Some(name)) `..name`
    List(Vec<Pattern>, Option<Option<Ident>>),
    As(Box<Pattern>, Ident),
    StrPrefix(String, Box<Pattern>),
}

#[derive(Clone, Debug)]
pub struct Module {
    /// Module name as imported: `a/b`.
    pub name: String,
    pub header_doc: Vec<String>,
    pub items: Vec<Item>,
}

// ----------------------------------------------------------------------------------
// Printer with sidecar.

#[derive(Clone, Debug)]
pub struct Occ {
    pub range: (usize, usize),
    pub ident: Ident,
}

#[derive(Clone, Debug)]
pub struct ItemSpan {
    pub kind: &'static str,
    pub name: String,
    /// First token of the item (attributes / pub included) .. end of its last token.
    pub span: (usize, usize),
    /// For functions and custom types with a braced body: the offsets just after `{`
    /// and just before the matching `}`.
    pub body: Option<(usize, usize)>,
}

#[derive(Clone, Debug, Default)]
pub struct Printed {
    pub text: String,
    pub occs: Vec<Occ>,
    pub items: Vec<ItemSpan>,
    /// decl id -> (focus range, name range), for declarations printed in this module
    pub decl_ranges: Vec<(DeclId, (usize, usize), (usize, usize))>,
    /// Offsets of expression holes recorded by the generator (`Expr::Var` with site "hole").
    pub holes: Vec<(usize, usize)>,
}

#[derive(Clone, Copy, Debug, PartialEq, Eq)]
pub enum Trivia {
    /// single spaces / newlines only
    Plain,
    /// random spaces, newlines, comments
    Wild,
}

pub struct Printer<'r> {
    pub out: Printed,
    rng: Option<&'r mut Rng>,
    mode: Trivia,
    last_wordy: bool,
    at_line_start: bool,
    non_ascii: bool,
    /// When set, the start offset of the next emitted token is stored in `mark`.
    want_mark: bool,
    mark: usize,
    /// The next non-empty token is glued to what was printed last (tight operator layout).
    glue_next: bool,
}

/// The expression's printed form starts with a word, a number or a string literal.
fn starts_plain(e: &Expr) -> bool {
    match e {
        Expr::Var(_) | Expr::Int(_) | Expr::Float(_) | Expr::Str(_) => true,
        Expr::Call(f, _) => starts_plain(f),
        Expr::Field(b, _) | Expr::TupleIndex(b, _) => starts_plain(b),
        _ => false,
    }
}

fn starts_number(e: &Expr) -> bool {
    match e {
        Expr::Int(_) | Expr::Float(_) => true,
        Expr::Call(f, _) => starts_number(f),
        Expr::Field(b, _) | Expr::TupleIndex(b, _) => starts_number(b),
        _ => false,
    }
}

fn is_wordy(c: char) -> bool {
    c.is_ascii_alphanumeric() || c == '_'
}

impl<'r> Printer<'r> {
    pub fn new(rng: Option<&'r mut Rng>, mode: Trivia, non_ascii: bool) -> Printer<'r> {
        Printer {
            out: Printed::default(),
            rng,
            mode,
            last_wordy: false,
            at_line_start: true,
            non_ascii,
            want_mark: false,
            mark: 0,
            glue_next: false,
        }
    }

    fn pos(&self) -> usize {
        self.out.text.len()
    }

    /// Random trivia before a token. `need_space`: at least one separator required.
    fn trivia(&mut self, need_space: bool, allow_newline: bool) {
        let mode = self.mode;
        let non_ascii = self.non_ascii;
        let mut s = String::new();
        match (&mut self.rng, mode) {
            (Some(r), Trivia::Wild) => {
                let k = r.below(24);
                match k {
                    0 if allow_newline => s.push_str("\n"),
                    1 if allow_newline => s.push_str("\n    "),
                    2 => s.push_str("  "),
                    3 if allow_newline => {
                        s.push_str(if non_ascii && r.chance(1, 2) { " // ünï💣 cømment\n" } else { " // c\n" });
                    }
                    4 if allow_newline => s.push_str("\n\n"),
                    5 => s.push('\t'),
                    _ => {
                        if need_space {
                            s.push(' ');
                        }
                    }
                }
                if need_space && s.is_empty() {
                    s.push(' ');
                }
            }
            _ => {
                if need_space {
                    s.push(' ');
                }
            }
        }
        if !s.is_empty() {
            self.at_line_start = s.ends_with('\n');
            self.out.text.push_str(&s);
            self.last_wordy = false;
        }
    }

    /// Emit a token; `space_before`: a separator is wanted for style (operators).
    pub fn tok_sp(&mut self, t: &str, space_before: bool) -> (usize, usize) {
        if self.glue_next && !t.is_empty() {
            self.glue_next = false;
            return self.glue(t);
        }
        let first = t.chars().next().unwrap_or(' ');
        let need = space_before || (self.last_wordy && is_wordy(first));
        if !self.at_line_start || need {
            self.trivia(need && !self.at_line_start, true);
        }
        let a = self.pos();
        if self.want_mark && !t.is_empty() {
            self.mark = a;
            self.want_mark = false;
        }
        self.out.text.push_str(t);
        let b = self.pos();
        self.last_wordy = t.chars().last().map(is_wordy).unwrap_or(false);
        self.at_line_start = false;
        (a, b)
    }

    pub fn tok(&mut self, t: &str) -> (usize, usize) {
        self.tok_sp(t, false)
    }

    /// Token glued to the previous one (no trivia): `#(`, `.field`, `..name`.
    pub fn glue(&mut self, t: &str) -> (usize, usize) {
        let a = self.pos();
        if self.want_mark && !t.is_empty() {
            self.mark = a;
            self.want_mark = false;
        }
        self.out.text.push_str(t);
        let b = self.pos();
        self.last_wordy = t.chars().last().map(is_wordy).unwrap_or(false);
        self.at_line_start = false;
        (a, b)
    }

    pub fn newline(&mut self) {
        self.out.text.push('\n');
        self.at_line_start = true;
        self.last_wordy = false;
    }

    fn ident_with(&mut self, id: &Ident, glued: bool, space_before: bool) -> (usize, usize) {
        let r = if glued { self.glue(&id.text) } else { self.tok_sp(&id.text, space_before) };
        self.out.occs.push(Occ { range: r, ident: id.clone() });
        if id.site == "hole" {
            self.out.holes.push(r);
        }
        r
    }

    pub fn ident(&mut self, id: &Ident) -> (usize, usize) {
        self.ident_with(id, false, false)
    }

    fn set_decl(&mut self, d: DeclId, focus: (usize, usize), name: (usize, usize)) {
        self.out.decl_ranges.push((d, focus, name));
    }

    fn decl_ident(&mut self, id: &Ident) -> (usize, usize) {
        let r = self.ident(id);
        if let Bind::Decl(d) = id.bind {
            self.set_decl(d, r, r);
        }
        r
    }

    // ---- types ----
    pub fn type_expr(&mut self, t: &TypeExpr) {
        match t {
            TypeExpr::Named { module, name, args } => {
                if let Some(m) = module {
                    self.ident(m);
                    self.glue(".");
                    self.ident_with(name, true, false);
                } else {
                    self.ident(name);
                }
                if !args.is_empty() {
                    self.glue("(");
                    for (i, a) in args.iter().enumerate() {
                        if i > 0 {
                            self.glue(",");
                        }
                        self.type_expr(a);
                    }
                    self.tok(")");
                }
            }
            TypeExpr::Var(v) => {
                self.tok(v);
            }
            TypeExpr::Hole(h) => {
                self.tok(h);
            }
            TypeExpr::Tuple(ts) => {
                self.tok("#");
                self.glue("(");
                for (i, a) in ts.iter().enumerate() {
                    if i > 0 {
                        self.glue(",");
                    }
                    self.type_expr(a);
                }
                self.tok(")");
            }
            TypeExpr::Fn(ps, r) => {
                self.tok("fn");
                self.glue("(");
                for (i, a) in ps.iter().enumerate() {
                    if i > 0 {
                        self.glue(",");
                    }
                    self.type_expr(a);
                }
                self.tok(")");
                self.tok_sp("->", true);
                self.tok_sp("", true);
                self.type_expr(r);
            }
        }
    }

    // ---- patterns ----
    pub fn pattern(&mut self, p: &Pattern) {
        match p {
            Pattern::Var(id) => {
                self.decl_ident(id);
            }
            Pattern::Discard(d) => {
                self.tok(d);
            }
            Pattern::Int(s) | Pattern::Float(s) => {
                self.tok(s);
            }
            Pattern::Str(s) => {
                self.tok(&format!("\"{s}\""));
            }
            Pattern::Ctor { module, name, args, spread, has_parens } => {
                if let Some(m) = module {
                    self.ident(m);
                    self.glue(".");
                    self.ident_with(name, true, false);
                } else {
                    self.ident(name);
                }
                if *has_parens {
                    self.glue("(");
                    for (i, (l, a)) in args.iter().enumerate() {
                        if i > 0 {
                            self.glue(",");
                        }
                        if let Some(l) = l {
                            self.ident(l);
                            self.glue(":");
                        }
                        self.pattern(a);
                    }
                    if *spread {
                        if !args.is_empty() {
                            self.glue(",");
                        }
                        self.tok("..");
                    }
                    self.tok(")");
                }
            }
            Pattern::Tuple(ps) => {
                self.tok("#");
                self.glue("(");
                for (i, a) in ps.iter().enumerate() {
                    if i > 0 {
                        self.glue(",");
                    }
                    self.pattern(a);
                }
                self.tok(")");
            }
            Pattern::List(ps, tail) => {
                self.tok("[");
                for (i, a) in ps.iter().enumerate() {
                    if i > 0 {
                        self.glue(",");
                    }
                    self.pattern(a);
                }
                if let Some(t) = tail {
                    if !ps.is_empty() {
                        self.glue(",");
                    }
                    let a = self.tok("..").0;
                    if let Some(id) = t {
                        let r = self.ident_with(id, true, false);
                        if let Bind::Decl(d) = id.bind {
                            // glas: the whole `..name` node is the declaration's node.
                            self.set_decl(d, (a, r.1), r);
                        }
                    }
                }
                self.tok("]");
            }
            Pattern::As(inner, id) => {
                self.pattern(inner);
                self.tok_sp("as", true);
                self.tok_sp("", true);
                self.decl_ident(id);
            }
            Pattern::StrPrefix(s, rest) => {
                self.tok(&format!("\"{s}\""));
                self.tok_sp("<>", true);
                self.tok_sp("", true);
                self.pattern(rest);
            }
        }
    }

    // ---- expressions ----
    fn params(&mut self, ps: &[Param]) {
        self.glue("(");
        for (i, p) in ps.iter().enumerate() {
            if i > 0 {
                self.glue(",");
            }
            if let Some(l) = &p.label {
                self.tok(l);
            }
            match &p.name {
                ParamName::Name(id) => {
                    self.decl_ident(id);
                }
                ParamName::Discard(d) => {
                    self.tok(d);
                }
            }
            if let Some(t) = &p.ty {
                self.glue(":");
                self.type_expr(t);
            }
        }
        self.tok(")");
    }

    pub fn stmts(&mut self, ss: &[Stmt]) -> (usize, usize) {
        self.tok_sp("{", true);
        let inner_a = self.pos();
        for s in ss {
            self.newline();
            self.out.text.push_str("  ");
            self.at_line_start = true;
            self.stmt(s);
        }
        self.newline();
        let inner_b = self.pos();
        self.tok("}");
        (inner_a, inner_b)
    }

    pub fn stmt(&mut self, s: &Stmt) {
        match s {
            Stmt::Let { assert, pat, ann, value } => {
                self.tok("let");
                if *assert {
                    self.tok("assert");
                }
                self.pattern(pat);
                if let Some(t) = ann {
                    self.glue(":");
                    self.type_expr(t);
                }
                self.tok_sp("=", true);
                self.tok_sp("", true);
                self.expr(value);
            }
            Stmt::Use { pats, call } => {
                self.tok("use");
                for (i, (p, t)) in pats.iter().enumerate() {
                    if i > 0 {
                        self.glue(",");
                    }
                    self.pattern(p);
                    if let Some(t) = t {
                        self.glue(":");
                        self.type_expr(t);
                    }
                }
                self.tok_sp("<-", true);
                self.tok_sp("", true);
                self.expr(call);
            }
            Stmt::Expr(e) => self.expr(e),
        }
    }

    pub fn expr(&mut self, e: &Expr) {
        match e {
            Expr::Int(s) | Expr::Float(s) => {
                self.tok(s);
            }
            Expr::Str(s) => {
                self.tok(&format!("\"{s}\""));
            }
            Expr::Var(id) | Expr::Ctor(id) => {
                self.ident(id);
            }
            Expr::Hole(h) => {
                self.tok(h);
            }
            Expr::Call(f, args) => {
                self.expr(f);
                self.glue("(");
                for (i, a) in args.iter().enumerate() {
                    if i > 0 {
                        self.glue(",");
                    }
                    if let Some(l) = &a.label {
                        self.ident(l);
                        self.glue(":");
                    }
                    self.expr(&a.value);
                }
                self.tok(")");
            }
            Expr::Field(b, id) => {
                self.expr(b);
                self.glue(".");
                self.ident_with(id, true, false);
            }
            Expr::TupleIndex(b, i) => {
                self.expr(b);
                self.glue(".");
                self.glue(&i.to_string());
            }
            Expr::Tuple(es) => {
                self.tok("#");
                self.glue("(");
                for (i, a) in es.iter().enumerate() {
                    if i > 0 {
                        self.glue(",");
                    }
                    self.expr(a);
                }
                self.tok(")");
            }
            Expr::List(es, tail) => {
                self.tok("[");
                for (i, a) in es.iter().enumerate() {
                    if i > 0 {
                        self.glue(",");
                    }
                    self.expr(a);
                }
                if let Some(t) = tail {
                    if !es.is_empty() {
                        self.glue(",");
                    }
                    self.tok("..");
                    self.expr(t);
                }
                self.tok("]");
            }
            Expr::Block(ss) => {
                self.stmts(ss);
            }
            Expr::Case(subjects, clauses) => {
                self.tok("case");
                for (i, s) in subjects.iter().enumerate() {
                    if i > 0 {
                        self.glue(",");
                    }
                    self.expr(s);
                }
                self.tok_sp("{", true);
                for c in clauses {
                    self.newline();
                    self.out.text.push_str("    ");
                    self.at_line_start = true;
                    for (ai, alt) in std::iter::once(&c.pats).chain(c.alts.iter()).enumerate() {
                        if ai > 0 {
                            self.tok_sp("|", true);
                            self.tok_sp("", true);
                        }
                        for (i, p) in alt.iter().enumerate() {
                            if i > 0 {
                                self.glue(",");
                            }
                            self.pattern(p);
                        }
                    }
                    if let Some(g) = &c.guard {
                        self.tok_sp("if", true);
                        self.expr(g);
                    }
                    self.tok_sp("->", true);
                    self.tok_sp("", true);
                    self.expr(&c.body);
                }
                self.newline();
                self.tok("}");
            }
            Expr::Lambda(ps, ret, body) => {
                self.tok("fn");
                self.params(ps);
                if let Some(r) = ret {
                    self.tok_sp("->", true);
                    self.tok_sp("", true);
                    self.type_expr(r);
                }
                self.stmts(body);
            }
            Expr::Pipe(l, r) => {
                self.expr(l);
                self.tok_sp("|>", true);
                self.tok_sp("", true);
                self.expr(r);
            }
            Expr::Bin(op, l, r) => {
                self.expr(l);
                // layout is free around a binary operator: `a - 1`, `a\n  - 1`, `a -1`, `a\n-1`, `a-1`
                // all mean the same. One operator in four is printed tight on one or both sides
                // (only where gluing cannot form another token: `<-`, `<<`, `--`-like pairs are avoided
                // by requiring the right operand to start with a word, a number or a string).
                let wild = self.mode == Trivia::Wild;
                let layout = match &mut self.rng {
                    Some(r) if wild => r.below(8),
                    _ => 7,
                };
                let plain_right = starts_plain(r);
                // `-` directly in front of a digit is left alone: Gleam's lexer reads `x -1` as the name `x`
                // followed by the literal `-1` (only `x-1`, glued on both sides, is a subtraction for it), glas reads
                // a subtraction; which tree is "right" for that layout cannot be settled here, so it is not generated
                let layout = if matches!(op.text(), "-" | "-.") && starts_number(r) { 7 } else { layout };
                match layout {
                    0 if plain_right => {
                        // tight on both sides
                        self.glue(op.text());
                        self.glue_next = true;
                    }
                    1 if plain_right => {
                        // any trivia (a line break too) before the operator, none after it
                        self.tok_sp(op.text(), true);
                        self.glue_next = true;
                    }
                    2 => {
                        // none before, normal after
                        self.glue(op.text());
                        self.tok_sp("", true);
                    }
                    _ => {
                        self.tok_sp(op.text(), true);
                        self.tok_sp("", true);
                    }
                }
                self.expr(r);
                self.glue_next = false;
            }
            Expr::Neg(x) => {
                self.tok("-");
                self.expr_glued_operand(x);
            }
            Expr::Not(x) => {
                self.tok("!");
                self.expr_glued_operand(x);
            }
            Expr::Todo(m) | Expr::Panic(m) => {
                self.tok(if matches!(e, Expr::Todo(_)) { "todo" } else { "panic" });
                if let Some(m) = m {
                    self.tok_sp("as", true);
                    self.tok_sp("", true);
                    self.expr(m);
                }
            }
            Expr::BitArray(b) => {
                self.tok(b);
            }
        }
    }

    fn expr_glued_operand(&mut self, x: &Expr) {
        self.expr(x);
    }

    // ---- items ----
    fn attrs(&mut self, attrs: &[Attr]) {
        for a in attrs {
            match a {
                Attr::External { target, module, func } => {
                    self.tok("@");
                    self.glue("external");
                    self.glue("(");
                    self.tok(target);
                    self.glue(",");
                    self.tok(&format!("\"{module}\""));
                    self.glue(",");
                    self.tok(&format!("\"{func}\""));
                    self.tok(")");
                }
                Attr::Target(t) => {
                    self.tok("@");
                    self.glue("target");
                    self.glue("(");
                    self.tok(t);
                    self.tok(")");
                }
            }
            self.newline();
        }
    }

    pub fn item(&mut self, it: &Item) {
        // Item separation: always start on a fresh line.
        if !self.at_line_start {
            self.newline();
        }
        self.newline();
        for d in &it.doc {
            self.out.text.push_str(&format!("///{d}\n"));
        }
        self.at_line_start = true;
        self.last_wordy = false;
        // The item's own first token: for FUNCTION/ADT/CONST nodes glas keeps leading doc
        // comments inside the node; the sidecar span starts at the first non-trivia token.
        let mut start = None;
        let mark = |p: &mut Printer, start: &mut Option<usize>, r: (usize, usize)| {
            if start.is_none() {
                *start = Some(r.0);
            }
            let _ = p;
        };
        if !it.attrs.is_empty() {
            let a = self.pos();
            self.attrs(&it.attrs);
            // first token of attrs is '@' at a (we start at line start, no trivia)
            mark(self, &mut start, (a, a));
        }
        let mut body = None;
        let (kind, name): (&'static str, String);
        match &it.kind {
            ItemKind::Import(im) => {
                kind = "import";
                name = im.path.join("/");
                let r = self.tok("import");
                mark(self, &mut start, r);
                for (i, seg) in im.path.iter().enumerate() {
                    if i > 0 {
                        self.glue("/");
                        self.glue(seg);
                    } else {
                        self.tok(seg);
                    }
                }
                if im.has_braces {
                    self.glue(".");
                    self.glue("{");
                    for (i, m) in im.members.iter().enumerate() {
                        if i > 0 {
                            self.glue(",");
                        }
                        if m.is_type {
                            self.tok("type");
                        }
                        self.ident(&m.name);
                        if let Some(a) = &m.alias {
                            self.tok_sp("as", true);
                            self.tok_sp("", true);
                            self.ident(a);
                        }
                    }
                    self.tok("}");
                }
                if let Some(a) = &im.alias {
                    self.tok_sp("as", true);
                    self.tok_sp("", true);
                    self.tok(a);
                }
            }
            ItemKind::Adt(adt) => {
                kind = "type";
                name = adt.name.text.clone();
                if adt.public {
                    let r = self.tok("pub");
                    mark(self, &mut start, r);
                }
                if adt.opaque {
                    let r = self.tok("opaque");
                    mark(self, &mut start, r);
                }
                let r = self.tok("type");
                mark(self, &mut start, r);
                self.decl_ident(&adt.name);
                if !adt.params.is_empty() {
                    self.glue("(");
                    for (i, p) in adt.params.iter().enumerate() {
                        if i > 0 {
                            self.glue(",");
                        }
                        self.tok(p);
                    }
                    self.tok(")");
                }
                if adt.has_body {
                    self.tok_sp("{", true);
                    let ia = self.pos();
                    for v in &adt.variants {
                        self.newline();
                        let mut vstart = None;
                        if let Some(d) = &v.doc {
                            vstart = Some(self.pos() + 2);
                            self.out.text.push_str(&format!("  ///{d}\n"));
                        }
                        self.out.text.push_str("  ");
                        self.at_line_start = true;
                        let nr = self.ident(&v.name);
                        let vs = vstart.unwrap_or(nr.0);
                        let mut end = nr.1;
                        if v.has_parens {
                            self.glue("(");
                            for (i, f) in v.fields.iter().enumerate() {
                                if i > 0 {
                                    self.glue(",");
                                }
                                let fa;
                                let mut lr = None;
                                if let Some(l) = &f.label {
                                    let r = self.ident(l);
                                    fa = r.0;
                                    lr = Some(r);
                                    self.glue(":");
                                    self.type_expr(&f.ty);
                                } else {
                                    // position of the first token of the type
                                    self.want_mark = true;
                                    self.type_expr(&f.ty);
                                    fa = self.mark;
                                }
                                let fb = self.pos();
                                if let Some(d) = f.decl {
                                    self.set_decl(d, (fa, fb), lr.unwrap_or((fa, fb)));
                                }
                            }
                            end = self.tok(")").1;
                        }
                        if let Bind::Decl(d) = v.name.bind {
                            self.set_decl(d, (vs, end), nr);
                        }
                    }
                    self.newline();
                    let ib = self.pos();
                    self.tok("}");
                    body = Some((ia, ib));
                }
            }
            ItemKind::Alias(al) => {
                kind = "alias";
                name = al.name.text.clone();
                if al.public {
                    let r = self.tok("pub");
                    mark(self, &mut start, r);
                }
                let r = self.tok("type");
                mark(self, &mut start, r);
                self.decl_ident(&al.name);
                if !al.params.is_empty() {
                    self.glue("(");
                    for (i, p) in al.params.iter().enumerate() {
                        if i > 0 {
                            self.glue(",");
                        }
                        self.tok(p);
                    }
                    self.tok(")");
                }
                self.tok_sp("=", true);
                self.tok_sp("", true);
                self.type_expr(&al.ty);
            }
            ItemKind::Const(c) => {
                kind = "const";
                name = c.name.text.clone();
                if c.public {
                    let r = self.tok("pub");
                    mark(self, &mut start, r);
                }
                let r = self.tok("const");
                mark(self, &mut start, r);
                self.decl_ident(&c.name);
                if let Some(t) = &c.ann {
                    self.glue(":");
                    self.type_expr(t);
                }
                self.tok_sp("=", true);
                self.tok_sp("", true);
                self.expr(&c.value);
            }
            ItemKind::Func(f) => {
                kind = "fn";
                name = f.name.text.clone();
                if f.public {
                    let r = self.tok("pub");
                    mark(self, &mut start, r);
                }
                let r = self.tok("fn");
                mark(self, &mut start, r);
                self.decl_ident(&f.name);
                self.params(&f.params);
                if let Some(r) = &f.ret {
                    self.tok_sp("->", true);
                    self.tok_sp("", true);
                    self.type_expr(r);
                }
                if let Some(b) = &f.body {
                    body = Some(self.stmts(b));
                }
            }
        }
        let end = self.pos();
        self.out.items.push(ItemSpan {
            kind,
            name,
            span: (start.unwrap_or(end), end),
            body,
        });
    }

    pub fn module(mut self, m: &Module) -> Printed {
        for d in &m.header_doc {
            self.out.text.push_str(&format!("////{d}\n"));
        }
        self.at_line_start = true;
        for it in &m.items {
            self.item(it);
        }
        self.newline();
        self.out
    }
}

pub fn print_module(m: &Module, rng: Option<&mut Rng>, mode: Trivia, non_ascii: bool) -> Printed {
    Printer::new(rng, mode, non_ascii).module(m)
}

// ----------------------------------------------------------------------------------
// Canonical S-expression of the intended structure (compared with the CST reader's).

pub fn sexp_type(t: &TypeExpr, o: &mut String) {
    match t {
        TypeExpr::Named { module, name, args } => {
            if args.is_empty() {
                let _ = write!(o, "(ty {}{})", module.as_ref().map(|m| format!("{}.", m.text)).unwrap_or_default(), name.text);
            } else {
                let _ = write!(o, "(tyapp {}{}", module.as_ref().map(|m| format!("{}.", m.text)).unwrap_or_default(), name.text);
                for a in args {
                    o.push(' ');
                    sexp_type(a, o);
                }
                o.push(')');
            }
        }
        TypeExpr::Var(v) => {
            let _ = write!(o, "(tyvar {v})");
        }
        TypeExpr::Hole(h) => {
            let _ = write!(o, "(tyhole {h})");
        }
        TypeExpr::Tuple(ts) => {
            o.push_str("(tytuple");
            for a in ts {
                o.push(' ');
                sexp_type(a, o);
            }
            o.push(')');
        }
        TypeExpr::Fn(ps, r) => {
            o.push_str("(tyfn (");
            for (i, a) in ps.iter().enumerate() {
                if i > 0 {
                    o.push(' ');
                }
                sexp_type(a, o);
            }
            o.push_str(") ");
            sexp_type(r, o);
            o.push(')');
        }
    }
}

pub fn sexp_pattern(p: &Pattern, o: &mut String) {
    match p {
        Pattern::Var(id) => {
            let _ = write!(o, "(pvar {})", id.text);
        }
        Pattern::Discard(d) => {
            let _ = write!(o, "(phole {d})");
        }
        Pattern::Int(s) | Pattern::Float(s) => {
            let _ = write!(o, "(plit {s})");
        }
        Pattern::Str(s) => {
            let _ = write!(o, "(plit \"{s}\")");
        }
        Pattern::Ctor { module, name, args, spread, has_parens } => {
            let _ = write!(o, "(pctor {}{}", module.as_ref().map(|m| format!("{}.", m.text)).unwrap_or_default(), name.text);
            if *has_parens {
                o.push_str(" (");
                for (i, (l, a)) in args.iter().enumerate() {
                    if i > 0 {
                        o.push(' ');
                    }
                    o.push_str("(f ");
                    if let Some(l) = l {
                        let _ = write!(o, "{}: ", l.text);
                    }
                    sexp_pattern(a, o);
                    o.push(')');
                }
                if *spread {
                    if !args.is_empty() {
                        o.push(' ');
                    }
                    o.push_str("(f (pspread))");
                }
                o.push(')');
            }
            o.push(')');
        }
        Pattern::Tuple(ps) => {
            o.push_str("(ptuple");
            for a in ps {
                o.push(' ');
                sexp_pattern(a, o);
            }
            o.push(')');
        }
        Pattern::List(ps, tail) => {
            o.push_str("(plist");
            for a in ps {
                o.push(' ');
                sexp_pattern(a, o);
            }
            match tail {
                None => {}
                Some(None) => o.push_str(" (pspread)"),
                Some(Some(id)) => {
                    let _ = write!(o, " (pspread {})", id.text);
                }
            }
            o.push(')');
        }
        Pattern::As(inner, id) => {
            o.push_str("(pas ");
            sexp_pattern(inner, o);
            let _ = write!(o, " {})", id.text);
        }
        Pattern::StrPrefix(s, rest) => {
            let _ = write!(o, "(pconcat \"{s}\" ");
            sexp_pattern(rest, o);
            o.push(')');
        }
    }
}

fn sexp_params(ps: &[Param], o: &mut String) {
    o.push('(');
    for (i, p) in ps.iter().enumerate() {
        if i > 0 {
            o.push(' ');
        }
        o.push_str("(param ");
        if let Some(l) = &p.label {
            let _ = write!(o, "{l}: ");
        }
        match &p.name {
            ParamName::Name(id) => o.push_str(&id.text),
            ParamName::Discard(d) => o.push_str(d),
        }
        if let Some(t) = &p.ty {
            o.push(' ');
            sexp_type(t, o);
        }
        o.push(')');
    }
    o.push(')');
}

pub fn sexp_stmts(ss: &[Stmt], o: &mut String) {
    o.push_str("(block");
    for s in ss {
        o.push(' ');
        match s {
            Stmt::Let { assert: _, pat, ann, value } => {
                o.push_str("(let ");
                sexp_pattern(pat, o);
                if let Some(t) = ann {
                    o.push(' ');
                    sexp_type(t, o);
                }
                o.push(' ');
                sexp_expr(value, o);
                o.push(')');
            }
            Stmt::Use { pats, call } => {
                o.push_str("(use (");
                for (i, (p, t)) in pats.iter().enumerate() {
                    if i > 0 {
                        o.push(' ');
                    }
                    o.push_str("(a ");
                    sexp_pattern(p, o);
                    if let Some(t) = t {
                        o.push(' ');
                        sexp_type(t, o);
                    }
                    o.push(')');
                }
                o.push_str(") ");
                sexp_expr(call, o);
                o.push(')');
            }
            Stmt::Expr(e) => {
                o.push_str("(e ");
                sexp_expr(e, o);
                o.push(')');
            }
        }
    }
    o.push(')');
}

pub fn sexp_expr(e: &Expr, o: &mut String) {
    match e {
        Expr::Int(s) | Expr::Float(s) => {
            let _ = write!(o, "(lit {s})");
        }
        Expr::Str(s) => {
            let _ = write!(o, "(lit \"{s}\")");
        }
        Expr::Var(id) => {
            let _ = write!(o, "(var {})", id.text);
        }
        Expr::Ctor(id) => {
            let _ = write!(o, "(ctor {})", id.text);
        }
        Expr::Hole(h) => {
            let _ = write!(o, "(hole {h})");
        }
        Expr::Call(f, args) => {
            o.push_str("(call ");
            sexp_expr(f, o);
            for a in args {
                o.push_str(" (arg ");
                if let Some(l) = &a.label {
                    let _ = write!(o, "{}: ", l.text);
                }
                sexp_expr(&a.value, o);
                o.push(')');
            }
            o.push(')');
        }
        Expr::Field(b, id) => {
            o.push_str("(field ");
            sexp_expr(b, o);
            let _ = write!(o, " {})", id.text);
        }
        Expr::TupleIndex(b, i) => {
            o.push_str("(tidx ");
            sexp_expr(b, o);
            let _ = write!(o, " {i})");
        }
        Expr::Tuple(es) => {
            o.push_str("(tuple");
            for a in es {
                o.push(' ');
                sexp_expr(a, o);
            }
            o.push(')');
        }
        Expr::List(es, tail) => {
            o.push_str("(list");
            for a in es {
                o.push(' ');
                sexp_expr(a, o);
            }
            if let Some(t) = tail {
                o.push_str(" (spread ");
                sexp_expr(t, o);
                o.push(')');
            }
            o.push(')');
        }
        Expr::Block(ss) => sexp_stmts(ss, o),
        Expr::Case(subjects, clauses) => {
            o.push_str("(case (");
            for (i, s) in subjects.iter().enumerate() {
                if i > 0 {
                    o.push(' ');
                }
                sexp_expr(s, o);
            }
            o.push(')');
            for c in clauses {
                o.push_str(" (clause (");
                // Gleam's grammar: a clause is a `|`-separated list of alternatives, each a
                // comma-separated tuple of patterns (one per subject).
                for (ai, alt) in std::iter::once(&c.pats).chain(c.alts.iter()).enumerate() {
                    if ai > 0 {
                        o.push(' ');
                    }
                    o.push_str("(alt");
                    for p in alt {
                        o.push(' ');
                        sexp_pattern(p, o);
                    }
                    o.push(')');
                }
                o.push(')');
                if let Some(g) = &c.guard {
                    o.push_str(" (guard ");
                    sexp_expr(g, o);
                    o.push(')');
                }
                o.push(' ');
                sexp_expr(&c.body, o);
                o.push(')');
            }
            o.push(')');
        }
        Expr::Lambda(ps, ret, body) => {
            o.push_str("(lambda ");
            sexp_params(ps, o);
            if let Some(r) = ret {
                o.push_str(" (ret ");
                sexp_type(r, o);
                o.push(')');
            }
            o.push(' ');
            sexp_stmts(body, o);
            o.push(')');
        }
        Expr::Pipe(l, r) => {
            o.push_str("(pipe ");
            sexp_expr(l, o);
            o.push(' ');
            sexp_expr(r, o);
            o.push(')');
        }
        Expr::Bin(op, l, r) => {
            let _ = write!(o, "(bin {} ", op.text());
            sexp_expr(l, o);
            o.push(' ');
            sexp_expr(r, o);
            o.push(')');
        }
        Expr::Neg(x) => {
            o.push_str("(un - ");
            sexp_expr(x, o);
            o.push(')');
        }
        Expr::Not(x) => {
            o.push_str("(un ! ");
            sexp_expr(x, o);
            o.push(')');
        }
        Expr::Todo(m) | Expr::Panic(m) => {
            o.push_str(if matches!(e, Expr::Todo(_)) { "(todo" } else { "(panic" });
            if let Some(m) = m {
                o.push(' ');
                sexp_expr(m, o);
            }
            o.push(')');
        }
        Expr::BitArray(_) => o.push_str("(bits)"),
    }
}

pub fn sexp_item(it: &Item, o: &mut String) {
    o.push_str("(item");
    for a in &it.attrs {
        match a {
            Attr::External { target, module, func } => {
                let _ = write!(o, " (external {target} \"{module}\" \"{func}\")");
            }
            Attr::Target(t) => {
                let _ = write!(o, " (target {t})");
            }
        }
    }
    o.push(' ');
    match &it.kind {
        ItemKind::Import(im) => {
            let _ = write!(o, "(import {}", im.path.join("/"));
            for m in &im.members {
                let _ = write!(o, " (m{} {}", if m.is_type { " type" } else { "" }, m.name.text);
                if let Some(a) = &m.alias {
                    let _ = write!(o, " as {}", a.text);
                }
                o.push(')');
            }
            if let Some(a) = &im.alias {
                let _ = write!(o, " as {a}");
            }
            o.push(')');
        }
        ItemKind::Adt(adt) => {
            let _ = write!(o, "(adt{}{} {} (", if adt.public { " pub" } else { "" }, if adt.opaque { " opaque" } else { "" }, adt.name.text);
            o.push_str(&adt.params.join(" "));
            o.push(')');
            for v in &adt.variants {
                let _ = write!(o, " (variant {}", v.name.text);
                for f in &v.fields {
                    o.push_str(" (f ");
                    if let Some(l) = &f.label {
                        let _ = write!(o, "{}: ", l.text);
                    }
                    sexp_type(&f.ty, o);
                    o.push(')');
                }
                o.push(')');
            }
            o.push(')');
        }
        ItemKind::Alias(al) => {
            let _ = write!(o, "(alias{} {} (", if al.public { " pub" } else { "" }, al.name.text);
            o.push_str(&al.params.join(" "));
            o.push_str(") ");
            sexp_type(&al.ty, o);
            o.push(')');
        }
        ItemKind::Const(c) => {
            let _ = write!(o, "(const{} {}", if c.public { " pub" } else { "" }, c.name.text);
            if let Some(t) = &c.ann {
                o.push(' ');
                sexp_type(t, o);
            }
            o.push(' ');
            sexp_expr(&c.value, o);
            o.push(')');
        }
        ItemKind::Func(f) => {
            let _ = write!(o, "(fn{} {} ", if f.public { " pub" } else { "" }, f.name.text);
            sexp_params(&f.params, o);
            if let Some(r) = &f.ret {
                o.push_str(" (ret ");
                sexp_type(r, o);
                o.push(')');
            }
            if let Some(b) = &f.body {
                o.push(' ');
                sexp_stmts(b, o);
            }
            o.push(')');
        }
    }
    o.push(')');
}

pub fn sexp_module(m: &Module) -> String {
    let mut o = String::new();
    for it in &m.items {
        sexp_item(it, &mut o);
        o.push('\n');
    }
    o
}
