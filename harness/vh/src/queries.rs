//! Uniform access to every IDE query: one enum of query kinds, one `Answer` with a
//! normal form (sets compared as sorted multisets where the LSP meaning is a set) and
//! every range the answer reports, classified for the range-validity monitor (C20).

use ide::{Analysis, Cancelled, FileId, FilePos, GotoDefinitionResult};
use std::fmt::Write as _;
use syntax::{TextRange, TextSize};

#[derive(Clone, Debug, PartialEq, Eq, Hash)]
pub enum Q {
    Hover,
    Goto,
    Refs,
    Highlight,
    Compl(Option<char>),
    SigHelp,
    PrepRename,
    Rename(String),
    HlFull,
    HlRange(u32, u32),
    Diags,
    Tree,
}

impl Q {
    pub fn name(&self) -> String {
        match self {
            Q::Hover => "hover".into(),
            Q::Goto => "goto".into(),
            Q::Refs => "references".into(),
            Q::Highlight => "highlight".into(),
            Q::Compl(None) => "completion".into(),
            Q::Compl(Some(c)) => format!("completion[{c}]"),
            Q::SigHelp => "signature_help".into(),
            Q::PrepRename => "prepare_rename".into(),
            Q::Rename(n) => format!("rename[{}]", if n.chars().next().map(|c| c.is_ascii_lowercase()).unwrap_or(false) && n.chars().all(|c| c.is_ascii_alphanumeric() || c == '_') { "lower" } else if n.chars().next().map(|c| c.is_ascii_uppercase()).unwrap_or(false) && n.chars().all(|c| c.is_ascii_alphanumeric()) { "upper" } else { "invalid" }),
            Q::HlFull => "semantic_highlight".into(),
            Q::HlRange(..) => "semantic_highlight[range]".into(),
            Q::Diags => "diagnostics".into(),
            Q::Tree => "syntax_tree".into(),
        }
    }
    /// Position-independent queries (asked once per file).
    pub fn per_file(&self) -> bool {
        matches!(self, Q::HlFull | Q::HlRange(..) | Q::Diags | Q::Tree)
    }
}

#[derive(Clone, Copy, Debug, PartialEq, Eq)]
pub enum RangeClass {
    /// must coincide with exactly one token
    NameLike,
    /// must start and end on token boundaries
    NodeLike,
    /// in bounds on char boundaries (diagnostics; empty at EOF allowed)
    Loose,
    /// completion replacement range: one token, or empty at the cursor, or node-like
    Completion,
}

#[derive(Clone, Debug)]
pub struct RangeObs {
    pub what: &'static str,
    pub file: FileId,
    pub a: usize,
    pub b: usize,
    pub class: RangeClass,
}

#[derive(Clone, Debug, Default)]
pub struct Answer {
    /// normal form
    pub nf: String,
    pub ranges: Vec<RangeObs>,
    /// (focus, full) pairs of navigation targets
    pub nav_pairs: Vec<(FileId, (usize, usize), (usize, usize))>,
    pub empty: bool,
}

fn r(t: TextRange) -> (usize, usize) {
    (usize::from(t.start()), usize::from(t.end()))
}

pub fn all_queries(new_lower: &str, new_upper: &str) -> Vec<Q> {
    vec![
        Q::Hover,
        Q::Goto,
        Q::Refs,
        Q::Highlight,
        Q::Compl(None),
        Q::Compl(Some('.')),
        Q::Compl(Some('@')),
        Q::SigHelp,
        Q::PrepRename,
        Q::Rename(new_lower.to_string()),
        Q::Rename(new_upper.to_string()),
        Q::Rename("not valid!".to_string()),
    ]
}

pub fn run_query(an: &Analysis, q: &Q, file: FileId, pos: u32) -> Result<Answer, Cancelled> {
    let fpos = FilePos::new(file, TextSize::from(pos));
    let mut ans = Answer::default();
    let o = &mut ans.nf;
    match q {
        Q::Hover => match an.hover(fpos)? {
            None => {
                o.push_str("none");
                ans.empty = true;
            }
            Some(h) => {
                let (a, b) = r(h.range);
                let _ = write!(o, "hover {a}..{b} {:?}", h.markup);
                ans.ranges.push(RangeObs { what: "hover", file, a, b, class: RangeClass::NameLike });
            }
        },
        Q::Goto => match an.goto_definition(fpos)? {
            None => {
                o.push_str("none");
                ans.empty = true;
            }
            Some(GotoDefinitionResult::Path(p)) => {
                let _ = write!(o, "path {}", p.display());
            }
            Some(GotoDefinitionResult::Targets(ts)) => {
                for t in ts {
                    let (fa, fb) = r(t.focus_range);
                    let (ua, ub) = r(t.full_range);
                    let _ = write!(o, "target f{} focus {fa}..{fb} full {ua}..{ub};", t.file_id.0);
                    ans.ranges.push(RangeObs { what: "goto-focus", file: t.file_id, a: fa, b: fb, class: RangeClass::NodeLike });
                    ans.ranges.push(RangeObs { what: "goto-full", file: t.file_id, a: ua, b: ub, class: RangeClass::NodeLike });
                    ans.nav_pairs.push((t.file_id, (fa, fb), (ua, ub)));
                }
            }
        },
        Q::Refs => match an.references(fpos)? {
            None => {
                o.push_str("none");
                ans.empty = true;
            }
            Some(v) => {
                let mut xs: Vec<(u32, usize, usize)> = v.iter().map(|fr| (fr.file_id.0, r(fr.range).0, r(fr.range).1)).collect();
                xs.sort();
                let _ = write!(o, "refs {xs:?}");
                for fr in v {
                    let (a, b) = r(fr.range);
                    ans.ranges.push(RangeObs { what: "reference", file: fr.file_id, a, b, class: RangeClass::NameLike });
                }
            }
        },
        Q::Highlight => {
            let v = an.highlight_related(fpos)?;
            let mut xs: Vec<(usize, usize, bool)> = v.iter().map(|h| (r(h.range).0, r(h.range).1, h.is_definition)).collect();
            xs.sort();
            ans.empty = xs.is_empty();
            let _ = write!(o, "hl {xs:?}");
            for h in v {
                let (a, b) = r(h.range);
                ans.ranges.push(RangeObs { what: "highlight", file, a, b, class: RangeClass::NameLike });
            }
        }
        Q::Compl(c) => match an.completions(fpos, *c)? {
            None => {
                o.push_str("none");
                ans.empty = true;
            }
            Some(items) => {
                let mut xs: Vec<String> = items
                    .iter()
                    .map(|i| format!("{}|{:?}|{}|{}..{}|{:?}|{}", i.label, i.kind, i.replace, r(i.source_range).0, r(i.source_range).1, i.signature, i.is_snippet))
                    .collect();
                xs.sort();
                ans.empty = xs.is_empty();
                let _ = write!(o, "compl {xs:?}");
                for i in items {
                    let (a, b) = r(i.source_range);
                    ans.ranges.push(RangeObs { what: "completion", file, a, b, class: RangeClass::Completion });
                }
            }
        },
        Q::SigHelp => match an.signature_help(fpos)? {
            None => {
                o.push_str("none");
                ans.empty = true;
            }
            Some(s) => {
                let labels: Vec<String> = s.parameter_labels().map(|l| l.to_string()).collect();
                let _ = write!(o, "sig {:?} active {:?} params {:?}", s.signature, s.active_parameter, labels);
            }
        },
        Q::PrepRename => match an.prepare_rename(fpos)? {
            Err(e) => {
                let _ = write!(o, "err {e}");
                ans.empty = true;
            }
            Ok((range, name)) => {
                let (a, b) = r(range);
                let _ = write!(o, "ok {a}..{b} {name}");
                ans.ranges.push(RangeObs { what: "prepare-rename", file, a, b, class: RangeClass::NameLike });
            }
        },
        Q::Rename(n) => match an.rename(fpos, n)? {
            Err(e) => {
                let _ = write!(o, "err {e}");
                ans.empty = true;
            }
            Ok(we) => {
                let mut xs: Vec<(u32, usize, usize, String)> = Vec::new();
                for (f, edits) in &we.content_edits {
                    for e in edits {
                        let (a, b) = r(e.delete);
                        xs.push((f.0, a, b, e.insert.to_string()));
                        ans.ranges.push(RangeObs { what: "rename-edit", file: *f, a, b, class: RangeClass::NameLike });
                    }
                }
                xs.sort();
                let _ = write!(o, "edits {xs:?}");
            }
        },
        Q::HlFull | Q::HlRange(..) => {
            let range = match q {
                Q::HlRange(a, b) => Some(TextRange::new(TextSize::from(*a), TextSize::from(*b))),
                _ => None,
            };
            let v = an.syntax_highlight(file, range)?;
            ans.empty = v.is_empty();
            o.push_str("hls ");
            for h in v {
                let (a, b) = r(h.range);
                let _ = write!(o, "{a}..{b}:{:?},", h.tag);
                ans.ranges.push(RangeObs { what: "semantic-highlight", file, a, b, class: RangeClass::NameLike });
            }
        }
        Q::Diags => {
            let v = an.diagnostics(file)?;
            let mut xs: Vec<(usize, usize, String)> = v.iter().map(|d| (r(d.range).0, r(d.range).1, format!("{:?}", d.kind))).collect();
            xs.sort();
            ans.empty = xs.is_empty();
            let _ = write!(o, "diags {xs:?}");
            for d in v {
                let (a, b) = r(d.range);
                ans.ranges.push(RangeObs { what: "diagnostic", file, a, b, class: RangeClass::Loose });
                for (fr, _) in &d.notes {
                    let (a, b) = r(fr.range);
                    ans.ranges.push(RangeObs { what: "diagnostic-note", file: fr.file_id, a, b, class: RangeClass::Loose });
                }
            }
        }
        Q::Tree => {
            let s = an.syntax_tree(file)?;
            ans.nf = s;
        }
    }
    Ok(ans)
}
