//! In-process monitors that need the `verif` hook of crate glas (C13, C14, C19).
