//! In-process monitors over the crate-private text layer of the server (feature `verif`):
//!   C13 document store tracks an LSP client document through edits (Vfs + convert)
//!   C14 offset <-> (line, UTF-16 column) conversions agree with an LSP client
//!   C19 semantic-token encoding decodes to exactly the highlighted identifiers

use glas::verif::{self, LineMap, Vfs};
use ide::{FileId, HlRange, HlTag, VfsPath};
use lsp_types::{Position, Range};
use serde_json::json;
use std::collections::BTreeSet;
use std::time::Instant;
use text_size::{TextRange, TextSize};
use vh::gen::{self, GenCfg};
use vh::lspmodel::{self, AbsToken, Doc, Pos};
use vh::panicmon::{self, Outcome};
use vh::prog::{Bind, SymKind, Trivia};
use vh::report::{truncate_str, Args, Report};
use vh::rng::{fnv, Rng};

fn fresh_vfs(text: &str) -> (Vfs, FileId) {
    let mut vfs = Vfs::new();
    let f = vfs.set_path_content(VfsPath::new("/ws/pkg/src/doc.gleam"), text.to_string());
    (vfs, f)
}

/// All strings of `len` symbols over `alpha`, restricted to this shard.
fn for_each_doc(alpha: &[&str], max_len: usize, shard: usize, nshards: usize, mut f: impl FnMut(&str)) {
    let mut k = 0usize;
    let mut buf = String::new();
    for len in 0..=max_len {
        let total = alpha.len().pow(len as u32);
        for n in 0..total {
            k += 1;
            if k % nshards != shard {
                continue;
            }
            buf.clear();
            let mut r = n;
            for _ in 0..len {
                buf.push_str(alpha[r % alpha.len()]);
                r /= alpha.len();
            }
            f(&buf);
        }
    }
}

fn random_doc(r: &mut Rng, max_len: usize, crlf: bool) -> String {
    // every UTF-8 lead-byte class: C2-CF / D0-DF (2 bytes), E0 / E1-EF (3 bytes), F0 / F4 (4 bytes)
    let alpha: &[&str] = if crlf {
        &["a", "b", " ", "\n", "\r\n", "ß", "Я", "\u{7b1}", "\u{800}", "ℝ", "\u{ffff}", "💣", "\u{10ffff}", "fn", "(", ")", "x1"]
    } else {
        &["a", "b", " ", "\n", "ß", "Я", "\u{7b1}", "\u{800}", "ℝ", "\u{ffff}", "💣", "\u{10ffff}", "fn", "(", ")", "x1"]
    };
    let n = r.below(max_len.max(1));
    let mut s = String::new();
    while s.len() < n {
        // long lines and dense astral runs now and then
        if r.chance(1, 12) {
            let piece = *r.pick(alpha);
            for _ in 0..r.range(2, 60) {
                s.push_str(piece);
            }
        } else {
            s.push_str(*r.pick(alpha));
        }
    }
    // a leading byte-order mark now and then: one more character as far as positions go
    if r.chance(1, 8) {
        s.insert(0, '\u{feff}');
    }
    s
}

// ----------------------------------------------------------------------------------
// C14

fn check_c14_doc(rep: &mut Report, text: &str, phase: &str) {
    debug_assert!(!text.contains('\r'));
    rep.evaluations += 1;
    let doc = Doc::new(text);
    let (vfs, f) = fresh_vfs(text);
    let lm: std::sync::Arc<LineMap> = vfs.line_map_for_file(f);
    let replay = json!({"kind":"doc","text":text,"phase":phase});
    let bounds: Vec<usize> = text.char_indices().map(|(i, _)| i).chain(std::iter::once(text.len())).collect();
    let mut prev: Option<(u32, u32)> = None;
    let mut lcs: Vec<(u32, u32)> = Vec::with_capacity(bounds.len());
    for &o in &bounds {
        let got = match panicmon::guard(|| lm.line_col_for_pos(TextSize::from(o as u32))) {
            Outcome::Ok(v) => v,
            Outcome::Panicked(i) => {
                rep.violate(format!("linemap-{}", i.signature()), format!("line_col_for_pos({o}) panicked"), replay.clone());
                return;
            }
        };
        let want = doc.position_of(o);
        if got != (want.line, want.col) {
            rep.violate("line-col-differs-from-client", format!("offset {o}: server says {got:?}, an LSP client computes ({}, {})", want.line, want.col), replay.clone());
            return;
        }
        let back = match panicmon::guard(|| lm.pos_for_line_col(got.0, got.1)) {
            Outcome::Ok(v) => usize::from(v),
            Outcome::Panicked(i) => {
                rep.violate(format!("linemap-{}", i.signature()), format!("pos_for_line_col{got:?} panicked"), replay.clone());
                return;
            }
        };
        if back != o {
            rep.violate("round-trip-not-identity", format!("offset {o} -> {got:?} -> {back}"), replay.clone());
            return;
        }
        if let Some(p) = prev {
            if !(p < got) {
                rep.violate("conversion-not-strictly-monotone", format!("offset {o}: {got:?} does not follow {p:?}"), replay.clone());
                return;
            }
        }
        // from_pos on the model's position
        match verif::from_pos(&lm, Position::new(want.line, want.col)) {
            Ok(p) if usize::from(p) == o => {}
            other => {
                rep.violate("from-pos-differs", format!("from_pos({want:?}) = {other:?}, expected {o}"), replay.clone());
                return;
            }
        }
        prev = Some(got);
        lcs.push(got);
    }
    // ranges: to_range selects exactly text[o1..o2] in the client document
    let pair_cap = 40usize;
    let step = (bounds.len() / pair_cap).max(1);
    for (i, &o1) in bounds.iter().enumerate().step_by(step) {
        for (j, &o2) in bounds.iter().enumerate().skip(i).step_by(step) {
            let r = verif::to_range(&lm, TextRange::new(TextSize::from(o1 as u32), TextSize::from(o2 as u32)));
            let s = doc.offset_of(Pos { line: r.start.line, col: r.start.character });
            let e = doc.offset_of(Pos { line: r.end.line, col: r.end.character });
            if s != Ok(o1) || e != Ok(o2) {
                rep.violate("to-range-selects-other-text", format!("byte range {o1}..{o2} -> {r:?} -> client offsets {s:?}..{e:?}"), replay.clone());
                return;
            }
            rep.count("ranges_checked", 1);
            let _ = (i, j);
        }
    }
    // line table facts used by semantic tokens / formatting
    let lines = doc.lines();
    if lm.last_line() as usize != lines.len() - 1 {
        rep.violate("last-line-differs", format!("last_line {} vs {} lines", lm.last_line(), lines.len()), replay.clone());
        return;
    }
    for (li, &(a, b)) in lines.iter().enumerate() {
        let want = lspmodel::utf16_len(&text[a..b]);
        let got = lm.end_col_for_line(li as u32);
        if got != want {
            rep.violate("end-col-for-line-differs", format!("line {li}: {got} vs {want}"), replay.clone());
            return;
        }
    }
    if text.contains('\n') && text.chars().any(|c| c.len_utf8() > 1) {
        rep.nontrivial(fnv(text.as_bytes()));
    }
    rep.see("char_widths_seen", format!("{:?}", text.chars().map(|c| c.len_utf8()).collect::<BTreeSet<_>>()));
}

fn run_c14(args: &Args) -> Report {
    let mut rep = Report::new("C14", args.shard);
    let max_len = if args.thorough() { 7 } else { 6 };
    let mut n = 0u64;
    for_each_doc(&["a", "\n", "ß", "Я", "ℝ", "💣"], max_len, args.shard, args.nshards, |d| {
        check_c14_doc(&mut rep, d, "exhaustive");
        n += 1;
    });
    rep.count(&format!("docs[exhaustive len<={max_len} over {{a,LF,2B(C3),2B(D0),3B,4B}}]"), n);
    rep.exhaustive = Some(true);
    let mut r = Rng::derive(args.seed, args.shard as u64, 14);
    let t0 = Instant::now();
    let mut m = 0u64;
    while t0.elapsed().as_secs_f64() < args.budget_s {
        let cap = *r.pick(&[16usize, 64, 256, 2048, 65536]);
        let d = random_doc(&mut r, cap, false);
        check_c14_doc(&mut rep, &d, "random");
        if rep.samples.len() < 4 && m % 97 == 0 {
            rep.sample(json!({"phase":"random","text":truncate_str(&d, 120)}));
        }
        m += 1;
    }
    rep.count("docs[random up to 64 KiB]", m);
    rep
}

// ----------------------------------------------------------------------------------
// C13 (in-process)

const REPLACEMENTS: &[&str] = &["", "a", "\n", "\r\n", "ß", "💣", "a\r\nß"];

/// Mirror of the per-change body of `Server::on_did_change`.
fn server_apply(vfs: &mut Vfs, f: FileId, range: Option<(Pos, Pos)>, text: &str) -> Result<(), String> {
    let del = match range {
        None => None,
        Some((s, e)) => Some(verif::from_range(vfs, f, Range::new(Position::new(s.line, s.col), Position::new(e.line, e.col)))?),
    };
    vfs.change_file_content(f, del, text).map_err(|e| format!("{e:#}"))
}

fn check_vfs_state(rep: &mut Report, vfs: &Vfs, f: FileId, model: &Doc, replay: &serde_json::Value, what: &str) -> bool {
    let got = vfs.content_for_file(f);
    let want = model.server_view();
    if &*got != want.as_str() {
        rep.violate(
            format!("doc-desync:{what}"),
            format!("server text {:?} vs editor text without CR {:?}", truncate_str(&got, 200), truncate_str(&want, 200)),
            replay.clone(),
        );
        return false;
    }
    let (fv, ff) = fresh_vfs(&want);
    if *vfs.line_map_for_file(f) != *fv.line_map_for_file(ff) {
        rep.violate(format!("stale-line-map:{what}"), "the stored line map differs from one built from scratch for the same text".to_string(), replay.clone());
        return false;
    }
    true
}

fn run_c13(args: &Args) -> Report {
    let mut rep = Report::new("C13", args.shard);
    let max_len = if args.thorough() { 6 } else { 5 };
    let mut n = 0u64;
    for_each_doc(&["a", "\n", "\r\n", "Я", "ℝ", "💣"], max_len, args.shard, args.nshards, |d| {
        let model0 = Doc::new(d);
        let positions = model0.all_positions();
        for (i, &s) in positions.iter().enumerate() {
            for &e in &positions[i..] {
                for rtext in REPLACEMENTS {
                    rep.evaluations += 1;
                    n += 1;
                    let mut model = model0.clone();
                    model.apply(Some((s, e)), rtext).expect("valid by construction");
                    let (mut vfs, f) = fresh_vfs(d);
                    let replay = json!({"kind":"edit","doc":d,"range":[[s.line,s.col],[e.line,e.col]],"text":rtext});
                    let res = panicmon::guard(|| server_apply(&mut vfs, f, Some((s, e)), rtext));
                    match res {
                        Outcome::Panicked(i) => {
                            rep.violate(format!("valid-edit-{}", i.signature()), format!("valid edit panicked at {}", i.location), replay);
                            continue;
                        }
                        Outcome::Ok(Err(e)) => {
                            rep.violate("valid-edit-rejected", format!("a valid edit was rejected: {e}"), replay);
                            continue;
                        }
                        Outcome::Ok(Ok(())) => {}
                    }
                    if check_vfs_state(&mut rep, &vfs, f, &model, &replay, "single-edit") && d.chars().any(|c| c.len_utf8() > 1 || c == '\r') {
                        rep.nontrivial(fnv(format!("{d}|{s:?}{e:?}|{rtext}").as_bytes()));
                    }
                }
            }
        }
    });
    rep.count(&format!("single_edits[exhaustive: docs len<={max_len} over {{a,LF,CRLF,2B,3B,4B}} x all position pairs x 7 replacements]"), n);
    rep.exhaustive = Some(true);

    // sequences of edits, full replacements mixed in
    let mut r = Rng::derive(args.seed, args.shard as u64, 13);
    let t0 = Instant::now();
    let mut m = 0u64;
    while t0.elapsed().as_secs_f64() < args.budget_s {
        let cap = *r.pick(&[8usize, 32, 128, 2048]);
        let d = random_doc(&mut r, cap, true);
        let mut model = Doc::new(d.clone());
        let (mut vfs, f) = fresh_vfs(&d);
        let nedits = r.range(2, 20);
        let mut log = Vec::new();
        let mut ok = true;
        for _ in 0..nedits {
            let full = r.chance(1, 8);
            let rtext: String = if r.chance(1, 3) { random_doc(&mut r, 12, true) } else { REPLACEMENTS[r.below(REPLACEMENTS.len())].to_string() };
            let range = if full {
                None
            } else {
                let ps = model.all_positions();
                let i = r.below(ps.len());
                let j = i + r.below((ps.len() - i).min(12));
                Some((ps[i], ps[j]))
            };
            log.push(json!({"range": range.map(|(s,e)| json!([[s.line,s.col],[e.line,e.col]])), "text": rtext}));
            rep.evaluations += 1;
            model.apply(range, &rtext).expect("valid");
            let replay = json!({"kind":"edit-sequence","doc":d,"edits":log});
            match panicmon::guard(|| server_apply(&mut vfs, f, range, &rtext)) {
                Outcome::Panicked(i) => {
                    rep.violate(format!("valid-edit-{}", i.signature()), format!("panicked at {}", i.location), replay);
                    ok = false;
                    break;
                }
                Outcome::Ok(Err(e)) => {
                    rep.violate("valid-edit-rejected", e, replay);
                    ok = false;
                    break;
                }
                Outcome::Ok(Ok(())) => {}
            }
            if !check_vfs_state(&mut rep, &vfs, f, &model, &replay, "edit-sequence") {
                ok = false;
                break;
            }
        }
        if ok {
            rep.nontrivial(fnv(format!("{d}{log:?}").as_bytes()));
        }
        if rep.samples.len() < 4 && m % 53 == 0 {
            rep.sample(json!({"doc": truncate_str(&d, 80), "edits": log.iter().take(3).collect::<Vec<_>>()}));
        }
        m += 1;
    }
    rep.count("edit_sequences[random]", m);
    rep
}

// ----------------------------------------------------------------------------------
// C19

fn legend_index(name: &str) -> u32 {
    verif::semantic_token_legend().iter().position(|n| n == name).map(|i| i as u32).unwrap_or(u32::MAX)
}

fn tag_type_index(t: HlTag) -> u32 {
    match t {
        HlTag::Function => legend_index("function"),
        HlTag::Module => legend_index("namespace"),
        HlTag::Constructor => legend_index("type"),
    }
}

fn encode_and_check(rep: &mut Report, text: &str, hls: &[HlRange], phase: &str) -> bool {
    rep.evaluations += 1;
    let doc = Doc::new(text);
    let (vfs, f) = fresh_vfs(text);
    let lm = vfs.line_map_for_file(f);
    let replay = json!({"kind":"highlights","text":text,"phase":phase,"ranges":hls.iter().map(|h| json!([u32::from(h.range.start()), u32::from(h.range.end()), format!("{:?}", h.tag)])).collect::<Vec<_>>()});
    let toks = match panicmon::guard(|| verif::to_semantic_tokens(&lm, hls)) {
        Outcome::Ok(t) => t,
        Outcome::Panicked(i) => {
            rep.violate(format!("encoder-{}", i.signature()), format!("to_semantic_tokens panicked at {}", i.location), replay);
            return false;
        }
    };
    let data: Vec<u32> = toks.iter().flat_map(|t| [t.delta_line, t.delta_start, t.length, t.token_type, t.token_modifiers_bitset]).collect();
    let legend_len = verif::semantic_token_legend().len() as u32;
    let decoded = match lspmodel::decode_semantic_tokens(&data, legend_len, &doc) {
        Ok(d) => d,
        Err(e) => {
            rep.violate("stream-violates-lsp-encoding", e, replay);
            return false;
        }
    };
    let want: Vec<AbsToken> = hls.iter().map(|h| lspmodel::abs_token_for(&doc, h.range.start().into(), h.range.end().into(), tag_type_index(h.tag))).collect();
    if decoded != want {
        rep.violate("decoded-tokens-differ", format!("decoded {decoded:?}\nexpected {want:?}"), replay);
        return false;
    }
    true
}

/// All sorted sets of disjoint identifier-like single-line ranges of `text`.
fn for_each_range_set(text: &str, f: &mut impl FnMut(&[(usize, usize)])) {
    let chars: Vec<(usize, char)> = text.char_indices().collect();
    fn rec(chars: &[(usize, char)], text_len: usize, i: usize, cur: &mut Vec<(usize, usize)>, f: &mut impl FnMut(&[(usize, usize)])) {
        if i >= chars.len() {
            f(cur);
            return;
        }
        // skip this char
        rec(chars, text_len, i + 1, cur, f);
        // start a range here, if identifier-like
        let is_word = |c: char| c != ' ' && c != '\n';
        if is_word(chars[i].1) {
            let mut j = i;
            while j < chars.len() && is_word(chars[j].1) {
                let end = if j + 1 < chars.len() { chars[j + 1].0 } else { text_len };
                cur.push((chars[i].0, end));
                rec(chars, text_len, j + 1, cur, f);
                cur.pop();
                j += 1;
            }
        }
    }
    let mut cur = Vec::new();
    rec(&chars, text.len(), 0, &mut cur, f);
}

fn run_c19(args: &Args) -> Report {
    let mut rep = Report::new("C19", args.shard);
    let tags = [HlTag::Function, HlTag::Constructor, HlTag::Module];
    let max_len = if args.thorough() { 6 } else { 5 };
    let mut n = 0u64;
    for_each_doc(&["a", " ", "\n", "ß", "Я", "💣"], max_len, args.shard, args.nshards, |d| {
        let mut sets = 0usize;
        for_each_range_set(d, &mut |ranges| {
            let hls: Vec<HlRange> = ranges
                .iter()
                .enumerate()
                .map(|(i, &(a, b))| HlRange { range: TextRange::new(TextSize::from(a as u32), TextSize::from(b as u32)), tag: tags[(i + sets) % 3] })
                .collect();
            let ok = encode_and_check(&mut rep, d, &hls, "exhaustive");
            if ok && hls.len() >= 2 && d.chars().any(|c| c.len_utf8() > 1) {
                rep.nontrivial(fnv(format!("{d}|{ranges:?}").as_bytes()));
            }
            sets += 1;
            n += 1;
        });
    });
    rep.count(&format!("encoder_cases[exhaustive: docs len<={max_len} over {{a,space,LF,2B(C3),2B(D0),4B}} x all sets of disjoint word ranges]"), n);
    rep.exhaustive = Some(true);

    // end to end: real highlights of generated programs
    let mut r = Rng::derive(args.seed, args.shard as u64, 19);
    let t0 = Instant::now();
    let mut m = 0u64;
    let fn_ix = legend_index("function");
    let ty_ix = legend_index("type");
    let ns_ix = legend_index("namespace");
    while t0.elapsed().as_secs_f64() < args.budget_s {
        let Some(case_seed) = args.next_case(&mut r) else { break };
        let mut cr = Rng::new(case_seed);
        let cfg = GenCfg { modules: cr.range(1, 3), max_items: cr.range(3, 7), max_depth: cr.range(1, 3), holes: false, non_core: cr.chance(1, 2), trivia: Trivia::Wild, non_ascii: true };
        let ws = gen::generate(&mut cr, &cfg);
        let files = ws.files();
        let loaded = vh::ws::load_single(&files);
        let an = loaded.host.snapshot();
        for (mi, p) in ws.printed.iter().enumerate() {
            let file = loaded.file_by_path(&ws.path_of(mi)).unwrap();
            let text = &p.text;
            let replay = json!({"kind":"workspace","files":files.iter().map(|(p,t)| json!([p,t])).collect::<Vec<_>>(),"module":mi,"case_seed":case_seed.to_string()});
            let hls = match panicmon::guard(|| an.syntax_highlight(file, None)) {
                Outcome::Ok(Ok(h)) => h,
                _ => {
                    rep.count("highlight_failed(C10's business)", 1);
                    continue;
                }
            };
            if !encode_and_check(&mut rep, text, &hls, "end-to-end") {
                continue;
            }
            // expected identifiers from the sidecar
            let doc = Doc::new(text.clone());
            let mut got: std::collections::BTreeMap<(usize, usize), u32> = std::collections::BTreeMap::new();
            for h in &hls {
                got.insert((h.range.start().into(), h.range.end().into()), tag_type_index(h.tag));
            }
            let mut judged = 0;
            for occ in &p.occs {
                let key = occ.range;
                let tag = got.get(&key).copied();
                let site = occ.ident.site;
                let expect: Option<Option<u32>> = match &occ.ident.bind {
                    // required tags
                    Bind::Use { target: Some(d), core: true } if site != "import-value" && site != "import-alias" && site != "import-type" => match ws.decls[ws.canonical(*d)].kind {
                        SymKind::Function => Some(Some(fn_ix)),
                        SymKind::Variant => Some(Some(ty_ix)),
                        SymKind::Constant | SymKind::Adt | SymKind::Alias | SymKind::Field => Some(None),
                        // locals: function-typed ones are tagged function; the generator does not
                        // know their type in scoped mode: either is accepted
                        _ => None,
                    },
                    Bind::Decl(d) if ws.decls[*d].kind == SymKind::Variant => Some(Some(ty_ix)),
                    Bind::Decl(d) if matches!(ws.decls[*d].kind, SymKind::Function | SymKind::Constant | SymKind::Adt | SymKind::Alias) => Some(None),
                    Bind::Module { core: true, .. } => Some(Some(ns_ix)),
                    _ => None,
                };
                if let Some(want) = expect {
                    judged += 1;
                    if tag != want {
                        let name = |x: Option<u32>| match x {
                            None => "none".to_string(),
                            Some(i) => verif::semantic_token_legend().get(i as usize).cloned().unwrap_or_else(|| format!("#{i}")),
                        };
                        let kind = match &occ.ident.bind {
                            Bind::Use { target: Some(d), .. } => format!("{:?}", ws.decls[ws.canonical(*d)].kind),
                            Bind::Decl(d) => format!("decl-{:?}", ws.decls[*d].kind),
                            Bind::Module { .. } => "Module".into(),
                            _ => "?".into(),
                        };
                        let mut rp = replay.clone();
                        rp["occurrence"] = json!({"range":[key.0,key.1],"text":occ.ident.text,"site":site});
                        rep.violate(
                            format!("highlight-tag:{kind}:{site}:got={}:want={}", name(tag), name(want)),
                            format!("`{}` at {:?} ({site}, {kind}) is tagged {} but should be {}", occ.ident.text, key, name(tag), name(want)),
                            rp,
                        );
                    }
                }
            }
            // every highlighted range must be an identifier the printer emitted
            let emitted: BTreeSet<(usize, usize)> = p.occs.iter().map(|o| o.range).collect();
            for k in got.keys() {
                if !emitted.contains(k) {
                    rep.violate("highlight-on-non-identifier", format!("range {k:?} = {:?} is highlighted but is not an identifier", text.get(k.0..k.1)), replay.clone());
                }
            }
            rep.count("identifiers_judged", judged);
            // range request == sub-sequence of the full answer intersecting the range
            for _ in 0..3 {
                let mut a = cr.below(text.len() + 1);
                while !text.is_char_boundary(a) {
                    a -= 1;
                }
                let mut b = a + cr.below(text.len() - a + 1);
                while !text.is_char_boundary(b) {
                    b -= 1;
                }
                if a == b {
                    continue;
                }
                let sub = match panicmon::guard(|| an.syntax_highlight(file, Some(TextRange::new(TextSize::from(a as u32), TextSize::from(b as u32))))) {
                    Outcome::Ok(Ok(h)) => h,
                    _ => continue,
                };
                let want: Vec<&HlRange> = hls.iter().filter(|h| usize::from(h.range.end()) > a && usize::from(h.range.start()) < b).collect();
                let same = sub.len() == want.len() && sub.iter().zip(want.iter()).all(|(x, y)| x == *y);
                rep.evaluations += 1;
                if !same {
                    rep.violate(
                        "range-highlight-not-the-intersecting-subsequence",
                        format!("range {a}..{b}: got {:?}, full answer restricted {:?}", sub.iter().map(|h| (u32::from(h.range.start()), u32::from(h.range.end()))).collect::<Vec<_>>(), want.iter().map(|h| (u32::from(h.range.start()), u32::from(h.range.end()))).collect::<Vec<_>>()),
                        replay.clone(),
                    );
                } else {
                    encode_and_check(&mut rep, text, &sub, "end-to-end-range");
                }
            }
            if hls.len() >= 2 && text.chars().any(|c| c.len_utf8() > 1) {
                rep.nontrivial(fnv(text.as_bytes()));
            }
            let _ = doc;
        }
        if rep.samples.len() < 6 && m % 29 == 0 {
            rep.sample(json!({"phase":"end-to-end","case_seed":case_seed.to_string(),"module0":truncate_str(&ws.printed[0].text, 200)}));
        }
        m += 1;
    }
    rep.count("programs[end-to-end]", m);
    rep
}

fn main() {
    panicmon::install();
    let args = Args::parse();
    let a2 = args.clone();
    let rep = panicmon::on_stack(16 << 20, move || match a2.prop.as_str() {
        "C13" => run_c13(&a2),
        "C14" => run_c14(&a2),
        "C19" => run_c19(&a2),
        p => panic!("m_text serves C13, C14, C19; not {p}"),
    });
    rep.write(&args.out);
}
