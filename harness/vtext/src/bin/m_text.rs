fn main() {}
