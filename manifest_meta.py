"""Static text for MANIFEST.json (see tools/gen_manifest.py)."""

HOOK_COMMITS = ["1ba4448", "b817b93"]

ENGINES = [
    {"name": "m_text", "path": "harness/vtext/src/bin/m_text.rs", "serves_properties": ["C13", "C14", "C19"],
     "kind_free_text": "runtime monitor (in-process, needs hook feature `verif`): drives glas::vfs::Vfs/LineMap and glas::convert against a reference model of an LSP client document (vh::lspmodel) and an LSP semantic-token decoder; exhaustive small-document spaces plus seeded long documents"},
    {"name": "m_lsp", "path": "harness/vh/src/bin/m_lsp.rs", "serves_properties": ["C13", "C14", "C15", "C16", "C17", "C19"],
     "kind_free_text": "runtime monitor (black box): drives the real release binary `glas --stdio` with generated LSP message sequences (vh::lspclient), observes liveness, exactly-once responses and the server's document text through glas/syntaxTree, judged against a nondeterministic model of acceptable document states; for C14/C19 a client with its own capabilities (position encodings, token types) decodes what the server sends by the encoding and legend the server announced and compares with the in-process analysis"},
    {"name": "m_incr", "path": "harness/vh/src/bin/m_incr.rs", "serves_properties": ["C11"],
     "kind_free_text": "runtime monitor: edit histories over a model workspace with stable FileIds; after every step the long-lived AnalysisHost, a fresh host and a fresh host queried in shuffled order must give equal normal forms; sampled states are re-analysed in a separate process"},
    {"name": "mi_syntax", "path": "harness/vh/src/bin/mi_syntax.rs", "serves_properties": ["C01", "C02"],
     "kind_free_text": "interpreter run (thorough tier): `cargo +nightly miri run` executes the real lexer/parser/tree walk on short hostile inputs; Miri reports of undefined behaviour stop the shard and become violations, the C01/C02 oracles judge the results"},
    {"name": "mi_conc", "path": "harness/vh/src/bin/mi_conc.rs", "serves_properties": ["C12"],
     "kind_free_text": "interpreter run (thorough tier): the smallest snapshot/cancel scenario (reader on an old snapshot, owner applying a change) under Miri with seeded schedules; data races / UB become violations, the C12 oracles judge what the threads observed"},
    {"name": "m_conc", "path": "harness/vh/src/bin/m_conc.rs", "serves_properties": ["C12"],
     "kind_free_text": "runtime monitor: multi-threaded scenarios (main thread owning the host + reader threads on tagged snapshots, seeded sleeps/yields); offline checker compares every recorded answer with a sequential fresh analysis of the tagged version; cancellation/promptness accounting"},
    {"name": "san_selftest", "path": "harness/vh/src/bin/san_selftest.rs", "serves_properties": ["C12", "C15", "C16"],
     "kind_free_text": "self-test of the sanitizer tiers: a deliberately racy / use-after-free program built exactly like the sanitizer engines; it must be reported by ThreadSanitizer / AddressSanitizer before a sanitizer run is believed"},
    {"name": "m_sema", "path": "harness/vh/src/bin/m_sema.rs", "serves_properties": ["C05", "C06", "C07", "C08", "C18"],
     "kind_free_text": "runtime monitor: scope-aware generated workspaces (ground truth recorded by the generator's sidecar) loaded into ide::AnalysisHost; by-construction binding oracle (C05), refs<=>goto census law (C06), rename + fresh re-analysis isomorphism (C07), rename refusal reference table over three packages (C08), completion scope sets and accept-and-resolve (C18)"},
    {"name": "m_types", "path": "harness/vh/src/bin/m_types.rs", "serves_properties": ["C09", "C05", "C18", "C19"],
     "kind_free_text": "runtime monitor: type-directed generated well-typed workspaces (vh::tgen; the type of every binder is known by construction) loaded into ide::AnalysisHost; hover at every binder/function is compared with the constructed type, polymorphic helpers up to renaming; the same workspaces decide the type-dependent clauses of C05 (local uses incl. locals shadowing module accessors), C18 (`value.` completion) and C19 (function-typed locals)"},
    {"name": "m_robust", "path": "harness/vh/src/bin/m_robust.rs", "serves_properties": ["C10", "C20"],
     "kind_free_text": "runtime monitor: all-offsets x all-query-kinds sweep over generated, corpus and damaged workspaces loaded into ide::AnalysisHost; panic/abort monitor (C10) and range-validity monitor (C20) over the same executions"},
    {"name": "m_gram", "path": "harness/vh/src/bin/m_gram.rs", "serves_properties": ["C03", "C04"],
     "kind_free_text": "runtime monitor: grammar-generated programs (vh::gen, vh::prog printer with sidecar) are parsed by the real parser; C04 reads the CST back through the public typed accessors (vh::cstread) and compares with the intended structure; C03 damages one body and compares glas's own item list before/after"},
    {"name": "m_syntax", "path": "harness/vh/src/bin/m_syntax.rs", "serves_properties": ["C01", "C02"],
     "kind_free_text": "runtime monitor: executes syntax::parse_module on enumerated/generated/mutated texts under a panic hook, a 2 MiB stack and child processes; oracles over the returned tree"},
]

NOTES = ("Technique family: runtime monitoring. Every check executes the real crates (path dependencies on /repo/crates, rebuilt on each invocation) "
         "under generated workloads and judges the observed executions with an oracle; verdicts are three-valued (violation / held on what was observed / inconclusive). "
         "Genuine defects found on the pinned tree are repaired by `fix:` commits in /repo or listed in known_findings.jsonl; see DESIGN.md.")

_PENDING = "monitor designed in DESIGN.md §5 but not built yet in this session; no claim is made"
NOT_APPLICABLE = {f"C{n:02d}": _PENDING for n in range(1, 21)}

META = {
    "C01": {
        "technique": "round-trip (lossless) law monitor over exhaustively enumerated lexeme sequences, corpus prefixes, mutants and random UTF-8; thorough tier additionally under the Miri interpreter",
        "level_text": ("Exploration: the real parser is executed on ~10^7 (quick) inputs and an oracle checks that leaf tokens reproduce the input byte for byte with contiguous "
                       "non-empty ranges. The lexeme-sequence sub-space (<=3 lexemes x 3 separators x 6 contexts; thorough: longer over sub-alphabets) is enumerated completely; "
                       "beyond it reach comes from corpus prefixes, mutation, random text and nesting towers around the parser's depth limit. Thorough tier: the same oracle on ~700 inputs with the parser interpreted by Miri. Held-on-observed, not a proof."),
        "design_ref": "DESIGN.md §5 C01",
        "level_note": "Trusts rowan's green-tree text accessors and the harness's own byte comparison; inputs longer than the enumerated lengths are sampled.",
    },
    "C02": {
        "technique": "crash/abort/bounded-progress monitor: panic hook + catch_unwind on a 2 MiB stack, child processes with exit-status/signal observation for depth towers and long chains, nesting-bound sweep; thorough tier additionally interprets the parser under Miri",
        "level_text": ("Exploration: every C01 input plus 23 nesting towers x depths up to 16384 (thorough 65536) closed/unclosed and 27 long chains are parsed on the stack size the server uses; "
                       "the monitor observes returned / panicked (with first in-repo frame) / killed-by-signal / exceeded bound; 48 recursion units x depths 118..134 x 41 tails sweep the parser's nesting bound. "
                       "Thorough tier: 8 Miri shards interpret parse + tree walk on ~85 hostile inputs each (UB / out-of-bounds / invalid enum value reports become violations). "
                       "Found and repaired: 'parser is stuck' panic and stack overflow on deep nesting; look-ahead budget too small just below the nesting bound; chains nested through their left-most operand (80 000-node paths from 320 KB of well-formed text: abort). Also 27 chain shapes incl. wide delimiter pairs (bit arrays, constant tables, parameter lists of up to 50 000 elements) and 4 containers x 4 link kinds of left-deep nesting in child processes."),
        "design_ref": "DESIGN.md §5 C02",
        "level_note": "Inputs up to ~1 MiB; 'never loops' restated as bounded progress (20 s per parse, 120 s per child => inconclusive, never a violation by time alone).",
    },
    "C03": {
        "technique": "untouched-items oracle under brace-balanced token damage (k=1 exhaustive over a base pool, k>1 sampled)",
        "level_text": ("Exploration: ~4x10^6 damaged files per quick run; for each, the real parser's item list and error ranges are compared with those of the undamaged file. "
                       "All single-token damages over the base pool are enumerated. Found and repaired: recovery loops that swallowed the closing brace / following definitions."),
        "design_ref": "DESIGN.md §5 C03",
        "level_note": "Victims are braced bodies of functions and custom types; base files come from the generator (cross-checked by C04); multi-edit damage is sampled.",
    },
    "C04": {
        "technique": "print -> parse -> read-back equality against a reference grammar; exhaustive operator pairs/triples; typed-accessor slot checks",
        "level_text": ("Exploration: all 23^2 and 23^3 infix operator combinations in every association shape plus ~10^5 random programs with wild trivia per quick run are parsed; "
                       "zero errors and S-expression equality between the generator's intended tree and the CST read through syntax::ast accessors are required. "
                       "Found and repaired: `<=.` operator kind, slot-confusing accessors (Param::ty, StmtLet::body), string-prefix pattern tree."),
        "design_ref": "DESIGN.md §5 C04",
        "level_note": "Supported surface = the generator's grammar (listed in evidence.assumptions); the reference precedence table is Gleam's, transcribed by hand.",
    },
    "C09": {
        "technique": "by-construction type oracle: hover at every binder and function of a type-directed generated well-typed workspace vs. the type the generator built it for; polymorphic helpers vs. hand-written principal types up to renaming",
        "level_text": ("Exploration: ~10^7 hover comparisons per quick run over ~2x10^5 well-typed multi-module workspaces covering literals, operators, tuples/indexing, lists/spreads, Result/Bool/Nil, generic custom types, "
                       "field access, shuffled labelled arguments, lambdas, captures, pipelines (also into generic helpers), use, multi-subject case, aliases, cross-module calls, forward references, recursion groups and "
                       "locals spelled like functions. Found and repaired: `!=`/`&&`/`||` untyped; recursion groups inferred against undeclared signatures (label order, recursive pipe); use callback inferred before its call; "
                       "lambda arguments inferred before unification with the callee; pipe into a call ignoring all but the first argument; field types resolved in the accessing module."),
        "design_ref": "DESIGN.md §5 C09",
        "level_note": "Trusted base: the generator's typing rules (each production audited to yield exactly its target as principal type) and the type printer `show`. Module constants and annotations on let/lambda parameters are outside the generator.",
    },
    "C10": {
        "technique": "all-offsets x all-queries sweep under a panic/abort monitor (catch_unwind + panic hook, 2 MiB stack, write-ahead journal for process deaths)",
        "level_text": ("Exploration: ~6x10^7 query executions per quick run over ~10^4 distinct broken workspaces (fixed hostile shapes, corpus mutants, generated workspaces with damage incl. import cycles); "
                       "every query kind at every token boundary. Found and repaired: stack overflow on self-referential aliases, out-of-bounds side-table lookups, salsa cycle panics on import cycles."),
        "design_ref": "DESIGN.md §5 C10",
        "level_note": "Workspaces of 1-4 files in one package; offsets sampled (400 per file) for long files; hangs are judged by bounded progress (20 s per query) and the shard watchdog (inconclusive).",
    },
    "C20": {
        "technique": "range-validity monitor over every answer of the C10 sweep (token tables of the same parse)",
        "level_text": ("Exploration: every range in every answer of ~6x10^7 query executions is checked against the file it names: membership in the workspace, bounds, character boundaries, "
                       "whole-token for name-like results, token boundaries and focus-in-full for navigation targets."),
        "design_ref": "DESIGN.md §5 C20",
        "level_note": "Cursors inside a multi-byte character are not judged (not nameable by an LSP client; C15's domain). Multi-package workspaces are covered by C08/C17.",
    },
    "C05": {
        "technique": "by-construction binding oracle: goto at every identifier the scope-aware generator emitted vs. the binding it recorded",
        "level_text": ("Exploration: ~3x10^7 goto queries per quick run over ~2x10^5 shadowing-heavy multi-module workspaces; soundness (never a different declaration) everywhere, completeness on the supported core. "
                       "Found and repaired: `let x = todo` dropping its binding, binders inside unary operands, value import shadowed by a same-named type, string-prefix binder without name, `let _ = e` never lowered."),
        "design_ref": "DESIGN.md §5 C05",
        "level_note": "Trusted base: the generator's own scoping model (hand-written from Gleam's rules) and the printer's offsets. Type-directed field access is judged on typed programs only.",
    },
    "C06": {
        "technique": "pure law between two real APIs over an identifier census: references(t) == {tokens whose goto is the same declaration}, highlight == its per-file part",
        "level_text": ("Exploration: ~7x10^6 goto/references queries per quick run over corpus, generated and damaged workspaces; no ground truth needed, so broken code is in scope. "
                       "Found and repaired: spread binder `..rest` missing from its own references."),
        "design_ref": "DESIGN.md §5 C06",
        "level_note": "A defect mirrored identically in goto and references is invisible here (C05/C07 see it). Duplicate top-level definitions are not judged.",
    },
    "C07": {
        "technique": "rename to a fresh name, re-analyse the edited workspace in a new host, compare the resolution graph under the position map; round trip; sidecar ground truth",
        "level_text": ("Exploration: ~4x10^5 rename attempts per quick run, each accepted one followed by a full goto census of the edited workspace in a fresh AnalysisHost (4x10^7 re-checked identifiers). Held on everything observed."),
        "design_ref": "DESIGN.md §5 C07",
        "level_note": "Occurrences sampled (24 per workspace quick); single-package workspaces; fresh names cannot capture by construction.",
    },
    "C08": {
        "technique": "reference refusal table: symbol kind x 52 candidate names x locality over a three-package workspace; prepare_rename <=> rename(valid)",
        "level_text": ("Exploration (full cross product per sampled occurrence): ~6x10^7 rename calls per quick run. Found and repaired: constants renameable to any token; rename missing the locality gate."),
        "design_ref": "DESIGN.md §5 C08",
        "level_note": "Name classifier and kind->class table are the monitor's own; packages are built in-process with is_local as the loader computes it (the loader itself is C17's subject).",
    },
    "C18": {
        "technique": "by-construction scope sets at generator-known holes, replacement-range check, accept-and-resolve in a fresh host; dot-completion visibility table",
        "level_text": ("Exploration: ~2x10^5 holes per quick run. Found and repaired: aliased unqualified imports offered under the wrong name; opaque types' constructors offered after `m.`."),
        "design_ref": "DESIGN.md §5 C18",
        "level_note": "Value-name completion only (keywords/snippets and built-in constructors ignored both ways); field completion after `value.` needs well-typed programs (typed engine).",
    },
    "C13": {
        "technique": "LSP client document reference model vs. the server's document store: exhaustive single edits in-process + generated didOpen/didChange histories against the real binary",
        "level_text": ("Exploration: all single edits over the small-document space (~8x10^6 edits) through the exact primitive sequence of on_did_change, seeded edit sequences, and ~2.5x10^5 notifications (most with several changes) "
                       "sent to the real server, whose text is read back after each through glas/syntaxTree. Found and repaired: the first didOpen of a project was overwritten by the on-disk text."),
        "design_ref": "DESIGN.md §5 C13",
        "level_note": "Black-box documents use tokens shorter than 25 bytes (rowan's debug dump truncates longer tokens; the checked prefix length is counted). gleam.toml documents are not judged.",
    },
    "C14": {
        "technique": "round-trip / monotonicity / model-agreement laws on LineMap and convert, exhaustive over small documents; on the wire: a client model using the position encoding the real server announced vs. the in-process analysis",
        "level_text": "Exploration, exhaustive on documents of <=6 symbols over {ASCII, LF, 2-/3-/4-byte}: every boundary and every ordered pair; plus random documents up to 64 KiB; plus ~10^4 sessions per quick run of the real binary with clients of differing capabilities (positions sent and ranges read back in the announced encoding). Held on everything observed.",
        "design_ref": "DESIGN.md §5 C14",
        "level_note": "The model (vh::lspmodel) is hand-written from the LSP specification; outgoing ranges of real handlers are additionally exercised end to end by C13/C15/C19.",
    },
    "C15": {
        "technique": "fault enumeration: grammar of valid and invalid LSP messages against the real binary; liveness, exactly-once accounting, acceptable-state-set oracle, deadlock classifier; thorough tier: the same sequences against AddressSanitizer and ThreadSanitizer builds of the server (sanitizer reports read from log files, self-tested)",
        "level_text": ("Fault enumeration: ~3x10^3 sequences (5-60 messages each) per quick run, each against a fresh server process, covering every invalid-position class x message kind listed in the evidence. "
                       "Found and repaired: five ways to kill the server with one notification (reversed range, positions beyond the document, mid-surrogate column, change after a rejected change, non-file URI), and two more found in the ninth seeded round: any notification of the protocol without a handler, and any notification whose parameters hold a value no u32 can hold."),
        "design_ref": "DESIGN.md §5 C15",
        "level_note": "A deadlock verdict requires unanswered requests, an unanswered probe and flat CPU over 2 s; anything else that is slow is inconclusive. Sanitizer builds (ASan, TSan with -Zbuild-std): thorough tier; one family of TSan reports inside the pinned parking_lot/salsa pair is a listed known finding (DESIGN.md section 6).",
    },
    "C19": {
        "technique": "LSP semantic-token decoder model: exhaustive encoder inputs over small documents; end-to-end highlight -> encode -> decode vs. generator ground truth; on the wire: token streams of the real server decoded through the legend and encoding it announced to clients of differing capabilities",
        "level_text": ("Exploration: ~5x10^6 encoder cases (all disjoint word-range sets over all small documents with multi-byte characters) and ~10^4 generated programs per quick run. Found and repaired: module qualifiers never tagged `namespace`."),
        "design_ref": "DESIGN.md §5 C19",
        "level_note": "Function-typed locals are accepted with either tag in scoped mode; typed programs assert the `function` tag.",
    },
    "C11": {
        "technique": "history replay: incremental host vs. two fresh hosts (second one in shuffled query order) after every step; cross-process per-probe hash comparison",
        "level_text": ("Exploration: ~5x10^7 probe answers per quick run over ~4x10^3 histories of 12 changes (file edits, add file, roots/graph replaced, dependency edge toggled). "
                       "Found and repaired: type-variable naming of recursion groups depended on HashMap order and query history (non-determinism even between two fresh analyses)."),
        "design_ref": "DESIGN.md §5 C11",
        "level_note": "Set-valued answers are compared as sorted multisets; probes are sampled token boundaries (12 per file quick, 30 thorough); LRU eviction (140-module workspace) is a thorough-tier case.",
    },
    "C12": {
        "technique": "tagged-snapshot history checker: answers recorded on reader threads are checked offline against a fresh analysis of the snapshot's version; cancellation and promptness accounting with seeded delays; thorough tier additionally runs the smallest scenario under Miri (data-race / UB detector, schedules varied by seed) and the whole scenario engine under ThreadSanitizer (instrumented std, native thread counts)",
        "level_text": ("Exploration of schedules: ~10^4 scenarios / 2.5x10^6 recorded queries per quick run, ~1.3x10^5 of them cancelled mid-sweep; every answer equals its own version's answer; no panic other than Cancelled; "
                       "apply_change latency distribution reported. Held on everything observed."),
        "design_ref": "DESIGN.md §5 C12",
        "level_note": "Promptness is restated as: no query starting >700 ms after a change request may still answer, and apply_change <= 2.5 s (reader sweep cap). Schedules are sampled, not enumerated. ThreadSanitizer reports whose two accesses both lie in salsa state guarded by parking_lot 0.11.2's RwLock are one listed known finding (a dependency-level report, reproduced without glas); any other race report fails the run.",
    },
    "C16": {
        "technique": "concurrent vs. sequential differential on the real binary with seeded message batching and seeded delays at yield points (hook); exactly-once accounting; convergence monitor; deadlock classifier with gdb witness; thorough tier: the same races against a ThreadSanitizer build of the server",
        "level_text": ("Exploration of schedules: ~5x10^2 races per quick run, ~10^4 raced requests (results / RequestCancelled / errors counted per version lag), yield-point hit counts in the evidence. "
                       "Found and repaired: main-loop stall with more in-flight requests than cores, version mixtures through the shared document store, lost and re-ordered diagnostics publications."),
        "design_ref": "DESIGN.md §5 C16",
        "level_note": "Requires the hooked binary for injected delays (falls back to batching only). 'Converges' is judged after 300 ms of silence within a 10 s bound.",
    },
    "C17": {
        "technique": "layout-rule reference model vs. definition / prepareRename / hover answers of the real server on generated on-disk project trees, three opening orders",
        "level_text": ("Exploration of configurations: ~7x10^3 project trees per quick run (1.3x10^5 definition queries, 6.5x10^4 prepareRename queries) covering registry, transitive-only, diamond and path dependencies, "
                       "nested module directories, test/ modules, equal module names across packages and a free-standing file, each with a fresh server process. Held on everything observed."),
        "design_ref": "DESIGN.md §5 C17",
        "level_note": "Only the dependency closure of the root exists under build/packages (as `gleam` would download it). Import path segments and module-qualifier goto are not judged.",
    },
}
