"""Per-property configuration for /verif/check: which engine decides the property, how it
is built from /repo's working tree, budgets, and the static evidence fields."""

BUILD_VH = [{"cmd": ["cargo", "build", "--release", "--offline", "-p", "vh"]}]
BUILD_GLAS_PLAIN = [{"cmd": ["cargo", "build", "--release", "--offline", "-p", "glas"], "cwd": "$REPO", "env": {"CARGO_TARGET_DIR": "/verif/target/glas-plain"}}]
BUILD_GLAS_VERIF = [{"cmd": ["cargo", "build", "--release", "--offline", "-p", "glas", "--features", "verif"], "cwd": "$REPO", "env": {"CARGO_TARGET_DIR": "/verif/target/glas-verif"}}]
# Thorough tier only: the same oracles with the real parser *interpreted* by Miri (undefined behaviour,
# out-of-bounds, use-after-free, invalid enum values, uninitialised reads abort the interpreter with a report).
MIRI_SYNTAX = {"bin": "mi_syntax", "runner": "miri", "tiers": ["thorough"], "shards": 8, "args": ["--cases", "60"]}
GLAS_PLAIN = "/verif/target/glas-plain/release/glas"
GLAS_VERIF = "/verif/target/glas-verif/release/glas"
# Thorough tier only: sanitizer builds. ThreadSanitizer needs an instrumented standard library (-Zbuild-std on the
# nightly toolchain; rust-src is installed, everything builds offline); AddressSanitizer is built with the repository's own
# stable toolchain (RUSTC_BOOTSTRAP=1 only unlocks the -Z flag; the newest nightly no longer compiles rustix 0.37's probe result).
SAN_TRIPLE = "x86_64-unknown-linux-gnu"
_TSAN_ENV = {"CARGO_TARGET_DIR": "/verif/target/tsan", "RUSTFLAGS": "-Zsanitizer=thread"}
_ASAN_ENV = {"CARGO_TARGET_DIR": "/verif/target/asan", "RUSTFLAGS": "-Zsanitizer=address -Cforce-frame-pointers=yes", "RUSTC_BOOTSTRAP": "1"}
BUILD_VH_TSAN = [{"cmd": ["cargo", "+nightly", "build", "-Zbuild-std", "--target", SAN_TRIPLE, "--release", "--offline", "-p", "vh", "--bin", "m_conc", "--bin", "san_selftest"], "env": _TSAN_ENV}]
BUILD_SELFTEST_ASAN = [{"cmd": ["cargo", "build", "--target", SAN_TRIPLE, "--release", "--offline", "-p", "vh", "--bin", "san_selftest"], "env": _ASAN_ENV}]
BUILD_GLAS_TSAN = [{"cmd": ["cargo", "+nightly", "build", "-Zbuild-std", "--target", SAN_TRIPLE, "--release", "--offline", "-p", "glas", "--features", "verif"], "cwd": "$REPO",
                    "env": dict(_TSAN_ENV, CARGO_TARGET_DIR="/verif/target/glas-tsan")}]
BUILD_GLAS_ASAN = [{"cmd": ["cargo", "build", "--target", SAN_TRIPLE, "--release", "--offline", "-p", "glas"], "cwd": "$REPO",
                    "env": dict(_ASAN_ENV, CARGO_TARGET_DIR="/verif/target/glas-asan")}]
GLAS_TSAN = f"/verif/target/glas-tsan/{SAN_TRIPLE}/release/glas"
GLAS_ASAN = f"/verif/target/glas-asan/{SAN_TRIPLE}/release/glas"
TSAN_CONC = {"bin": "m_conc", "runner": "tsan", "tiers": ["thorough"], "shards": 4, "build": BUILD_VH_TSAN}
BUILD_VTEXT = [{"cmd": ["cargo", "build", "--release", "--offline", "-p", "vtext"]}]

PROPS = {
    "C01": {
        "bin": "m_syntax",
        "engines": [{"bin": "m_syntax", "share": 1},
                    MIRI_SYNTAX],
        "build": BUILD_VH,
        "level": "exploration",
        "budget": {"quick": 16, "thorough": 240},
        "timeout": {"quick": 900, "thorough": 7200},
        "death_is_violation": False,
        "rule": ("cases = (a) every sequence of <=3 lexemes of a 75-lexeme alphabet (all keywords, all operator/punctuation tokens, identifier "
                 "classes, literals, unterminated strings, comments of all three kinds, TAB/CR, lexer-error and non-ASCII characters) x 3 separators "
                 "x 6 parser contexts [thorough adds length 4 over 40 lexemes and length 5-6 over 16], (b) every 7th [thorough: every] char-boundary prefix "
                 "of the repository's .gleam files and /verif/corpus, (c) seeded token/char mutants of corpus windows, (d) seeded random UTF-8 and keyword soup. "
                 "A case is non-trivial if its tree has >=2 tokens and (a syntax error was reported or >=3 nodes); distinct by FNV-1a of the text. The oracle also enumerates the leaves by first_token()/next_token() - the walk glas's own features use - and demands that it reach every leaf."),
        "exhaustive_scope": "the lexeme-sequence sub-space (a) only; (b)-(d) are sampled",
        "assumptions": [
            "oracle: concatenated leaf token texts == input bytes; ranges non-empty, contiguous, from 0 to len; node range = hull of children (checked on the rowan tree the public API returns)",
            "an input on which parse_module panics yields no tree and is counted inconclusive here (it is C02's violation)",
            "sequences longer than the enumerated lengths are sampled, not enumerated",
        ],
    },
    "C02": {
        "bin": "m_syntax",
        "engines": [{"bin": "m_syntax", "share": 1},
                    MIRI_SYNTAX],
        "build": BUILD_VH,
        "level": "exploration",
        "budget": {"quick": 16, "thorough": 240},
        "timeout": {"quick": 1200, "thorough": 7200},
        "death_is_violation": True,
        "rule": ("cases = the C01 workload (exhaustive lexeme sequences, corpus prefixes, mutants, random text, keyword soup) executed on a 2 MiB stack under a "
                 "panic hook + catch_unwind, plus 23 delimiter/prefix towers x depths 16..16384 [thorough ..65536] closed and unclosed and 20 long chains x lengths "
                 "100..50000 [thorough 200000], each in its own child process whose exit status/signal is observed; plus a nesting-bound sweep: 48 recursion units (every production that recurses: "
                 "delimiters, prefix operators, lambdas, case clauses/guards/alternatives, constructor and list patterns, bit-array segments, let/use/pipe/binary right operands, type applications, fn types, constants) "
                 "x depths 118..134 around the parser's bound of 128 x 41 tails (every lexeme, and none), unclosed, and 1500 [thorough 20000] towers of randomly mixed units. Non-trivial = errors reported or text longer than 8 bytes "
                 "(tower/chain cases always); distinct by FNV-1a of the text / generator spec. Chains also at 2040-4100 links after a lead / before a tail; 7 wide-delimiter shapes (bit arrays, constant tables, tuples, parameter / field lists); in child processes, chains nested through their LEFT-most operand (4 containers x 4 link kinds x 5-7 sizes up to 120 levels x 2000 links)."),
        "exhaustive_scope": "the lexeme-sequence sub-space only",
        "assumptions": [
            "stack size 2 MiB = tokio blocking-pool default, where the server parses; the 8 MiB main thread of `glas diagnostics` is strictly easier",
            "inputs <= 64 KiB (quick) / <= ~1 MiB (thorough); the server's nominal limit is 128 MiB but long left-nested chains are quadratic (events.insert), so multi-MiB adversarial inputs are out of reach",
            "'never loops' is restated as bounded progress: a parse that exceeds 20 s (>=200x the slowest passing case) is a hang suspect; a child that exceeds 120 s is inconclusive",
        ],
    },
    "C03": {
        "bin": "m_gram",
        "build": BUILD_VH,
        "level": "exploration",
        "budget": {"quick": 15, "thorough": 300},
        "timeout": {"quick": 900, "thorough": 7200},
        "death_is_violation": False,
        "rule": ("base files = generated single-module programs (2-8 well-formed items: functions, custom types, aliases, constants, imports; attributes, doc comments, pub/opaque; plain or wild trivia) "
                 "that parse error-free; victim = a function or custom type with a braced body; damage strictly inside the body: k=1 edits enumerated exhaustively over a fixed pool of 40 [thorough 120] base files x every victim "
                 "x every body token position x (insert each of 55 non-opening tokens | delete | replace by each of them), k=2..3 [thorough ..5] edits sampled. Braces are never inserted, deleted or replaced; "
                 "no opening delimiter, string or comment opener is ever inserted. Distinct by FNV-1a of the damaged text (every damaged file is non-trivial by construction). Damage tokens include complete string literals with an escaped backslash next to an escaped quote."),
        "exhaustive_scope": "k=1 damage over the fixed base pool; k>1 is sampled",
        "assumptions": [
            "oracle: every untouched item is found in the damaged file's item list with the same kind, name and text, in order, at its shifted offset; every reported error range and every extra/stray node lies in [victim start, start of the next untouched item); an error stamped on the next definition's first token counts as inside that definition",
            "item boundaries of the undamaged file are those glas itself reports for the error-free base file (cross-checked against the generator's sidecar by C04)",
            "a damaged text on which the parser panics is C02's violation and counted inconclusive here",
        ],
    },
    "C04": {
        "bin": "m_gram",
        "build": BUILD_VH,
        "level": "exploration",
        "budget": {"quick": 15, "thorough": 300},
        "timeout": {"quick": 900, "thorough": 7200},
        "death_is_violation": False,
        "rule": ("cases = (a) exhaustively all ordered pairs and triples of the 23 infix operators (22 binary + pipe) in every association shape, with prefix/postfix atoms, printed with braces only where Gleam's precedence "
                 "table and left associativity require; (a') exhaustively every string-literal content of up to four pieces over {plain, escaped backslash, escaped quote, \\n escape, space, non-ASCII, raw newline, unicode escape} "
                 "followed by more code (the literal must end at its own closing quote); (b) seeded random programs from the reference grammar (imports with unqualified/type/aliased members, custom types with generics and labelled fields, aliases, constants, "
                 "functions with labelled/annotated/discarded parameters, attributes, let/let assert/use/expression statements, all expression and pattern forms, type expressions) printed with random legal trivia. "
                 "Non-trivial = contains a function body; distinct by FNV-1a of the text. One generated case in 600 is a large module: the definitions of 250-500 generated modules in one file (~140 KB; thousands of calls, operators and field accesses in total), so that anything the parser counts per module rather than per nesting path is reached. Since round 8: hex/binary/octal literals, chained tuple indices, nested bit arrays, discarded list tails, tight operator layouts (never `-` glued to a digit after white space: disputed)."),
        "exhaustive_scope": "operator pairs and triples, string-literal contents up to 4 pieces; programs are sampled",
        "assumptions": [
            "oracle: zero syntax errors and CST read back through the public typed accessors == the generator's intended structure (S-expression equality), plus accessor cross-checks (op_kind table; Param.ty / StmtLet.body must return the child in that slot)",
            "supported surface = the generator's grammar: no record update, no `echo`, no `let assert ... as`, bit arrays only as an opaque blob, no `x as y` on a bare variable pattern, no chained tuple index `a.0.1`",
            "multi-subject clauses with alternatives (`a, b | c, d`) are not generated",
        ],
    },
    "C09": {
        "bin": "m_types",
        "build": BUILD_VH,
        "level": "exploration",
        "budget": {"quick": 20, "thorough": 600},
        "timeout": {"quick": 1200, "thorough": 10800},
        "death_is_violation": False,
        "rule": ("workspaces of 1-3 modules from the type-directed generator (vh::tgen): every expression is generated FOR a chosen monomorphic type from a typed environment, so each binder's type is "
                 "known by construction; hover is asked at the declaration of every parameter, let variable, pattern variable (let, case with 1-2 subjects, list/tuple/constructor/string-prefix/as), "
                 "use binder, lambda parameter and function, and the displayed type must equal the constructed one. Ten polymorphic helpers with hand-written most-general signatures (incl. a mutually "
                 "recursive pair) are spliced into every module in random order with randomly chosen binder names (sometimes spelled like a top-level function) and compared up to bijective renaming "
                 "of type variables. Non-trivial = every workspace (all contain generic instantiation); distinct by FNV-1a of the expected types; evaluations = hover comparisons. Every module has an alias Num<m> = Int through which half of the Ints inside constructor fields and alias bodies are spelled (an alias met inside another definition, seen from importing modules, with names of the defining module after it). Since round 8/9: helpers poly_later, poly_fold/poly_sum/poly_sum2 (use + labelled arguments in another order), poly_flip over labelled function values."),
        "assumptions": [
            "well-typed Gleam only, and only constructs whose PRINCIPAL type is the constructed type: no empty list literals, no lone Ok/Error (both sides pinned by a two-armed case or a helper), no constructor that leaves a type parameter open",
            "unlabelled parameters/fields precede labelled ones; `..` in constructor patterns only when a field is actually omitted (both are errors in Gleam otherwise)",
            "a function without return annotation only calls same-module functions whose type is already settled (annotated, or earlier and unannotated): no inference cycle through un-annotated returns",
            "unannotated parameters are forced by an operator in the first statement; lambda parameters are forced by a witness list `[param, witness]` or by the callee (poly_apply / use)",
            "known gaps kept out of the generator (baseline tests infer_annotated_let / infer_annotated_lambda fail on the pinned tree): annotations on let and on lambda parameters",
            "types are compared as glas prints them (aliases expanded, module qualifiers dropped)",
        ],
    },
    "C10": {
        "bin": "m_robust",
        "build": BUILD_VH,
        "level": "exploration",
        "budget": {"quick": 25, "thorough": 600},
        "timeout": {"quick": 1200, "thorough": 10800},
        "death_is_violation": True,
        "rule": ("workspaces = (a) 37 fixed hostile workspaces (30 shapes taken from reading lowering/inference: clauses with more/fewer patterns than subjects, use with too many parameters, "
                 "spread/hole/duplicate-label calls, field access on non-records, tuple index out of range, lambda without parameter list, pipes into non-functions, constructor patterns with too many fields, "
                 "recursive aliases/types; self-imports and import cycles of length 2-3 through qualified, unqualified and type imports), (b) each repository/corpus .gleam file pristine and as 3 mutated windows, "
                 "(c) seeded generated workspaces of 1-4 modules put through 0-3 damage operations (token/char mutation, truncation, item duplication, self-import, import cycles, unresolved/duplicate imports, "
                 "degenerate files, hostile snippets, and - one workspace in five - a UTF-8 byte order mark in front of one file), (d) long constructs: each of the 20 chain kinds (binary, pipe, call, field, tuple index, concat, "
                 "list elements, arguments, statements, clauses, alternatives ...) with 12 000 links and a block of 12 000 `use` statements (they nest for every recursive walk although the parser never recursed; quick tier: 4 offsets without the usage-search queries). Queries: hover, goto, references, highlight, completion (plain, '.', '@'), signature help, prepare-rename, rename (valid lower, valid upper, invalid), "
                 "semantic highlight (full, 4 ranges), diagnostics, syntax tree - on every file including gleam.toml, at every token boundary, offset 0, EOF and around/inside every multi-byte character "
                 "(sampled down to 400 offsets per file for long files). Each runs on a 2 MiB stack under a panic hook; the workspace is journaled first so a process death is attributable. "
                 "A workspace is non-trivial if it has >=1 damage op or >=2 modules; distinct by FNV-1a of its files. Long constructs also run ACROSS definitions: 3000 functions each calling the next (and each calling the previous, with the caller of the last one first in the file), 3000 aliases each naming the next, 3000 constants, 3000 custom types each wrapping the next - whatever is computed per definition by asking for the one it mentions nests once per link. Each of these is also driven in a long-lived host: asked (the last definitions first), a declaration prepended to the file, asked again - three edits - so that validation of memoised results walks the same chains."),
        "assumptions": [
            "stack 2 MiB (tokio blocking pool); per-query bounded progress: a query above 20 s is a hang suspect, the shard watchdog makes the rest inconclusive",
            "Cancelled cannot occur (single-threaded sweeps); it is counted if it does",
        ],
    },
    "C20": {
        "bin": "m_robust",
        "build": BUILD_VH,
        "level": "exploration",
        "budget": {"quick": 25, "thorough": 600},
        "timeout": {"quick": 1200, "thorough": 10800},
        "death_is_violation": False,
        "rule": ("the C10 sweep (same workspaces, offsets and query kinds); every range of every answer is judged: file belongs to the workspace; start<=end<=len on character boundaries; "
                 "name-like results (hover, references, highlights, rename edits, prepare-rename, semantic highlights) coincide with exactly one token of the file's parse; node-like results "
                 "(definition focus/full ranges) start and end on token boundaries with focus inside full; completion replacement ranges are one token, empty at the cursor, or node-like; diagnostics in bounds. "
                 "Non-trivial/distinct as for C10. Offsets include interior offsets of word-like tokens (identifiers, keywords, numbers), so a completion range that stops at the cursor instead of covering the token is seen."),
        "assumptions": [
            "token table = tokens of syntax::parse_module on the same text the database holds",
            "a query that panics yields no ranges and is C10's violation",
            "module targets are reported by glas as the empty range 0..0 of the module's file and accepted as such",
        ],
    },
    "C05": {
        "bin": "m_sema",
        "engines": [{"bin": "m_sema", "share": 3}, {"bin": "m_types", "share": 1}],
        "build": BUILD_VH,
        "level": "exploration",
        "budget": {"quick": 20, "thorough": 600},
        "timeout": {"quick": 1200, "thorough": 10800},
        "death_is_violation": False,
        "rule": ("workspaces of 1-4 modules from the scope-aware generator (names from pools of 4-7 spellings per namespace, so shadowing is the norm; imports qualified, aliased, unqualified, unqualified-aliased, "
                 "type imports; all statement/expression/pattern forms); goto_definition is asked at the start and end offset of EVERY identifier the printer emitted and compared with the binding the generator "
                 "recorded. A workspace is non-trivial if some module declares one spelling at least twice (shadowing); distinct by FNV-1a of its files; evaluations = goto queries. One workspace in three is split into two local packages (`app` depends on `lib` by path; imports only point from app to lib), so cross-package references, renames and completions are exercised. Second engine (m_types, a quarter of the shards): well-typed programs from the type-directed generator; goto from every recorded use of a local (parameters, let / pattern / clause / use / lambda binders; some spelled like functions or like module accessors, incl. `x.field` on a local that shadows an imported module) must land on its binder. One module in five declares a constructor spelled like a prelude one (Nil, Ok, Error, True, False); a local spelled like a module accessor may stand next to a PATTERN qualifier of that spelling (the qualifier must reach the module); shard 0 also runs seven fixed cases for shapes the generator cannot compose (a constant's `module.name` next to a function or constant of that spelling, aliased pattern qualifiers). Since round 8/9: guards written in the clause scope over the clause's own variables; qualified constants in the core; one function body in forty has 70-130 statements; function-typed locals called in todo/panic messages (typed engine)."),
        "assumptions": [
            "soundness everywhere: an answer must be the recorded declaration (file + focus range as glas defines it per kind: name token; whole variant; whole `label: Type` field; `..name` spread; 0..0 for modules)",
            "completeness on the supported core only (DESIGN §5 C05): uses inside unary operands, guards, `todo as`, qualified constants and module qualifiers in pattern/type position are soundness-only",
            "fields common to all variants resolve to the first variant's field (glas's definition of common fields)",
            "well-formed programs only: no unbound value names, no import cycles, no duplicate definitions in one namespace; programs may be ill-typed",
        ],
    },
    "C06": {
        "bin": "m_sema",
        "build": BUILD_VH,
        "level": "exploration",
        "budget": {"quick": 20, "thorough": 600},
        "timeout": {"quick": 1200, "thorough": 10800},
        "death_is_violation": False,
        "rule": ("workspaces = repository/corpus .gleam files, scope-aware generated workspaces, and generated workspaces put through damage (mutation, truncation, import rewiring). Census: goto at every IDENT/U_IDENT token. "
                 "For every non-module target D: own(D) = first identifier token in D's focus range, S_D = {own(D)} + tokens spelled like it whose goto is D. Law: goto(own(D)) = D; references asked at every member of S_D "
                 "equals S_D as a set, no duplicates; highlight_related equals S_D restricted to the file. Non-trivial = some S_D has >= 2 members; distinct by FNV-1a of the files; evaluations = goto + references queries. One workspace in three is split into two local packages (`app` depends on `lib` by path; imports only point from app to lib), so cross-package references, renames and completions are exercised. Since round 8: one labelled parameter in three is spelled like its label and qualified calls carry labelled arguments."),
        "assumptions": [
            "pure law between two real APIs, no ground truth: a goto bug that is mirrored in references is C05's to find",
            "occurrences reaching D through an alias spelling are neither required nor allowed in the set (as the statement says)",
            "workspaces have a package (gleam.toml); the free-standing case is C17's",
        ],
    },
    "C07": {
        "bin": "m_sema",
        "build": BUILD_VH,
        "level": "exploration",
        "budget": {"quick": 25, "thorough": 900},
        "timeout": {"quick": 1500, "thorough": 14400},
        "death_is_violation": False,
        "rule": ("scope-aware generated workspaces (1-4 modules, shadowing-heavy); for up to 24 [thorough 60] identifier occurrences per workspace (declarations and uses of every symbol kind, sampled) "
                 "rename to a fresh name of the right case that occurs nowhere; if accepted: (1) every edit replaces one whole IDENT/U_IDENT token spelled with the old name, edits disjoint, no duplicates; "
                 "(2) edit set == references; (3) the edited workspace is loaded into a NEW AnalysisHost and goto at every identifier token equals the position-mapped goto before; (4) syntax errors unchanged under the map; "
                 "(5) renaming back restores every file byte for byte; (6) against the generator's sidecar: every core occurrence of the symbol was edited and no occurrence of another symbol was. "
                 "evaluations = rename attempts; non-trivial = accepted rename with >= 2 edits; distinct by (workspace seed, occurrence). One workspace in three is split into two local packages (`app` depends on `lib` by path; imports only point from app to lib), so cross-package references, renames and completions are exercised."),
        "assumptions": [
            "fresh names zz_fresh<k>_q / ZzFresh<k>Q are checked textually absent from the workspace, so capture is impossible by construction",
            "common fields: all variants' fields of one common label are one symbol (glas's definition); field access on possibly ill-typed bases is not part of the ground truth (see C05)",
            "single-package workspaces here; multi-package rename locality is C08's",
        ],
    },
    "C08": {
        "bin": "m_sema",
        "build": BUILD_VH,
        "level": "exploration",
        "budget": {"quick": 20, "thorough": 600},
        "timeout": {"quick": 1500, "thorough": 14400},
        "death_is_violation": False,
        "rule": ("generated workspaces of 2-4 modules split over three packages as the server's loader would (root: local; path dependency: local; build/packages/dep: non-local; root -> both, pathdep -> dep); "
                 "for up to 30 [thorough 80] identifier occurrences per workspace x 52 candidate names (all 15 keywords, lower/upper identifiers incl. a 300-char one, discards, mixed case, numbers, string, operators, "
                 "punctuation, empty, whitespace, spaced, dotted, slashed, multi-line, non-ASCII, comments) rename is called and judged against a reference table; prepare_rename is compared with rename(valid name). "
                 "evaluations = rename/prepare_rename calls; non-trivial = occurrence for which prepare_rename was compared; distinct by (workspace seed, occurrence). The cursor sits at the start of the name, inside it, or right behind its last character (one of the three per occurrence, seeded); rename and prepare_rename are asked at the same position. Since round 8/9: a free-standing copy of module 0 (no package); every symbol is also renamed to its own current name."),
        "assumptions": [
            "reference: rename must fail unless the name is exactly one identifier of the class the symbol kind requires (own classifier: [a-z][a-z0-9_]* minus keywords / [A-Z][A-Za-z0-9]*), the occurrence is spelled with the declaration's own name, the symbol is not a module or built-in, and its definition lies in a local package; every accepted rename edits files of local packages only",
            "the statement does not require valid renames to succeed; only prepare_rename <=> rename(valid) is checked in that direction",
            "PackageInfo.is_local is set as server.rs::assemble_graph computes it (parent dir build/packages => non-local)",
        ],
    },
    "C18": {
        "bin": "m_sema",
        "engines": [{"bin": "m_sema", "share": 3}, {"bin": "m_types", "share": 1}],
        "build": BUILD_VH,
        "level": "exploration",
        "budget": {"quick": 20, "thorough": 600},
        "timeout": {"quick": 1500, "thorough": 14400},
        "death_is_violation": False,
        "rule": ("generated workspaces with up to 2 placeholder identifiers per function at expression positions; the generator records the set of value names visible there (locals innermost-first, module functions/constants/"
                 "constructors, unqualified imports under their local names) and the module accessors. completions(cursor at end of placeholder) must offer exactly that set (keywords/snippets and the five built-in constructors ignored), "
                 "each item replacing exactly the placeholder, and after accepting an item goto on the inserted name must reach the recorded declaration (fresh host). At every qualified use `m.x` completion with trigger '.' "
                 "must offer exactly m's public functions and constructors of public non-opaque types. non-trivial = hole with >= 3 visible names; distinct by (workspace seed, hole). One workspace in three is split into two local packages (`app` depends on `lib` by path; imports only point from app to lib), so cross-package references, renames and completions are exercised. Second engine (m_types): the `value.` clause on typed programs - for parameters, let variables and clause variables of every custom type of the workspace (and of Int, String, List, tuple, function types) completion after `v.` must offer exactly the labelled fields common to all variants (nothing for non-record types). Each offered name is also compared by KIND with the binding the generator's scoping picks at the hole (a shadowed spelling must be offered as the innermost binding: any local or parameter = kind Param, function = Function, constructor = Variant or - constructors with fields are rendered as functions - Function; constants and module accessors are not judged by kind). Accept-and-resolve also runs for module accessors: the item of kind Module is accepted, a public function of that module appended (`<inserted>.<fn>`), and goto on the inserted accessor must reach the module's file - so an aliased import must insert its alias. Since round 8: member completion asked three ways (trigger character; none behind the dot; none behind the typed prefix); value. probes spelled like a module accessor; an opaque type of another module; one hole per program retyped as a keyword."),
        "assumptions": [
            "expected sets come from the generator's own scoping, never from glas",
            "`value.` field completion is checked on typed programs only (second engine m_types), because scoped-mode programs may be ill-typed",
        ],
    },
    "C14": {
        "bin": "m_text",
        "engines": [{"bin": "m_text", "share": 2, "build": BUILD_VTEXT},
                    {"bin": "m_lsp", "share": 1, "args": ["--glas-bin", GLAS_PLAIN], "build": BUILD_VH + BUILD_GLAS_PLAIN}],
        "build": [],
        "level": "exploration",
        "budget": {"quick": 10, "thorough": 300},
        "timeout": {"quick": 900, "thorough": 7200},
        "death_is_violation": False,
        "rule": ("documents = exhaustively all strings of <=6 [thorough 7] symbols over {a, LF, 2-byte, 3-byte, 4-byte (2 UTF-16 units)} plus seeded random documents up to 64 KiB with long lines and dense astral runs; "
                 "for every character boundary: line_col_for_pos == the model client's (line, UTF-16 column), pos_for_line_col round trip, strict monotonicity, from_pos agreement; for all (sampled beyond 40 boundaries) ordered pairs "
                 "to_range selects exactly text[a..b] in the model; last_line and end_col_for_line agree with the model. Non-trivial = contains a multi-byte character and a line break; distinct by FNV-1a."
                 " On the wire (m_lsp engine): a fresh real server per session and a client with its OWN capabilities - general.positionEncodings absent / [utf-16] / [utf-8,utf-16] / [utf-32,utf-16] / [utf-16,utf-8] / all three; semanticTokens.tokenTypes empty / the standard list / without namespace / none of the server's / reordered; optionally work-done progress, workspace/configuration and dynamic watched-file registration (server-to-client requests are answered), clientInfo Neovim / VS Code / absent. The document is a generated module with non-ASCII strings plus a fixed tail that puts identifiers after 2-, 3- and 4-byte characters on their line. Everything the server sends is decoded the way a client must: columns in the encoding the server ANNOUNCED in its initialize result (utf-16 if it announces none; it must be one the client offered), token types through the legend it ANNOUNCED. semanticTokens/full must decode to exactly the (byte range, type) list of Analysis::syntax_highlight on the same text in process; documentHighlight and hover asked at up to 10 [24] identifier tokens (those after non-ASCII text first), the position sent in the announced encoding, must select exactly the byte ranges the in-process analysis answers. Then 1-3 ASCII insertions left of a non-ASCII character are sent as incremental changes and semanticTokens/full is asked again: it must decode to the in-process analysis of the new text."),
        "exhaustive_scope": "documents up to the stated length over the 5-symbol alphabet, all boundaries and all ordered pairs",
        "assumptions": [
            "LineMap values are obtained through Vfs::set_path_content, i.e. the constructor the server uses; conversions are called through thin wrappers of glas::convert (feature verif)",
            "documents are CR-free here (the server strips CR on ingestion; CRLF handling is C13's)",
            "wire engine: the expected byte ranges come from crate ide in process (the analysis is not what C14 judges); what is judged is the conversion between those offsets and what a client with the negotiated encoding reads and writes",
        ],
    },
    "C19": {
        "bin": "m_text",
        "engines": [{"bin": "m_text", "share": 3, "build": BUILD_VTEXT},
                    {"bin": "m_types", "share": 1, "build": BUILD_VH},
                    {"bin": "m_lsp", "share": 1, "args": ["--glas-bin", GLAS_PLAIN], "build": BUILD_VH + BUILD_GLAS_PLAIN}],
        "build": [],
        "level": "exploration",
        "budget": {"quick": 15, "thorough": 400},
        "timeout": {"quick": 900, "thorough": 7200},
        "death_is_violation": False,
        "rule": ("(a) encoder, exhaustive: all documents of <=5 [thorough 6] symbols over {a, b, space, LF, 2-byte, 4-byte} x all position-sorted sets of disjoint single-line word ranges x rotating tags -> glas::convert::to_semantic_tokens -> "
                 "LSP decoder model: strictly increasing, non-empty, inside its line, type in legend, and decoded (line, UTF-16 start, length, type) == the model's for each range; (b) end to end: generated programs with non-ASCII strings "
                 "and comments -> Analysis::syntax_highlight -> encoder -> decoder, compared with the generator's sidecar (uses of functions -> function, constructor uses and constructor declaration names -> type, module qualifiers -> namespace, "
                 "constants/types/fields/declaration names -> not highlighted, nothing highlighted that is not an identifier); range requests == intersecting sub-sequence of the full answer. Non-trivial = >=2 ranges and a multi-byte character. Third part (m_types engine): well-typed generated programs where the type of every local is known by construction - every use of a function-typed local must be tagged function and every use of a local of another type must carry no tag."
                 " On the wire (m_lsp engine): a fresh real server per session and a client with its OWN capabilities - general.positionEncodings absent / [utf-16] / [utf-8,utf-16] / [utf-32,utf-16] / [utf-16,utf-8] / all three; semanticTokens.tokenTypes empty / the standard list / without namespace / none of the server's / reordered; optionally work-done progress, workspace/configuration and dynamic watched-file registration (server-to-client requests are answered), clientInfo Neovim / VS Code / absent. The document is a generated module with non-ASCII strings plus a fixed tail that puts identifiers after 2-, 3- and 4-byte characters on their line. Everything the server sends is decoded the way a client must: columns in the encoding the server ANNOUNCED in its initialize result (utf-16 if it announces none; it must be one the client offered), token types through the legend it ANNOUNCED. semanticTokens/full must decode to exactly the (byte range, type) list of Analysis::syntax_highlight on the same text in process; documentHighlight and hover asked at up to 10 [24] identifier tokens (those after non-ASCII text first), the position sent in the announced encoding, must select exactly the byte ranges the in-process analysis answers. Then 1-3 ASCII insertions left of a non-ASCII character are sent as incremental changes and semanticTokens/full is asked again: it must decode to the in-process analysis of the new text. Since round 8/9: function-typed locals called in todo/panic messages; wire documents that start with a byte-order mark."),
        "exhaustive_scope": "encoder inputs over the small-document space; programs are sampled",
        "assumptions": [
            "locals: the generator does not know whether a local is function-typed in scoped mode, either tag is accepted there; typed programs (engine m_types) decide that clause",
            "the server-level path (textDocument/semanticTokens/full|range over stdio) is exercised by the black-box engine",
        ],
    },
    "C13": {
        "bin": "m_text",
        "engines": [{"bin": "m_text", "share": 1, "build": BUILD_VTEXT},
                    {"bin": "m_lsp", "share": 1, "args": ["--glas-bin", GLAS_PLAIN], "build": BUILD_VH + BUILD_GLAS_PLAIN}],
        "build": [],
        "level": "exploration",
        "budget": {"quick": 12, "thorough": 300},
        "timeout": {"quick": 900, "thorough": 7200},
        "death_is_violation": False,
        "rule": ("in-process part: exhaustively all documents of <=5 [thorough 6] symbols over {a, LF, CRLF, 2-, 3-, 4-byte} x all valid ordered position pairs (UTF-16 columns) x 7 replacement strings (empty, a, LF, CRLF, 2-byte, 4-byte, a CRLF 2-byte) "
                 "through the primitive sequence of on_did_change (Vfs::set_path_content, convert::from_range, Vfs::change_file_content); seeded sequences of 2-20 edits with full replacements on documents up to 2 KiB. "
                 "After every edit the server's text must equal the model client document without CR and the stored line map must equal one built from scratch. Non-trivial = document with a multi-byte character or CRLF; distinct by FNV-1a of (doc, edit). In the black-box engine one history in three comes from an editor that still sends the deprecated rangeLength with every ranged change (UTF-16 units of the replaced text, carriage returns included): `range` stays authoritative. Since round 9: one document in six starts with a byte-order mark."),
        "exhaustive_scope": "single edits over the small-document space (in-process part)",
        "assumptions": [
            "the per-notification loop of Server::on_did_change itself (several changes per notification, line map re-read between changes, JSON layer) is exercised by the black-box engine m_lsp (C13 second half, see evidence counters prefixed bb_)",
            "reference model: vh::lspmodel::Doc, written from the LSP specification (lines end at LF or CRLF; columns in UTF-16 code units)",
        ],
    },
    "C15": {
        "bin": "m_lsp",
        "args": ["--glas-bin", GLAS_PLAIN],
        "engines": [{"bin": "m_lsp", "share": 1, "args": ["--glas-bin", GLAS_PLAIN]},
                    # thorough: the same hostile sequences against sanitizer builds of the server (this is the role DESIGN.md first gave to valgrind)
                    {"bin": "m_lsp", "san": "asan", "tiers": ["thorough"], "shards": 4, "args": ["--glas-bin", GLAS_ASAN], "build": BUILD_GLAS_ASAN + BUILD_SELFTEST_ASAN},
                    {"bin": "m_lsp", "san": "tsan", "tiers": ["thorough"], "shards": 4, "args": ["--glas-bin", GLAS_TSAN], "build": BUILD_GLAS_TSAN + BUILD_VH_TSAN}],
        "build": BUILD_VH + BUILD_GLAS_PLAIN,
        "level": "fault_enumeration",
        "budget": {"quick": 30, "thorough": 900},
        "timeout": {"quick": 1500, "thorough": 14400},
        "death_is_violation": False,
        "rule": ("message sequences of 5-60 LSP notifications/requests over 1-3 documents against a fresh real `glas --stdio` process per sequence (release binary built from /repo): didOpen (project files, nested new file, file outside any project, "
                 "gleam.toml, untitled:/git: URIs, duplicates, re-open after close), didChange (valid; line beyond EOF by one and far; column beyond line by one and far; u32::MAX; inside a surrogate pair; start>end; 2-4 changes with an invalid one among them; "
                 "full replacement; closed or never-opened URI), didClose, didSave, didChangeWatchedFiles (existing, deleted, directory, FIFO, toml), every request kind with valid/invalid positions and ranges, rename with good and bad names. "
                 "Half the sequences are sent stepwise (a round trip after every message attributes a death), half pipelined. Non-trivial = at least one hostile message; distinct by FNV-1a of the sequence. One sequence in six uses documents whose paths are nested in one another (a document path that is a proper ancestor of another document's path; an existing directory opened as a document). Every sequence starts with an initialize from a client of its own kind (position encodings offered, token types, work-done progress, workspace/configuration and dynamic watched-file registration - the server's requests are answered -, clientInfo Neovim / VS Code / none). One valid ranged change in three carries the deprecated rangeLength (as an editor keeping CRLF counts it, or a wrong number on invalid ranges); one watched-file event in five has a change type outside the protocol's 1..3 (0, 4, 7, 2147483647) - ignoring, reloading or dropping the file are all accepted, dying is not. Since round 9: notifications of the protocol without a handler; position values no u32 can hold (4294967296, -1, 1e20)."),
        "assumptions": [
            "oracle: process alive at the end; every request id answered exactly once (barrier 25 s, then deadlock classification by flat CPU + unanswered probe, else inconclusive); every document's final server text (glas/syntaxTree) lies in the model's acceptable set: "
            "exactly the model text if all edits were valid; after an invalid edit any of forgotten / edit dropped / LSP-spec clamped application",
            "unknown methods and malformed JSON are the transport library's contract and are not sent",
            "the `gleam` executable is absent (GLEAM_PATH points nowhere): the server runs without its interop child",
            "sanitizer builds (thorough tier): 4 shards drive an AddressSanitizer build and 4 a ThreadSanitizer build (-Zbuild-std) of the server with the same sequence grammar; any report block in the sanitizer logs "
            "(heap-use-after-free, overflow, data race ...) is a violation `asan:<class>:<frame>` / `tsan:<class>:<frames>`; leak checking is off (the server leaves through process::exit); each sanitizer's self-test must fire first",
        ],
    },
    "C11": {
        "bin": "m_incr",
        "build": BUILD_VH,
        "level": "exploration",
        "budget": {"quick": 25, "thorough": 900},
        "timeout": {"quick": 1500, "thorough": 14400},
        "death_is_violation": False,
        "rule": ("histories of 12 [thorough 60] changes over generated workspaces of 1-4 modules in 1-2 packages: token/char edits, first line dropped, function appended/prepended, lines rotated, whole-file replacement, "
                 "file emptied, file added (roots re-set), dependency edge added/removed (package graph re-set alone), roots+graph replaced - each preceded by ~40 arbitrary queries on the long-lived host. After EVERY step a probe set "
                 "(diagnostics, syntax tree, full highlight per file; hover, goto, references, highlight, completion plain and '.', signature help, prepare-rename, rename at 12 [30] seeded token boundaries per file) is asked of the long-lived host, "
                 "of a fresh host, and of a second fresh host in shuffled order; normal forms must be equal. Every 4th state is additionally re-analysed in a separate process (different HashMap keys) and the per-probe hashes compared. "
                 "evaluations = probe answers; non-trivial = history with >= 2 changes that completed; distinct by case seed. One history in eighty starts from a chain of 140-147 modules (more than the parse cache's LRU capacity of 128), each calling the previous one, so syntax trees are evicted and re-parsed between queries. One file edit in four carries several successive texts of the file in a single Change (the last one wins). From step 12 on, edits also rewire imports (`import sibling`, `import sibling.{name}` added and removed), so import cycles of length 1-3 are created and broken while results memoised in the other state are still in the database; the imported name is a public function the sibling really has (two times in three), half of the time a new function calls through it, and one such step in three adds a second import under the SAME qualifier (`import other as <accessor of the first>`). Since round 8: one added file in three is a test module, often named like a source module (two files, one module name)."),
        "assumptions": [
            "normal form: sequences whose order carries meaning stay sequences; references, highlights, completion items and rename edits are compared as sorted multisets (HashSet iteration order is not part of the answer)",
            "file removal is not part of the statement and is not generated; FileIds are stable across the history and identical in the fresh hosts",
        ],
    },
    "C12": {
        "bin": "m_conc",
        "engines": [{"bin": "m_conc", "share": 1},
                    {"bin": "mi_conc", "runner": "miri", "tiers": ["thorough"], "shards": 8, "args": ["--rounds", "3"]},
                    TSAN_CONC],
        "build": BUILD_VH,
        "level": "exploration",
        "budget": {"quick": 25, "thorough": 900},
        "timeout": {"quick": 1500, "thorough": 14400},
        "death_is_violation": False,
        "shards": {"quick": 8, "thorough": 8},
        "rule": ("scenarios mirroring the server's ownership: a main thread owns the AnalysisHost, takes snapshots tagged with the version they were taken at, hands them to 1-4 reader threads and applies 1-6 changes with known "
                 "contents (file edits, file added with roots re-set, package-graph-only change); readers sweep 24 seeded queries (hover, goto, references, completion, highlight, diagnostics, signature help, semantic highlight) cyclically "
                 "with seeded sleeps/yields until cancelled. Recorded at the API boundary: (reader, tag, probe, start time, answer | Cancelled | panic). Afterwards every answer is compared with a fresh sequential analysis of the "
                 "tagged version. evaluations = recorded queries; non-trivial = scenario in which at least one query answered and at least one was cancelled; distinct by the hash of the global completion order of answers (interleaving signature). One edited file in three gets a draft text and the final text in one Change. 'Never block' is decided as bounded progress: a watchdog thread reports apply-change-blocked:never-returned when an apply_change has not returned after max(60 s, 500 x the time a fresh host needs for the scenario's whole probe set) - readers let go of a snapshot after 2.5 s at the latest and single queries take milliseconds. Since round 9: one scenario in ten is a long session (30-60 changes on the same reader threads), half of them on a 250-400-function call chain whose every version has to be inferred again."),
        "assumptions": [
            "(a) an answer must equal the answer of its snapshot's own version (else: answer of a later/earlier version, or a mixture); (b) only Err(Cancelled) may surface, never a panic; "
            "(c) promptness restated: no query that STARTS more than 700 ms after the next change was requested may still return an answer, and apply_change never takes longer than a reader's sweep cap (2.5 s); "
            "(d) the snapshots handed out after apply_change returned are checked against the NEW version",
            "8 shards x (1 main + <=4 readers) threads on 16 cores; wall-clock enters only through the generous bounds in (c)",
            "Miri (data-race / UB interpreter) on the smallest scenario: thorough tier",
            "ThreadSanitizer (thorough tier): the whole scenario engine rebuilt with -Zsanitizer=thread and an instrumented standard library (-Zbuild-std), 4 shards of the same seeded scenarios at native thread counts; every data-race / use-after-free report in the logs is a violation `tsan:<class>:<frames>`; a deliberately racy self-test built the same way must be reported first, else that part is inconclusive",
        ],
    },
    "C16": {
        "bin": "m_lsp",
        "args": ["--glas-bin", GLAS_PLAIN, "--glas-verif-bin", GLAS_VERIF],
        "engines": [{"bin": "m_lsp", "share": 1, "args": ["--glas-bin", GLAS_PLAIN, "--glas-verif-bin", GLAS_VERIF]},
                    # thorough: the same races against a ThreadSanitizer build of the server (its reports are read from the sanitizer's log files)
                    {"bin": "m_lsp", "san": "tsan", "tiers": ["thorough"], "shards": 4, "args": ["--glas-bin", GLAS_PLAIN, "--glas-verif-bin", GLAS_TSAN],
                     "build": BUILD_GLAS_TSAN + BUILD_VH_TSAN}],
        "build": BUILD_VH + BUILD_GLAS_PLAIN + BUILD_GLAS_VERIF,
        "level": "exploration",
        "budget": {"quick": 30, "thorough": 900},
        "timeout": {"quick": 1500, "thorough": 14400},
        "death_is_violation": False,
        "shards": {"quick": 8, "thorough": 8},
        "rule": ("races: 1-2 generated documents (8-24 items each, non-ASCII strings/comments), 2-7 line-structure-changing edits, after the open and after every edit a batch of 1-16 requests (hover, definition, references, documentHighlight, "
                 "completion, rename, prepareRename, semanticTokens/full) aimed at valid positions of the version just sent; the whole byte stream is written without waiting, split at seeded points with seeded micro-pauses, "
                 "to the server built with --features verif and GLAS_VERIF_SCHED seeded delays at its yield points. A sequential reference run (plain binary, every request asked and awaited at EVERY version) gives the per-version answers. "
                 "evaluations = races; non-trivial = race with at least one answered request; distinct by the hash of the server's own message order (responses and notifications). Request kinds raced: hover, definition, references, documentHighlight, completion, rename, prepareRename, signatureHelp (aimed inside argument lists), semanticTokens full and range, glas/syntaxTree. A didChange notification carries 1-3 content changes (ranged and full mixed); the sequential reference receives the same changes one notification each, so the intermediate texts exist as versions there and an answer computed on one of them is recognised. The first case of every shard and one case in 25 is a pile-up burst: a document of 1500-3000 functions, one edit at its top and, in the same write, 70-260 requests (hover, definition, documentHighlight, semanticTokens) that all wait on the one recomputation and so are in flight together; judged: every request answered exactly once within 120 s (else the deadlock classifier), a later probe answered, final text equal. Since round 8: one two-document race in three opens its second document last, behind the last edit of the first (whose text ends in a syntax error)."),
        "assumptions": [
            "(a) every request answered exactly once by a 30 s barrier, else deadlock classification (probe unanswered + flat CPU, gdb stacks attached) or inconclusive; (b) a probe after the burst is answered; "
            "(c) a result must equal (normal form) the sequential answer at the version the request was issued against; errors and RequestCancelled are accepted; a result equal to another version's answer or to none is a violation; "
            "(d) after 300 ms of silence the server's text equals the client's final text and the LAST publishDiagnostics per document equals the diagnostics of the final text (ranges converted with the model's UTF-16 arithmetic)",
            "yield points only delay real threads at points where the OS may preempt anyway; their hit counts are in the evidence",
            "ThreadSanitizer (thorough tier): 4 more shards race the same workload against the server rebuilt with -Zsanitizer=thread -Zbuild-std (hook feature on, seeded delays on); a data race anywhere in the process - glas, salsa, rowan, tokio, async-lsp, parking_lot as this server drives them - is a violation `tsan:data-race:<frames>`; the self-test must fire first",
        ],
    },
    "C17": {
        "bin": "m_lsp",
        "args": ["--glas-bin", GLAS_PLAIN],
        "build": BUILD_VH + BUILD_GLAS_PLAIN,
        "level": "exploration",
        "budget": {"quick": 25, "thorough": 900},
        "timeout": {"quick": 1500, "thorough": 14400},
        "death_is_violation": False,
        "rule": ("project trees written to disk: root package `app` with 1-3 registry dependencies under build/packages/<name> (each listed directly by the root with probability 2/3, with random dependency edges among them: diamonds and "
                 "transitive-only packages), optionally a `path = \"../pathdep\"` dependency which lists a random subset of the root's registry packages as its own dependencies (the monorepo layout: everything is fetched into the ROOT's build/packages) "
                 "and, one time in three, has a private build/packages/<name> with ANOTHER copy of one of them (other modules), 1-3 modules per package from a pool of 8 names incl. nested directories (equal module names in different packages are common), a test/ module, "
                 "and a free-standing file without gleam.toml; every package's entry module imports 5 module names sampled from the whole tree. A fresh real server per tree; entry modules are opened root-first, dependency-first (a path dependency's file before anything of its owner) or test-module-first, the free-standing file before all of them or only after the import queries (so that nothing re-assembles the package graph in between); the order is part of every signature. textDocument/definition is asked on every qualified use, prepareRename on every resolved one, hover and glas/syntaxTree in the free-standing file. "
                 "evaluations = trees; distinct by FNV-1a of the tree description. In half of the trees a registry dependency is then removed from the root's gleam.toml on disk and announced through workspace/didChangeWatchedFiles: prepareRename inside the removed package must still be refused (it lives under build/packages) and still be accepted in the root, and the root's imports must follow the new manifest. One tree in four instead has a dependency that is fetched late: build/packages/latedep (listed in the root's manifest from the start, or added to it only then) is written to disk after the first queries, with or without a didChangeWatchedFiles event; a document inside it is opened and prepareRename / rename on its function must be refused - a package under build/packages is a dependency whenever it arrived. Since round 8/9: module directories named test/src; a fixture project below the root's test/; a dev-dependency-only package; a path dependency of a path dependency."),
        "assumptions": [
            "layout rule (independent model): module name = path below src|test without extension; `import m` from package P may resolve only to a file named m in P or in a package P lists under [dependencies] (registry or path); "
            "if only a transitive or unrelated package has it the answer must be empty; several candidates: any; target URIs are compared after lexical normalisation (path dependencies come back as root/../pathdep/...); "
            "symbols of build/packages/* must refuse prepareRename, symbols of the root and of path dependencies must accept it; the free-standing file must get hover and syntax-tree answers",
            "the `gleam` executable is absent: dependency discovery is glas's own (assemble_graph over gleam.toml files)",
            "twice-present package (root's build/packages and the path dependency's private build/packages): packages under the root must resolve to the root's copy only; for the path dependency either copy is accepted "
            "(it can be analysed as part of the root project or as a project of its own); documents inside the private copy are neither opened nor judged as importers",
        ],
    },
}
