pub type Shape {
  Circle(radius: Float, name: String)
  Rect(w: Float, h: Float, name: String)
  Empty
}

pub fn describe(s: Shape, t: #(Int, List(String)), txt: String) {
  case s, t, txt {
    Circle(radius: r, ..), #(0, []), _ | Rect(w: r, ..), #(1, []), _ if r >. 1.0 -> r
    Circle(_, name: n) as c, #(_, [first, ..rest]), "pre" <> tail -> {
      let _ = #(n, c, first, rest, tail)
      0.0
    }
    Empty, #(n, [_, _, ..]), "" if n > 0 && n < 10 || n == 42 -> 1.0
    _, _, _ -> -1.0
  }
}

pub fn lets(p) {
  let #(a, [b, ..c]) = p
  let assert Ok(Circle(radius:, name:)) = a
  let assert [x, y] as both = c
  let _ignored = both
  #(b, radius, name, x, y)
}
