pub fn f(a,	b) {
	let c = a
		+ b // trailing	
	/// doc in odd place
	c
}


pub type T {
	A
}