import a/list
import b/list as option

pub type List {
  List(list: Int)
}

pub fn list(list: List) -> Int {
  let list = list.list
  let list = fn(list) { list + 1 }(list)
  case list {
    list if list > 0 -> {
      let option = option.list
      option(list)
    }
    _ -> list
  }
}

pub fn main(main) {
  let main = main(main)
  use main <- main
  main
}
