pub fn ok() { 1 }

fn broken( { [ #( fn( case x { a if
pub type T { A(x: Int B }
@external(
const = = 
import .{
let x = 
fn after() { "unterminated
