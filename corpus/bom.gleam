﻿import gleam/io

pub fn main() {
  let héllo = "💣"
  io.println(héllo)
}
