import gleam/list
import gleam/result.{try, map as rmap}

pub fn pipeline(xs: List(Int), f) {
  xs
  |> list.map(fn(x) { x * 2 })
  |> list.filter(keeping: fn(x) { x > 2 })
  |> list.fold(from: 0, with: fn(acc, x) { acc + x })
  |> f(_, 1)
  |> fn(n) { n }
}

pub fn nested_use(a, b) {
  use x <- try(a)
  use y, z <- with_two(b)
  use <- defer
  let r = {
    use w <- try(Ok(x + y + z))
    Ok(w)
  }
  rmap(r, fn(v) { #(v, v.0, v.1.name) })
}

fn with_two(v, k) { k(v, v) }
fn defer(k) { k() }
