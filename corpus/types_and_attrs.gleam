import other/mod.{type Remote, Remote as Far, type Remote as R2}

pub opaque type Box(a) {
  Box(inner: a, tag: Int)
}

pub type Tree(k, v) {
  Leaf
  Node(left: Tree(k, v), key: k, value: v, right: Tree(k, v))
}

pub type Pairs(a, b) = List(#(b, a))
type Callback(a) = fn(a, fn(a) -> Result(a, Nil)) -> #(a, mod.Remote, _)

pub const limit: Int = 1_000_000
pub const names: List(String) = ["a", "b"]
const far: Remote = Far(1)

@external(erlang, "lists", "reverse")
@external(javascript, "./ffi.mjs", "reverse")
pub fn reverse(xs: List(a)) -> List(a)

@target(erlang)
pub fn only_erlang(x: R2) -> Box(R2) { Box(x, tag: 0) }

@deprecated("use reverse")
pub fn old() { todo as "gone" }
