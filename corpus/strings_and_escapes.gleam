//// Strings: every escape, escaped backslash before the closing quote, non-ASCII.
pub const empty = ""
pub const backslash = "\\"
pub const path = "C:\\dir\\"
pub const quote = "\""
pub const both = "\\\""
pub const escapes = "\n\r\t\f\u{1F600}\u{e9}"
pub const words = "héllo wörld 💣 ℝ ß 中文"

pub fn join(a: String, b: String) -> String {
  a <> "\\" <> b <> "\"" <> "/* not a comment */" <> "// nor this"
}

pub fn multi() {
  "line one
line two \\
line three"
}
