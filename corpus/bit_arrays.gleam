pub fn encode(x: Int, name: String, rest: BitArray) -> BitArray {
  <<x:size(8), 0:4, 1:size(4)-unit(1), name:utf8, 3.14:float, rest:bits>>
}

pub fn decode(b: BitArray) {
  case b {
    <<>> -> Error(Nil)
    <<len:size(8), payload:bytes-size(len), _:bits>> -> Ok(payload)
    <<"pre":utf8, tail:bytes>> -> Ok(tail)
    <<a:int-signed-little-size(16), _rest:bits>> if a > 0 -> Error(Nil)
    _ -> Error(Nil)
  }
}

pub const magic = <<0xCA, 0xFE, "x":utf8>>
