#!/bin/bash
# One-time offline build of the monitoring harness and the server binaries the black-box
# checks drive. Every check re-runs the (incremental) builds it needs from /repo's tree.
set -e
export CARGO_NET_OFFLINE=true
cd /verif/harness
CARGO_TARGET_DIR=/verif/target cargo build --release --offline -p vh -p vtext
cd /repo
CARGO_TARGET_DIR=/verif/target/glas-plain cargo build --release --offline -p glas
CARGO_TARGET_DIR=/verif/target/glas-verif cargo build --release --offline -p glas --features verif
