#!/bin/bash
# One-time offline build of the monitoring harness (and, once needed, the server binaries).
set -e
cd /verif/harness
export CARGO_NET_OFFLINE=true CARGO_TARGET_DIR=/verif/target
cargo build --release --offline -p vh
